"""Variant table for the self-audit: one-site edits of a scratch copy.

expect='fire'   : breaks the named rule while still compiling; the check must exit 1 naming the rule.
expect='silent' : behaviour-preserving rewrite; the verdict must not change.
"""

VARIANTS = []


def V(prop, vid, expect, rule, what, *edits):
    VARIANTS.append({"prop": prop, "id": vid, "expect": expect, "rule": rule, "what": what, "edits": list(edits)})


UL = "src/pyhf/infer/intervals/upper_limits.py"
# ------------------------------------------------------------------ C09
V("C09", "level-literal-grid", "fire", "C09.R1", "grid arm passes a literal threshold",
  (UL, "data, model, scan, level, return_results, **hypotest_kwargs\n        )", "data, model, scan, 0.05, return_results, **hypotest_kwargs\n        )"))
V("C09", "kwargs-dropped-auto", "fire", "C09.R1", "automatic arm drops the hypotest options",
  (UL, "        from_upper_limit_fn=True,\n        **hypotest_kwargs,\n    )", "        from_upper_limit_fn=True,\n    )"))
V("C09", "args-level-literal", "fire", "C09.R2", "observed root solved at a literal level",
  (UL, "toms748(f, bounds_low, bounds_up, args=(level, 0), k=2, xtol=atol, rtol=rtol)", "toms748(f, bounds_low, bounds_up, args=(0.05, 0), k=2, xtol=atol, rtol=rtol)"))
V("C09", "exp-args-level-literal", "fire", "C09.R2", "expected roots solved at a literal level",
  (UL, "toms748(f, *best_bracket(idx), args=(level, idx), k=2, xtol=atol, rtol=rtol)", "toms748(f, *best_bracket(idx), args=(0.05, idx), k=2, xtol=atol, rtol=rtol)"))
V("C09", "rtol-dropped", "fire", "C09.R2", "relative tolerance not forwarded",
  (UL, "toms748(f, bounds_low, bounds_up, args=(level, 0), k=2, xtol=atol, rtol=rtol)", "toms748(f, bounds_low, bounds_up, args=(level, 0), k=2, xtol=atol)"))
V("C09", "while-literal", "fire", "C09.R2", "bracket extension compares with a literal",
  (UL, "+ lower_results[1]) < level):", "+ lower_results[1]) < 0.05):"))
V("C09", "one-reversal", "fire", "C09.R3", "only the curve is reversed in the interpolation",
  (UL, "_interp(level, result_array[idx][::-1], scan[::-1])", "_interp(level, result_array[idx][::-1], scan)"))
V("C09", "interp-order", "fire", "C09.R3", "_interp swaps xp and fp",
  (UL, "np.interp(x, xp.tolist(), fp.tolist())", "np.interp(x, fp.tolist(), xp.tolist())"))
V("C09", "cached-no-expected-set", "fire", "C09.R2", "cached evaluator does not request the band",
  (UL, "                model,\n                return_expected_set=True,\n                **hypotest_kwargs,", "                model,\n                **hypotest_kwargs,"))
V("C09", "results-dropped", "fire", "C09.R4", "grid results replaced by the scan",
  (UL, "return obs_limit, exp_limits, (scan, results)", "return obs_limit, exp_limits, (scan, scan)"))
V("C09", "rename-local", "silent", "", "rename a local variable",
  (UL, "    obs_limit, exp_limit, results = toms748_scan(", "    obs_limit, exp_limit, scan_results = toms748_scan("),
  (UL, "        return obs_limit, exp_limit, results\n    return obs_limit, exp_limit", "        return obs_limit, exp_limit, scan_results\n    return obs_limit, exp_limit"))
V("C09", "level-keyword", "silent", "", "pass level by keyword on the grid arm",
  (UL, "data, model, scan, level, return_results, **hypotest_kwargs\n        )", "data, model, scan, level=level, return_results=return_results, **hypotest_kwargs\n        )"))
V("C09", "unique-grid-and-callers-scan", "fire", "C09.R4", "grid de-duplicated inside the scan, the caller's grid handed back with the results",
  ("src/pyhf/infer/intervals/upper_limits.py", '    tb, _ = get_backend()\n    results = [\n        hypotest(mu, data, model, return_expected_set=True, **hypotest_kwargs)\n        for mu in scan\n', '    tb, _ = get_backend()\n    scan = tb.astensor(np.unique(tb.tolist(scan)))\n    results = [\n        hypotest(mu, data, model, return_expected_set=True, **hypotest_kwargs)\n        for mu in scan\n'), ("src/pyhf/infer/intervals/upper_limits.py", '        return linear_grid_scan(\n            data, model, scan, level, return_results, **hypotest_kwargs\n        )\n', '        obs_limit, exp_limit, *grid_results = linear_grid_scan(\n            data, model, scan, level, return_results, **hypotest_kwargs\n        )\n        if return_results:\n            (_, results) = grid_results[0]\n            return obs_limit, exp_limit, (scan, results)\n        return obs_limit, exp_limit\n'))
V("C09", "unique-grid-only", "silent", "", "grid de-duplicated inside the scan and reported as used",
  ("src/pyhf/infer/intervals/upper_limits.py", '    tb, _ = get_backend()\n    results = [\n        hypotest(mu, data, model, return_expected_set=True, **hypotest_kwargs)\n        for mu in scan\n', '    tb, _ = get_backend()\n    scan = tb.astensor(np.unique(tb.tolist(scan)))\n    results = [\n        hypotest(mu, data, model, return_expected_set=True, **hypotest_kwargs)\n        for mu in scan\n'))
V("C09", "callers-scan-only", "silent", "", "upper_limit hands back the caller's grid (the scan used it unchanged)",
  ("src/pyhf/infer/intervals/upper_limits.py", '        return linear_grid_scan(\n            data, model, scan, level, return_results, **hypotest_kwargs\n        )\n', '        obs_limit, exp_limit, *grid_results = linear_grid_scan(\n            data, model, scan, level, return_results, **hypotest_kwargs\n        )\n        if return_results:\n            (_, results) = grid_results[0]\n            return obs_limit, exp_limit, (scan, results)\n        return obs_limit, exp_limit\n'))
V("C09", "poi-rounded-in-evaluator", "fire", "C09.R6", "the cached evaluator rounds the POI to 8 decimals before testing it",
  ("src/pyhf/infer/intervals/upper_limits.py", '    def f_cached(poi):\n        if poi not in cache:', '    def f_cached(poi):\n        poi = round(float(poi), 8)\n        if poi not in cache:'))

# ------------------------------------------------------------------ C11
V("C11", "no-subscribe-normfactor", "fire", "C11.R1", "subscription removed",
  ("src/pyhf/modifiers/normfactor.py", "        self._precompute()\n        events.subscribe('tensorlib_changed')(self._precompute)", "        self._precompute()"))
V("C11", "tensor-in-init", "fire", "C11.R1", "tensor of the current backend computed once in __init__",
  ("src/pyhf/pdf.py", "        self.modifiers_appliers = modifiers\n", "        self.modifiers_appliers = modifiers\n        tensorlib, _ = get_backend()\n        self._clip_floor = tensorlib.astensor([0.0])\n"))
V("C11", "cache-in-apply", "fire", "C11.R1", "cached tensor created lazily in apply",
  ("src/pyhf/modifiers/lumi.py", "        lumis = self.param_viewer.get(pars)\n", "        lumis = self.param_viewer.get(pars)\n        self._last_ones = tensorlib.ones(self.lumi_mask.shape)\n"))
V("C11", "stale-read", "fire", "C11.R2", "refresh derives S from the previous backend's deltas (statement moved up)",
  ("src/pyhf/interpolators/code4p.py", "        tensorlib, _ = get_backend()\n        self.deltas_up = tensorlib.astensor(self._deltas_up)\n        self.deltas_dn = tensorlib.astensor(self._deltas_dn)\n\n        self.S = 0.5 * (self.deltas_up + self.deltas_dn)\n", "        tensorlib, _ = get_backend()\n        self.S = 0.5 * (self.deltas_up + self.deltas_dn)\n        self.deltas_up = tensorlib.astensor(self._deltas_up)\n        self.deltas_dn = tensorlib.astensor(self._deltas_dn)\n\n"))
V("C11", "subscribe-before-viewer", "fire", "C11.R3", "owner subscribed before its viewer exists",
  ("src/pyhf/modifiers/lumi.py", "        self.param_viewer = ParamViewer(parfield_shape, pdfconfig.par_map, lumi_mods)\n", "        events.subscribe('tensorlib_changed')(self._precompute)\n        self.param_viewer = ParamViewer(parfield_shape, pdfconfig.par_map, lumi_mods)\n"),
  ("src/pyhf/modifiers/lumi.py", "        self._precompute()\n        events.subscribe('tensorlib_changed')(self._precompute)", "        self._precompute()"))
V("C11", "trigger-before-swap", "fire", "C11.R4", "event fired before the state swap",
  ("src/pyhf/tensor/manager.py", "    # set new backend\n    this.state['current'] = (new_backend, new_optimizer)\n", "    # set new backend\n    if tensorlib_changed:\n        events.trigger(\"tensorlib_changed\")()\n    this.state['current'] = (new_backend, new_optimizer)\n"),
  ("src/pyhf/tensor/manager.py", "    # trigger events\n    if tensorlib_changed:\n        events.trigger(\"tensorlib_changed\")()\n    if optimizer_changed:", "    # trigger events\n    if optimizer_changed:"))
V("C11", "precision-dropped", "fire", "C11.R4", "precision not part of the change test",
  ("src/pyhf/tensor/manager.py", "    tensorlib_changed = bool(\n        (new_backend.name != this.state['current'][0].name)\n        | (new_backend.precision != this.state['current'][0].precision)\n    )", "    tensorlib_changed = bool(new_backend.name != this.state['current'][0].name)"))
V("C11", "strong-ref", "fire", "C11.R5", "callback registry keeps a strong reference to the receiver",
  ("src/pyhf/events.py", "            callback_ref = weakref.ref(callback.__func__), weakref.ref(\n                callback.__self__\n            )", "            callback_ref = weakref.ref(callback.__func__), (lambda o: (lambda: o))(\n                callback.__self__\n            )"))
V("C11", "no-liveness", "fire", "C11.R6", "bound callback called without liveness test",
  ("src/pyhf/events.py", "                arg_ref = arg()\n                if arg_ref is not None:\n                    func()(arg_ref, *args, **kwargs)", "                arg_ref = arg()\n                func()(arg_ref, *args, **kwargs)"))
V("C11", "dispatch-reversed", "fire", "C11.R6", "callbacks run newest first (a viewer is refreshed after its owner)",
  ("src/pyhf/events.py", "    def __call__(self, *args, **kwargs):\n        for func, arg in self._callbacks:", "    def __call__(self, *args, **kwargs):\n        for func, arg in reversed(self._callbacks):"))
V("C11", "disabled-ignored", "fire", "C11.R6", "trigger fires disabled events",
  ("src/pyhf/events.py", "is_noop = bool(event in __disabled_events or event not in __events)", "is_noop = bool(event not in __events)"))
V("C11", "remove-while-iterating", "fire", "C11.R6", "dead entries removed from the list being iterated: the next subscriber is skipped",
  ("src/pyhf/events.py", "                if arg_ref is not None:\n                    func()(arg_ref, *args, **kwargs)", "                if arg_ref is None:\n                    self._callbacks.remove((func, arg))\n                    continue\n                func()(arg_ref, *args, **kwargs)"))
V("C11", "kwargs-dropped-in-dispatch", "fire", "C11.R6", "keyword arguments of the trigger not handed to bound callbacks",
  ("src/pyhf/events.py", "                    func()(arg_ref, *args, **kwargs)", "                    func()(arg_ref, *args)"))
V("C11", "flush-first-no-check", "fire", "C11.R6", "flush before the loop instead of a liveness test inside: a receiver collected by an earlier callback is called",
  ("src/pyhf/events.py", "        for func, arg in self._callbacks:\n            # weakref: needs to be de-ref'd first before calling\n            if arg is not None:\n                arg_ref = arg()\n                if arg_ref is not None:\n                    func()(arg_ref, *args, **kwargs)", "        self._flush()\n        for func, arg in self._callbacks:\n            # weakref: needs to be de-ref'd first before calling\n            if arg is not None:\n                arg_ref = arg()\n                func()(arg_ref, *args, **kwargs)"))
V("C11", "dispatch-over-copy-lazy-flush", "silent", "", "dispatch iterates a copy and leaves flushing to the callbacks property",
  ("src/pyhf/events.py", "        for func, arg in self._callbacks:\n            # weakref: needs to be de-ref'd first before calling", "        for func, arg in list(self._callbacks):\n            # weakref: needs to be de-ref'd first before calling"),
  ("src/pyhf/events.py", "        # avoids redundant dead weakref checking in subsequent calls.\n        self._flush()\n", "        # avoids redundant dead weakref checking in subsequent calls.\n"))
V("C11", "weakmethod", "silent", "", "bound callbacks stored as weakref.WeakMethod",
  ("src/pyhf/events.py", "            callback_ref = weakref.ref(callback.__func__), weakref.ref(\n                callback.__self__\n            )", "            callback.__self__\n            callback_ref = weakref.WeakMethod(callback), None"),
  ("src/pyhf/events.py", "            else:\n                func()(*args, **kwargs)", "            else:\n                live = func()\n                if live is not None:\n                    live(*args, **kwargs)"))
V("C11", "jax-setup-x64-follows-precision", "fire", "C11.R7", "jax _setup switches x64 to follow the precision: set_backend runs it AFTER the refresh callbacks",
  ("src/pyhf/tensor/jax_backend.py", '        Run any global setups for the jax lib.\n        """\n', '        Run any global setups for the jax lib.\n        """\n        config.update(\'jax_enable_x64\', self.precision == \'64b\')\n'))
V("C11", "jax-setup-x64-constant", "silent", "", "jax _setup re-asserts x64 = True (what the import already did)",
  ("src/pyhf/tensor/jax_backend.py", '        Run any global setups for the jax lib.\n        """\n', '        Run any global setups for the jax lib.\n        """\n        config.update(\'jax_enable_x64\', True)\n'))
V("C11", "precision-compared-with-default", "fire", "C11.R7", "the change test compares the new precision with the DEFAULT backend's",
  ("src/pyhf/tensor/manager.py", "        | (new_backend.precision != this.state['current'][0].precision)\n    )\n    optimizer_changed", "        | (new_backend.precision != this.state['default'][0].precision)\n    )\n    optimizer_changed"))
V("C11", "setup-before-trigger", "silent", "", "the backend's _setup runs before the events are triggered",
  ("src/pyhf/tensor/manager.py", "    # trigger events\n    if tensorlib_changed:\n        events.trigger(\"tensorlib_changed\")()", "    new_backend._setup()\n    # trigger events\n    if tensorlib_changed:\n        events.trigger(\"tensorlib_changed\")()"))
V("C11", "rename-refresh", "silent", "", "refresh method renamed consistently",
  ("src/pyhf/modifiers/lumi.py", "        self._precompute()\n        events.subscribe('tensorlib_changed')(self._precompute)", "        self._refresh()\n        events.subscribe('tensorlib_changed')(self._refresh)"),
  ("src/pyhf/modifiers/lumi.py", "    def _precompute(self):", "    def _refresh(self):"))
V("C11", "extra-refreshed-attr", "silent", "", "new cached attribute that is refreshed",
  ("src/pyhf/modifiers/lumi.py", "        self.lumi_default = tensorlib.ones(self.lumi_mask.shape)", "        self.lumi_default = tensorlib.ones(self.lumi_mask.shape)\n        self.lumi_zero = tensorlib.zeros(self.lumi_mask.shape)"))

# ------------------------------------------------------------------ C17
PS = "src/pyhf/patchset.py"
V("C17", "no-dup-values-check", "fire", "C17.R2", "duplicate-values test removed",
  (PS, "            if patch.values in self._patches_by_key:\n                raise exceptions.InvalidPatchSet(\n                    f'Multiple patches were defined by values for {patch}.'\n                )\n", ""))
V("C17", "keyerror-leaks", "fire", "C17.R3", "KeyError no longer mapped",
  (PS, "        except KeyError:\n            raise exceptions.InvalidPatchLookup(", "        except IndexError:\n            raise exceptions.InvalidPatchLookup("))
V("C17", "verify-early-exit", "fire", "C17.R4", "verify stops after the first matching digest",
  (PS, "                    f\"The digest verification failed for hash algorithm '{hash_alg}'. Expected: {digest}. Got: {digest_calc}\"\n                )\n", "                    f\"The digest verification failed for hash algorithm '{hash_alg}'. Expected: {digest}. Got: {digest_calc}\"\n                )\n            return\n"))
V("C17", "no-sort-keys", "fire", "C17.R4", "digest depends on key order",
  ("src/pyhf/utils.py", "json.dumps(obj, sort_keys=True, ensure_ascii=False)", "json.dumps(obj, ensure_ascii=False)"))
V("C17", "apply-before-verify", "fire", "C17.R5", "patch applied without verification",
  (PS, "        self.verify(spec)\n        return Workspace(self[key].apply(spec))", "        return Workspace(self[key].apply(spec))"))
V("C17", "apply-in-place", "fire", "C17.R5", "patch applied in place",
  (PS, "return Workspace(self[key].apply(spec))", "return Workspace(self[key].apply(spec, in_place=True))"))
V("C17", "list-not-converted", "fire", "C17.R3", "list keys not converted",
  (PS, "        if isinstance(key, list):\n            key = tuple(key)\n", ""))

# ------------------------------------------------------------------ C19
V("C19", "cls-teststat-dropped", "fire", "C19.R1", "--test-stat not passed to hypotest",
  ("src/pyhf/cli/infer.py", "        test_stat=test_stat,\n        calctype=calctype,", "        calctype=calctype,"))
V("C19", "fit-measurement-dropped", "fire", "C19.R1", "--measurement not passed to Workspace.model in fit",
  ("src/pyhf/cli/infer.py", "    model = ws.model(\n        measurement_name=measurement,\n        patches=patches,\n    )\n    data = ws.data(model)", "    model = ws.model(\n        patches=patches,\n    )\n    data = ws.data(model)"))
V("C19", "combine-swapped", "fire", "C19.R1", "combine passes the workspaces swapped",
  ("src/pyhf/cli/spec.py", "ws_one, ws_two, join=join, merge_channels=merge_channels", "ws_two, ws_one, join=join, merge_channels=merge_channels"))
V("C19", "prune-sample-as-channel", "fire", "C19.R1", "prune passes samples as channels",
  ("src/pyhf/cli/spec.py", "        channels=channel,\n        samples=sample,\n        modifiers=modifier,\n        modifier_types=modifier_type,", "        channels=sample,\n        samples=channel,\n        modifiers=modifier,\n        modifier_types=modifier_type,"))
V("C19", "file-arm-unsorted", "fire", "C19.R2", "file output not sorted",
  ("src/pyhf/cli/spec.py", "            json.dump(sorted_ws, out_file, indent=4, sort_keys=True)", "            json.dump(sorted_ws, out_file, indent=4)"))
V("C19", "file-arm-other-object", "fire", "C19.R2", "file arm writes the input instead of the result",
  ("src/pyhf/cli/spec.py", "            json.dump(pruned_ws, out_file, indent=4, sort_keys=True)", "            json.dump(ws, out_file, indent=4, sort_keys=True)"))
V("C19", "unregistered", "fire", "C19.R3", "subcommand not registered",
  ("src/pyhf/cli/cli.py", "pyhf.add_command(spec.digest)\n", ""))
V("C19", "xml2json-basedir", "fire", "C19.R1", "--basedir ignored",
  ("src/pyhf/cli/rootio.py", "        entrypoint_xml,\n        basedir,\n        mounts=mount,", "        entrypoint_xml,\n        Path.cwd(),\n        mounts=mount,"))
V("C19", "fit-optimizer-skip-if-active", "fire", "C19.R4", "fit keeps the active optimizer when its name matches (settings of an earlier invocation survive)",
  ("src/pyhf/cli/infer.py", "    elif backend in [\"jax\"]:\n        set_backend(\"jax\")\n    tensorlib, _ = get_backend()\n", "    elif backend in [\"jax\"]:\n        set_backend(\"jax\")\n    tensorlib, active_optimizer = get_backend()\n"),
  ("src/pyhf/cli/infer.py", "    # set the new optimizer\n    if optimizer:\n        new_optimizer = getattr(optimize, optimizer) or getattr(\n            optimize, f\"{optimizer}_optimizer\"", "    # set the new optimizer\n    if optimizer != active_optimizer.name or optconf:\n        new_optimizer = getattr(optimize, optimizer) or getattr(\n            optimize, f\"{optimizer}_optimizer\""))
V("C19", "cls-optimizer-default-none", "fire", "C19.R4", "cls --optimizer defaults to None: --optconf alone is parsed and dropped",
  ("src/pyhf/cli/infer.py", "    help=\"The optimizer used for the calculation.\",\n    default=\"scipy\",\n)\n@click.option('--optconf', type=EqDelimStringParamType(), multiple=True)\ndef cls(", "    help=\"The optimizer used for the calculation.\",\n    default=None,\n)\n@click.option('--optconf', type=EqDelimStringParamType(), multiple=True)\ndef cls("))
V("C19", "cls-optconf-last-only", "fire", "C19.R4", "only the last --optconf item is used",
  ("src/pyhf/cli/infer.py", "    optconf = {\n        opt_name: opt_value for item in optconf for opt_name, opt_value in item.items()\n    }\n\n    # set the new optimizer\n    if optimizer:\n        new_optimizer = getattr(optimize, optimizer) or getattr(\n            optimize, f'{optimizer}_optimizer'", "    optconf = dict(optconf[-1]) if optconf else {}\n\n    # set the new optimizer\n    if optimizer:\n        new_optimizer = getattr(optimize, optimizer) or getattr(\n            optimize, f'{optimizer}_optimizer'"))
V("C19", "fit-tf-alias-to-torch", "fire", "C19.R4", "--backend tf selects pytorch",
  ("src/pyhf/cli/infer.py", "    if backend in [\"pytorch\", \"torch\"]:\n        set_backend(\"pytorch\", precision=\"64b\")\n    elif backend in [\"tensorflow\", \"tf\"]:", "    if backend in [\"pytorch\", \"torch\", \"tf\"]:\n        set_backend(\"pytorch\", precision=\"64b\")\n    elif backend in [\"tensorflow\"]:"))
V("C19", "inspect-types-from-dict", "fire", "C19.R4", "inspect takes the modifier type of a parameter from a name->type dict (one type per name)",
  ("src/pyhf/cli/spec.py", "        (\n            parameter[0],\n            parameter[1],\n            [modifier[1] for modifier in ws.modifiers if modifier[0] == parameter[0]],\n        )", "        (parameter[0], parameter[1], [result['modifiers'][parameter[0]]])"))
V("C19", "inspect-default-measurement-marker", "fire", "C19.R4", "inspect marks the first measurement whatever --measurement says",
  ("src/pyhf/cli/spec.py", "    default_measurement = ws.get_measurement(measurement_name=measurement)", "    default_measurement = ws.get_measurement()"))
V("C19", "fit-optconf-merge-loop", "silent", "", "--optconf items merged by an explicit loop",
  ("src/pyhf/cli/infer.py", "    optconf = {\n        opt_name: opt_value for item in optconf for opt_name, opt_value in item.items()\n    }\n\n    # set the new optimizer\n    if optimizer:\n        new_optimizer = getattr(optimize, optimizer) or getattr(\n            optimize, f\"{optimizer}_optimizer\"", "    merged = {}\n    for item in optconf:\n        merged.update(item)\n    optconf = merged\n\n    # set the new optimizer\n    if optimizer:\n        new_optimizer = getattr(optimize, optimizer) or getattr(\n            optimize, f\"{optimizer}_optimizer\""))
V("C19", "fit-numpy-explicit", "silent", "", "fit also switches to numpy explicitly",
  ("src/pyhf/cli/infer.py", "    elif backend in [\"jax\"]:\n        set_backend(\"jax\")\n    tensorlib, _ = get_backend()", "    elif backend in [\"jax\"]:\n        set_backend(\"jax\")\n    else:\n        set_backend(\"numpy\")\n    tensorlib, _ = get_backend()"))
V("C19", "inspect-types-deduplicated", "silent", "", "inspect collects the modifier types of a parameter through a name -> set table",
  ("src/pyhf/cli/spec.py", "    result['systematics'] = [\n        (\n            parameter[0],\n            parameter[1],\n            [modifier[1] for modifier in ws.modifiers if modifier[0] == parameter[0]],\n        )", "    types_of = {}\n    for modname, modtype in ws.modifiers:\n        types_of.setdefault(modname, []).append(modtype)\n    result['systematics'] = [\n        (\n            parameter[0],\n            parameter[1],\n            sorted(set(types_of.get(parameter[0], []))),\n        )"))

# ------------------------------------------------------------------ C06
TS = "src/pyhf/infer/test_statistics.py"
V("C06", "qmu-comparator", "fire", "C06.R4", "one-sided comparator reversed",
  (TS, "muhatbhat[pdf.config.poi_index] > mu, tensorlib.astensor(0.0), tmu_like_stat", "muhatbhat[pdf.config.poi_index] < mu, tensorlib.astensor(0.0), tmu_like_stat"))
V("C06", "q0-comparator", "fire", "C06.R4", "discovery comparator reversed",
  (TS, "muhatbhat[pdf.config.poi_index] < 0, tensorlib.astensor(0.0), tmu_like_stat", "muhatbhat[pdf.config.poi_index] > 0, tensorlib.astensor(0.0), tmu_like_stat"))
V("C06", "difference-reversed", "fire", "C06.R3", "likelihood ratio reversed",
  (TS, "fixed_poi_fit_lhood_val - unconstrained_fit_lhood_val", "unconstrained_fit_lhood_val - fixed_poi_fit_lhood_val"))
V("C06", "clip-removed", "fire", "C06.R3", "clip at zero removed",
  (TS, "tensorlib.clip(log_likelihood_ratio, 0.0, max_value=None)", "log_likelihood_ratio"))
V("C06", "q0-mu-kept", "fire", "C06.R5", "q0 keeps the caller's mu",
  (TS, "        mu = 0.0\n", "        pass\n"))
V("C06", "tmu-uses-qmu", "fire", "C06.R2", "two-sided statistic computed by the one-sided helper",
  (TS, "    return _tmu_like(\n        mu,\n        data,\n        pdf,\n        init_pars,\n        par_bounds,\n        fixed_params,\n        return_fitted_pars=return_fitted_pars,\n    )\n\n\ndef tmu_tilde(", "    return _qmu_like(\n        mu,\n        data,\n        pdf,\n        init_pars,\n        par_bounds,\n        fixed_params,\n        return_fitted_pars=return_fitted_pars,\n    )\n\n\ndef tmu_tilde("))
V("C06", "mapping-swapped", "fire", "C06.R1", "q and qtilde swapped in the table",
  ("src/pyhf/infer/utils.py", '        "q": qmu,\n        "qtilde": qmu_tilde,', '        "q": qmu_tilde,\n        "qtilde": qmu,'))
V("C06", "pars-swapped", "fire", "C06.R6", "fitted parameter pair swapped",
  (TS, "    if return_fitted_pars:\n        return tmu_like_stat, (mubhathat, muhatbhat)\n    return tmu_like_stat", "    if return_fitted_pars:\n        return tmu_like_stat, (muhatbhat, mubhathat)\n    return tmu_like_stat"))
V("C06", "fit-bounds-dropped", "fire", "C06.R3", "free fit loses the bounds",
  (TS, "        data, pdf, init_pars, par_bounds, fixed_params, return_fitted_val=True\n    )\n    log_likelihood_ratio", "        data, pdf, init_pars, None, fixed_params, return_fitted_val=True\n    )\n    log_likelihood_ratio"))
V("C06", "ge-comparator", "silent", "", ">= instead of > at the continuous boundary",
  (TS, "muhatbhat[pdf.config.poi_index] > mu, tensorlib.astensor(0.0), tmu_like_stat", "muhatbhat[pdf.config.poi_index] >= mu, tensorlib.astensor(0.0), tmu_like_stat"))
V("C06", "temp-variable", "silent", "", "introduce a temporary",
  (TS, "    log_likelihood_ratio = fixed_poi_fit_lhood_val - unconstrained_fit_lhood_val\n", "    twice_delta = fixed_poi_fit_lhood_val - unconstrained_fit_lhood_val\n    log_likelihood_ratio = twice_delta\n"))

# ------------------------------------------------------------------ C03
IC = "src/pyhf/interpolators/"
V("C03", "code0-arms-swapped", "fire", "C03.R5", "code0 up/down arms swapped",
  (IC + "code0.py", "return tensorlib.where(masks, alphas_times_deltas_up, alphas_times_deltas_dn)", "return tensorlib.where(masks, alphas_times_deltas_dn, alphas_times_deltas_up)"))
V("C03", "code1-threshold", "fire", "C03.R2", "code1 threshold typo",
  (IC + "code1.py", "            alphasets > 0, self.mask_on, self.mask_off", "            alphasets > 1, self.mask_on, self.mask_off"))
V("C03", "code4p-coefficient", "fire", "C03.R5", "code4p coefficient typo (fast only)",
  (IC + "code4p.py", "        tmp1 = asquare * 3.0 - 10.0", "        tmp1 = asquare * 3.0 - 12.0"))
V("C03", "code4p-both-coefficient", "fire", "C03.R5", "code4p 0.0625 typo in fast and slow (tests compare them with each other)",
  (IC + "code4p.py", "        self.A = 0.0625 * (self.deltas_up - self.deltas_dn)", "        self.A = 0.0652 * (self.deltas_up - self.deltas_dn)"),
  (IC + "code4p.py", "        A = 0.0625 * (delta_up - delta_down)", "        A = 0.0652 * (delta_up - delta_down)"))
V("C03", "code4-matrix-entry", "fire", "C03.R4", "one entry of the fast A_inverse literal wrong",
  (IC + "code4.py", "                    -9.0 / (16 * alpha0),\n                    9.0 / (16 * alpha0),\n                    1.0 / 16,\n                    1.0 / 16,\n                ],\n                [\n                    -5.0 / (8 * math.pow(alpha0, 3)),", "                    -9.0 / (16 * alpha0),\n                    9.0 / (16 * alpha0),\n                    1.0 / 16,\n                    1.0 / 18,\n                ],\n                [\n                    -5.0 / (8 * math.pow(alpha0, 3)),"))
V("C03", "code4-rhs-sign", "fire", "C03.R4", "sign of one rhs entry of code4 wrong in the slow twin",
  (IC + "code4.py", "                -math.log(delta_down) * delta_down_alpha0,", "                math.log(delta_down) * delta_down_alpha0,"))
V("C03", "code1-cache-not-refreshed", "fire", "C03.R1", "bases_up not refreshed on shape change",
  (IC + "code1.py", "        self.alphasets_shape = alphasets_shape\n        self.bases_up = tensorlib.einsum(\n            'sa,shb->shab', tensorlib.ones(self.alphasets_shape), self.deltas_up\n        )\n", "        self.alphasets_shape = alphasets_shape\n"))
V("C03", "guard-one-dim", "fire", "C03.R1", "early return compares one dimension only",
  (IC + "code0.py", "        if alphasets_shape == self.alphasets_shape:\n            return", "        if alphasets_shape[0] == self.alphasets_shape[0]:\n            return"))
V("C03", "mask-swapped", "fire", "C03.R5", "mask_on/mask_off swapped in code4p",
  (IC + "code4p.py", "            alphasets > 1, self.mask_on, self.mask_off", "            alphasets > 1, self.mask_off, self.mask_on"))
V("C03", "get-table-swapped", "fire", "C03.R6", "get() pairs code2 with the code4p reference",
  (IC + "__init__.py", "2: code2 if do_tensorized_calc else _slow_code2,", "2: code2 if do_tensorized_calc else _slow_code4p,"))
V("C03", "ge-threshold", "silent", "", "> replaced by >= at a continuous threshold (code4p)",
  (IC + "code4p.py", "            alphasets > 1, self.mask_on, self.mask_off", "            alphasets >= 1, self.mask_on, self.mask_off"))
V("C03", "horner-to-expanded", "silent", "", "code4p Horner form expanded",
  (IC + "code4p.py", "        tmp1 = asquare * 3.0 - 10.0\n        tmp2 = asquare * tmp1 + 15.0\n        tmp3 = asquare * tmp2", "        tmp3 = 3.0 * asquare * asquare * asquare - 10.0 * asquare * asquare + 15.0 * asquare"))
V("C03", "slow-rename", "silent", "", "slow code0 locals renamed",
  (IC + "code0.py", "        delta_up = up - nom\n        delta_down = nom - down\n        if alpha > 0:\n            delta = delta_up * alpha\n        else:\n            delta = delta_down * alpha", "        du = up - nom\n        dd = nom - down\n        if alpha > 0:\n            delta = alpha * du\n        else:\n            delta = alpha * dd"))

# ------------------------------------------------------------------ C07
CA = "src/pyhf/infer/calculators.py"
V("C07", "two-a-dropped", "fire", "C07.R1", "/(2 sqrt qA) -> /(sqrt qA)",
  (CA, "teststat = (qmu - qmu_A) / (2 * self.sqrtqmuA_v)", "teststat = (qmu - qmu_A) / (self.sqrtqmuA_v)"))
V("C07", "shift-sign", "fire", "C07.R1", "s+b distribution shifted the wrong way",
  (CA, "sb_dist = AsymptoticTestStatDistribution(-self.sqrtqmuA_v, cutoff)", "sb_dist = AsymptoticTestStatDistribution(self.sqrtqmuA_v, cutoff)"))
V("C07", "complement", "fire", "C07.R3", "p-value as 1 - cdf",
  (CA, "return_value = tensorlib.normal_cdf(-(value - self.shift))", "return_value = 1 - tensorlib.normal_cdf(value - self.shift)"))
V("C07", "cutoff-one-side", "fire", "C07.R4", "clipped cutoff missing on the b-only distribution",
  (CA, "b_dist = AsymptoticTestStatDistribution(0.0, cutoff)", "b_dist = AsymptoticTestStatDistribution(0.0)"))
V("C07", "band-reordered", "fire", "C07.R5", "band evaluated in ascending order",
  (CA, "for n_sigma in [2, 1, 0, -1, -2]", "for n_sigma in [-2, -1, 0, 1, 2]"))
V("C07", "branches-swapped", "fire", "C07.R2", "qtilde branches swapped",
  (CA, "(sqrtqmu_v <= self.sqrtqmuA_v), _true_case, _false_case", "(sqrtqmu_v <= self.sqrtqmuA_v), _false_case, _true_case"))
V("C07", "cls-product", "fire", "C07.R1", "CLs computed as product",
  (CA, "        CLs = tensorlib.astensor(CLsb / CLb)\n        return CLsb, CLb, CLs\n\n    def expected_pvalues(self, sig_plus_bkg_distribution, bkg_only_distribution):\n        r\"\"\"\n        Calculate the :math:`\\mathrm{CL}_{s}` values corresponding to the\n        median significance of variations of the signal strength from the\n        background only hypothesis :math:`\\left(\\mu=0\\right)` at\n        :math:`(-2,-1,0,1,2)\\sigma`.\n\n        Example:\n\n            >>> import pyhf\n            >>> pyhf.set_backend(\"numpy\")\n            >>> model = pyhf.simplemodels.uncorrelated_background(", "        CLs = tensorlib.astensor(CLsb * CLb)\n        return CLsb, CLb, CLs\n\n    def expected_pvalues(self, sig_plus_bkg_distribution, bkg_only_distribution):\n        r\"\"\"\n        Calculate the :math:`\\mathrm{CL}_{s}` values corresponding to the\n        median significance of variations of the signal strength from the\n        background only hypothesis :math:`\\left(\\mu=0\\right)` at\n        :math:`(-2,-1,0,1,2)\\sigma`.\n\n        Example:\n\n            >>> import pyhf\n            >>> pyhf.set_backend(\"numpy\")\n            >>> model = pyhf.simplemodels.uncorrelated_background("))
V("C07", "precondition-removed", "fire", "C07.R6", "distributions no longer checks teststatistic ran",
  (CA, "        if self.sqrtqmuA_v is None:\n            raise RuntimeError(\"need to call .teststatistic(poi_test) first\")\n", ""))
V("C07", "lt-at-seam", "silent", "", "<= -> < at the continuous seam",
  (CA, "(sqrtqmu_v <= self.sqrtqmuA_v), _true_case, _false_case", "(sqrtqmu_v < self.sqrtqmuA_v), _true_case, _false_case"))
V("C07", "algebraic-rewrite", "silent", "", "false case rewritten as 0.5*(q/a - a)",
  (CA, "teststat = (qmu - qmu_A) / (2 * self.sqrtqmuA_v)", "teststat = 0.5 * (qmu / self.sqrtqmuA_v - self.sqrtqmuA_v)"))
V("C07", "band-clb-by-construction", "fire", "C07.R5", "explicit loop over the band with CLb taken as Phi(-N): wrong where the clipped distribution clips",
  (CA, '        # Calling pvalues is easier then repeating the CLs calculation here\n        tb, _ = get_backend()\n        return list(\n            map(\n                list,\n                zip(\n                    *(\n                        self.pvalues(\n                            test_stat, sig_plus_bkg_distribution, bkg_only_distribution\n                        )\n                        for test_stat in [\n                            bkg_only_distribution.expected_value(n_sigma)\n                            for n_sigma in [2, 1, 0, -1, -2]\n                        ]\n                    )\n                ),\n            )\n        )\n', '        tb, _ = get_backend()\n        CLsb_exp, CLb_exp, CLs_exp = [], [], []\n        for n_sigma in [2, 1, 0, -1, -2]:\n            test_stat = bkg_only_distribution.expected_value(n_sigma)\n            CLsb = sig_plus_bkg_distribution.pvalue(test_stat)\n            CLb = tb.astensor(tb.normal_cdf(tb.astensor(-n_sigma)))\n            CLsb_exp.append(CLsb)\n            CLb_exp.append(CLb)\n            CLs_exp.append(tb.astensor(CLsb / CLb))\n        return [CLsb_exp, CLb_exp, CLs_exp]\n'))
V("C07", "band-explicit-loop", "silent", "", "the band as an explicit loop with both tails from the distributions",
  (CA, '        # Calling pvalues is easier then repeating the CLs calculation here\n        tb, _ = get_backend()\n        return list(\n            map(\n                list,\n                zip(\n                    *(\n                        self.pvalues(\n                            test_stat, sig_plus_bkg_distribution, bkg_only_distribution\n                        )\n                        for test_stat in [\n                            bkg_only_distribution.expected_value(n_sigma)\n                            for n_sigma in [2, 1, 0, -1, -2]\n                        ]\n                    )\n                ),\n            )\n        )\n', '        tb, _ = get_backend()\n        CLsb_exp, CLb_exp, CLs_exp = [], [], []\n        for n_sigma in [2, 1, 0, -1, -2]:\n            test_stat = bkg_only_distribution.expected_value(n_sigma)\n            CLsb = sig_plus_bkg_distribution.pvalue(test_stat)\n            CLb = bkg_only_distribution.pvalue(test_stat)\n            CLsb_exp.append(CLsb)\n            CLb_exp.append(CLb)\n            CLs_exp.append(tb.astensor(CLsb / CLb))\n        return [CLsb_exp, CLb_exp, CLs_exp]\n'))
V("C07", "branch-by-muhat", "fire", "C07.R1", "qtilde branch chosen by the sign of the fitted POI instead of q vs qA",
  (CA, "(sqrtqmu_v <= self.sqrtqmuA_v), _true_case, _false_case", "(muhatbhat[self.pdf.config.poi_index] > 0), _true_case, _false_case"))
V("C04", "numpy-cdf-erfc-int-reciprocal", "fire", "C04.R8", "numpy normal_cdf ported to the erfc form with np.reciprocal(sigma): integer sigma truncates to 0",
  ("src/pyhf/tensor/numpy_backend.py", "        return norm.cdf(x, loc=mu, scale=sigma)  # type: ignore[no-any-return]", "        z = np.subtract(x, mu) * np.reciprocal(sigma)\n        return 0.5 * special.erfc(-z / np.sqrt(2))  # type: ignore[no-any-return]"))
V("C04", "numpy-cdf-erfc-true-division", "silent", "", "numpy normal_cdf in the erfc form with a true division",
  ("src/pyhf/tensor/numpy_backend.py", "        return norm.cdf(x, loc=mu, scale=sigma)  # type: ignore[no-any-return]", "        z = np.subtract(x, mu) / sigma\n        return 0.5 * special.erfc(-z / np.sqrt(2))  # type: ignore[no-any-return]"))
V("C01", "shared-default-settings", "fire", "C01.R14", "default modifier settings are one module-level dict handed to every configuration",
  ("src/pyhf/pdf.py", '__all__ = ["Model", "_ModelConfig"]\n', '__all__ = ["Model", "_ModelConfig"]\n\n_DEFAULT_MODIFIER_SETTINGS = {\n    \'normsys\': {\'interpcode\': \'code4\'},\n    \'histosys\': {\'interpcode\': \'code4p\'},\n}\n'),
  ("src/pyhf/pdf.py", "        default_modifier_settings = {\n            'normsys': {'interpcode': 'code4'},\n            'histosys': {'interpcode': 'code4p'},\n        }\n\n        self.modifier_settings = config_kwargs.pop(\n            'modifier_settings', default_modifier_settings\n        )\n", "        self.modifier_settings = config_kwargs.pop(\n            'modifier_settings', _DEFAULT_MODIFIER_SETTINGS\n        )\n"))
V("C01", "module-default-settings-copied", "silent", "", "module-level default modifier settings, deep-copied per configuration",
  ("src/pyhf/pdf.py", '__all__ = ["Model", "_ModelConfig"]\n', '__all__ = ["Model", "_ModelConfig"]\n\n_DEFAULT_MODIFIER_SETTINGS = {\n    \'normsys\': {\'interpcode\': \'code4\'},\n    \'histosys\': {\'interpcode\': \'code4p\'},\n}\n'),
  ("src/pyhf/pdf.py", "        default_modifier_settings = {\n            'normsys': {'interpcode': 'code4'},\n            'histosys': {'interpcode': 'code4p'},\n        }\n\n        self.modifier_settings = config_kwargs.pop(\n            'modifier_settings', default_modifier_settings\n        )\n", "        self.modifier_settings = config_kwargs.pop('modifier_settings', None)\n        if self.modifier_settings is None:\n            self.modifier_settings = copy.deepcopy(_DEFAULT_MODIFIER_SETTINGS)\n"))
V("C01", "clip-floors-swapped", "fire", "C01.R12", "clipping options packed as (sample, bin) by Model and unpacked as (bin, sample) by the main model",
  ("src/pyhf/pdf.py", '        clip_sample_data: Union[float, None] = None,\n        clip_bin_data: Union[float, None] = None,\n    ):\n        default_backend = pyhf.default_backend\n', '        clip_floors=(None, None),\n    ):\n        default_backend = pyhf.default_backend\n'), ("src/pyhf/pdf.py", '        self.clip_sample_data = clip_sample_data\n        self.clip_bin_data = clip_bin_data\n', '        self.clip_bin_data, self.clip_sample_data = clip_floors\n'), ("src/pyhf/pdf.py", '            batch_size=self.batch_size,\n            clip_sample_data=clip_sample_data,\n            clip_bin_data=clip_bin_data,\n        )\n', '            batch_size=self.batch_size,\n            clip_floors=(clip_sample_data, clip_bin_data),\n        )\n'))
V("C01", "clip-floors-tuple", "silent", "", "clipping options travel as one tuple, packed and unpacked in the same order",
  ("src/pyhf/pdf.py", '        clip_sample_data: Union[float, None] = None,\n        clip_bin_data: Union[float, None] = None,\n    ):\n        default_backend = pyhf.default_backend\n', '        clip_floors=(None, None),\n    ):\n        default_backend = pyhf.default_backend\n'), ("src/pyhf/pdf.py", '        self.clip_sample_data = clip_sample_data\n        self.clip_bin_data = clip_bin_data\n', '        self.clip_sample_data, self.clip_bin_data = clip_floors\n'), ("src/pyhf/pdf.py", '            batch_size=self.batch_size,\n            clip_sample_data=clip_sample_data,\n            clip_bin_data=clip_bin_data,\n        )\n', '            batch_size=self.batch_size,\n            clip_floors=(clip_sample_data, clip_bin_data),\n        )\n'))
V("C18", "normfactor-settings-helper", "silent", "", "normfactor settings looked up through a helper rebuilt on every call",
  ("src/pyhf/writexml.py", "        val = 1\n        low = 0\n        high = 10\n        for p in spec['measurements'][0]['config']['parameters']:\n            if p['name'] == modifierspec['name']:\n                val = p.get('inits', [val])[0]\n                low, high = p.get('bounds', [[low, high]])[0]\n", "        val, (low, high) = _normfactor_settings(spec).get(\n            modifierspec['name'], (1, (0, 10))\n        )\n"), ("src/pyhf/writexml.py", 'def _export_root_histogram(hist_name, data):\n', "def _normfactor_settings(spec):\n    settings = {}\n    for p in spec['measurements'][0]['config']['parameters']:\n        val, (low, high) = settings.get(p['name'], (1, (0, 10)))\n        settings[p['name']] = (\n            p.get('inits', [val])[0],\n            tuple(p.get('bounds', [[low, high]])[0]),\n        )\n    return settings\n\n\ndef _export_root_histogram(hist_name, data):\n"))
V("C18", "shapesys-vectorised-own-copy", "silent", "", "shapesys relative uncertainty vectorised on its own copy of the nominal data (sample array shared by the callers)",
  ("src/pyhf/writexml.py", '        _export_root_histogram(\n            attrs[\'HistoName\'],\n            [\n                np.divide(\n                    a, b, out=np.zeros_like(a), where=np.asarray(b) != 0, dtype=\'float\'\n                )\n                for a, b in np.array(\n                    (modifierspec[\'data\'], sampledata), dtype="float"\n                ).T\n            ],\n        )\n    elif modifierspec[\'type\'] == \'shapefactor\':', "        nominal = np.array(sampledata, dtype='float')\n        empty = nominal == 0\n        nominal[empty] = 1.0\n        relative = np.asarray(modifierspec['data'], dtype='float') / nominal\n        relative[empty] = 0.0\n        _export_root_histogram(attrs['HistoName'], relative.tolist())\n    elif modifierspec['type'] == 'shapefactor':"), ("src/pyhf/writexml.py", "    sample = ET.Element('Sample', **attrs)\n    for modspec in samplespec['modifiers']:", "    sample = ET.Element('Sample', **attrs)\n    sampledata = np.asarray(samplespec['data'], dtype='float')\n    for modspec in samplespec['modifiers']:"), ("src/pyhf/writexml.py", "            spec, modspec, channelname, samplespec['name'], samplespec['data']\n        )\n        if modifier is not None:\n            sample.append(modifier)\n    _export_root_histogram(histname, samplespec['data'])", "            spec, modspec, channelname, samplespec['name'], sampledata\n        )\n        if modifier is not None:\n            sample.append(modifier)\n    _export_root_histogram(histname, sampledata)"))
V("C18", "shapesys-vectorised-aliased", "fire", "C18.R5", "shapesys conversion edits the array that build_sample writes afterwards: empty bins come back as 1.0",
  ("src/pyhf/writexml.py", '        _export_root_histogram(\n            attrs[\'HistoName\'],\n            [\n                np.divide(\n                    a, b, out=np.zeros_like(a), where=np.asarray(b) != 0, dtype=\'float\'\n                )\n                for a, b in np.array(\n                    (modifierspec[\'data\'], sampledata), dtype="float"\n                ).T\n            ],\n        )\n    elif modifierspec[\'type\'] == \'shapefactor\':', "        nominal = np.asarray(sampledata, dtype='float')\n        empty = nominal == 0\n        nominal[empty] = 1.0\n        relative = np.asarray(modifierspec['data'], dtype='float') / nominal\n        relative[empty] = 0.0\n        _export_root_histogram(attrs['HistoName'], relative.tolist())\n    elif modifierspec['type'] == 'shapefactor':"), ("src/pyhf/writexml.py", "    sample = ET.Element('Sample', **attrs)\n    for modspec in samplespec['modifiers']:", "    sample = ET.Element('Sample', **attrs)\n    sampledata = np.asarray(samplespec['data'], dtype='float')\n    for modspec in samplespec['modifiers']:"), ("src/pyhf/writexml.py", "            spec, modspec, channelname, samplespec['name'], samplespec['data']\n        )\n        if modifier is not None:\n            sample.append(modifier)\n    _export_root_histogram(histname, samplespec['data'])", "            spec, modspec, channelname, samplespec['name'], sampledata\n        )\n        if modifier is not None:\n            sample.append(modifier)\n    _export_root_histogram(histname, sampledata)"))
V("C13", "torch-memo-aliases-buffer", "fire", "C13.R5", "torch shim remembers the last point by reference (detach shares storage with the caller's buffer)",
  ("src/pyhf/optimize/opt_pytorch.py", '    if do_grad:\n\n        def func(pars):\n            pars = tensorlib.astensor(pars)\n            pars.requires_grad = True\n', "    if do_grad:\n        last = {'pars': None, 'result': None}\n\n        def func(pars):\n            pars = tensorlib.astensor(pars)\n            if last['pars'] is not None and torch.equal(pars, last['pars']):\n                return last['result']\n            pars.requires_grad = True\n"), ("src/pyhf/optimize/opt_pytorch.py", '            return constr_nll.detach().numpy()[0], grad\n', "            last['pars'] = pars.detach()\n            last['result'] = (constr_nll.detach().numpy()[0], grad)\n            return last['result']\n"))
V("C13", "torch-memo-private-copy", "silent", "", "torch shim remembers the last point as a private copy",
  ("src/pyhf/optimize/opt_pytorch.py", '    if do_grad:\n\n        def func(pars):\n            pars = tensorlib.astensor(pars)\n            pars.requires_grad = True\n', "    if do_grad:\n        last = {'pars': None, 'result': None}\n\n        def func(pars):\n            pars = tensorlib.astensor(pars)\n            if last['pars'] is not None and torch.equal(pars, last['pars']):\n                return last['result']\n            pars.requires_grad = True\n"), ("src/pyhf/optimize/opt_pytorch.py", '            return constr_nll.detach().numpy()[0], grad\n', "            last['pars'] = pars.detach().clone()\n            last['result'] = (constr_nll.detach().numpy()[0], grad)\n            return last['result']\n"))
V("C01", "histosys-builder-class-level-data", "fire", "C01.R11", "histosys builder collects into ONE class-level dict: a later model sees the earlier model's modifier data",
  ("src/pyhf/modifiers/histosys.py", "    is_shared = True\n\n    def __init__(self, config):\n        self.builder_data = {}", "    is_shared = True\n    _collected = {}\n\n    def __init__(self, config):\n        self.builder_data = histosys_builder._collected"))
V("C06", "free-fit-memo-by-identity", "fire", "C06.R7", "the unconstrained fit is remembered per data OBJECT: a list refilled in place is served the previous fit",
  ("src/pyhf/infer/test_statistics.py", 'def __dir__():\n    return __all__\n', 'def __dir__():\n    return __all__\n\n\n_FREE_FITS = {}\n'), ("src/pyhf/infer/test_statistics.py", '    muhatbhat, unconstrained_fit_lhood_val = fit(\n        data, pdf, init_pars, par_bounds, fixed_params, return_fitted_val=True\n    )\n    log_likelihood_ratio = fixed_poi_fit_lhood_val - unconstrained_fit_lhood_val\n', '    if id(data) not in _FREE_FITS:\n        _FREE_FITS[id(data)] = fit(\n            data, pdf, init_pars, par_bounds, fixed_params, return_fitted_val=True\n        )\n    muhatbhat, unconstrained_fit_lhood_val = _FREE_FITS[id(data)]\n    log_likelihood_ratio = fixed_poi_fit_lhood_val - unconstrained_fit_lhood_val\n'))
V("C06", "free-fit-temp", "silent", "", "free fit result unpacked through a temporary",
  ("src/pyhf/infer/test_statistics.py", '    muhatbhat, unconstrained_fit_lhood_val = fit(\n        data, pdf, init_pars, par_bounds, fixed_params, return_fitted_val=True\n    )\n    log_likelihood_ratio = fixed_poi_fit_lhood_val - unconstrained_fit_lhood_val\n', '    free_fit = fit(\n        data, pdf, init_pars, par_bounds, fixed_params, return_fitted_val=True\n    )\n    muhatbhat, unconstrained_fit_lhood_val = free_fit\n    log_likelihood_ratio = fixed_poi_fit_lhood_val - unconstrained_fit_lhood_val\n'))
V("C17", "duplicate-test-by-get-is-not-none", "silent", "", "duplicate name detected through dict.get(...) is not None",
  ("src/pyhf/patchset.py", "            if patch.name in self._patches_by_key:\n                raise exceptions.InvalidPatchSet(\n                    f'Multiple patches were defined by name for {patch}.'\n                )\n", "            previous = self._patches_by_key.get(patch.name)\n            if previous is not None:\n                raise exceptions.InvalidPatchSet(\n                    f'Multiple patches were defined by name for {patch} (also {previous}).'\n                )\n"))
V("C17", "duplicate-test-by-truthiness", "fire", "C17.R6", "duplicate name detected through the truth value of the earlier patch: an empty patch (legal) is falsy",
  ("src/pyhf/patchset.py", "            if patch.name in self._patches_by_key:\n                raise exceptions.InvalidPatchSet(\n                    f'Multiple patches were defined by name for {patch}.'\n                )\n", "            previous = self._patches_by_key.get(patch.name)\n            if previous:\n                raise exceptions.InvalidPatchSet(\n                    f'Multiple patches were defined by name for {patch} (also {previous}).'\n                )\n"))
V("C04", "class-cache-first-instance-width", "fire", "C04.R9", "numpy normal_logpdf constants cached on the class in the first instance's float type",
  ("src/pyhf/tensor/numpy_backend.py", '    #: The array content type for numpy\n    array_subtype = np.number\n', '    #: The array content type for numpy\n    array_subtype = np.number\n\n    _normal_constants: dict = {}\n'), ("src/pyhf/tensor/numpy_backend.py", '        root2 = np.sqrt(2)\n        root2pi = np.sqrt(2 * np.pi)\n', '        constants = self._normal_constants\n        if not constants:\n            float_type = self.dtypemap["float"]\n            constants["root2"] = float_type(np.sqrt(2))\n            constants["root2pi"] = float_type(np.sqrt(2 * np.pi))\n        root2 = constants["root2"]\n        root2pi = constants["root2pi"]\n'))
V("C04", "class-cache-per-precision", "silent", "", "numpy normal_logpdf constants cached on the class per precision",
  ("src/pyhf/tensor/numpy_backend.py", '    #: The array content type for numpy\n    array_subtype = np.number\n', '    #: The array content type for numpy\n    array_subtype = np.number\n\n    _normal_constants: dict = {}\n'), ("src/pyhf/tensor/numpy_backend.py", '        root2 = np.sqrt(2)\n        root2pi = np.sqrt(2 * np.pi)\n', '        constants = self._normal_constants\n        if self.precision not in constants:\n            float_type = self.dtypemap["float"]\n            constants[self.precision] = (float_type(np.sqrt(2)), float_type(np.sqrt(2 * np.pi)))\n        root2, root2pi = constants[self.precision]\n'))
V("C04", "torch-root2-import-time-tensor", "fire", "C04.R9", "sqrt(2) of torch normal_cdf becomes a module-level tensor created at import (float32 default)",
  ("src/pyhf/tensor/pytorch_backend.py", '        return 0.5 * torch.erfc(-((x - mu) * sigma.reciprocal() / math.sqrt(2)))', '        return 0.5 * torch.erfc(-((x - mu) * sigma.reciprocal() / _ROOT2))'), ("src/pyhf/tensor/pytorch_backend.py", 'log = logging.getLogger(__name__)\n', 'log = logging.getLogger(__name__)\n_ROOT2 = torch.tensor(math.sqrt(2.0))\n'))
V("C04", "torch-root2-module-float", "silent", "", "sqrt(2) of torch normal_cdf becomes a module-level python float",
  ("src/pyhf/tensor/pytorch_backend.py", '        return 0.5 * torch.erfc(-((x - mu) * sigma.reciprocal() / math.sqrt(2)))', '        return 0.5 * torch.erfc(-((x - mu) * sigma.reciprocal() / _ROOT2))'), ("src/pyhf/tensor/pytorch_backend.py", 'log = logging.getLogger(__name__)\n', 'log = logging.getLogger(__name__)\n_ROOT2 = math.sqrt(2.0)\n'))
V("C01", "torch-where-branches-swapped", "fire", "C01.R15", "pytorch where() hands the two value tensors over in the other order",
  ("src/pyhf/tensor/pytorch_backend.py", "return torch.where(mask, tensor_in_1, tensor_in_2)", "return torch.where(mask, tensor_in_2, tensor_in_1)"))
V("C01", "tf-concat-axis-constant", "fire", "C01.R15", "tensorflow concatenate ignores the caller's axis",
  ("src/pyhf/tensor/tensorflow_backend.py", "return tf.concat(sequence, axis=axis)", "return tf.concat(sequence, axis=0)"))
V("C01", "torch-clamp-bounds-swapped", "fire", "C01.R15", "pytorch clip passes max as min",
  ("src/pyhf/tensor/pytorch_backend.py", "return torch.clamp(tensor_in, min_value, max_value)", "return torch.clamp(tensor_in, max_value, min_value)"))
V("C01", "jax-product-is-sum", "fire", "C01.R15", "jax product reduces with sum",
  ("src/pyhf/tensor/jax_backend.py", "return jnp.prod(tensor_in, axis=axis)", "return jnp.sum(tensor_in, axis=axis)"))
V("C01", "torch-sum-keyword-dim", "silent", "", "pytorch sum passes the axis by keyword",
  ("src/pyhf/tensor/pytorch_backend.py", "else torch.sum(tensor_in, axis)", "else torch.sum(tensor_in, dim=axis)"))
V("C01", "numpy-where-keywords", "silent", "", "numpy where passes the value tensors by keyword",
  ("src/pyhf/tensor/numpy_backend.py", "return np.where(mask, tensor_in_1, tensor_in_2)", "return np.where(mask, x=tensor_in_1, y=tensor_in_2)"))
V("C18", "observations-by-position", "fire", "C18.R5", "writexml hands each channel the observation at the channel's POSITION (observations are listed in another order)",
  ("src/pyhf/writexml.py", "        for channelspec in spec['channels']:\n            channelfilename = str(", "        for channel_index, channelspec in enumerate(spec['channels']):\n            channelfilename = str("),
  ("src/pyhf/writexml.py", "                channel = build_channel(spec, channelspec, spec.get('observations'))", "                channel = build_channel(spec, channelspec, [dict(spec['observations'][channel_index], name=channelspec['name'])])"))
V("C18", "channel-file-name-without-channel", "fire", "C18.R5", "every channel is written to the same file name: the last one wins",
  ("src/pyhf/writexml.py", "Path(specdir).joinpath(f'{resultprefix}_{channelspec[\"name\"]}.xml')", "Path(specdir).joinpath(f'{resultprefix}_channel.xml')"))
V("C18", "parse-dedupes-keeping-first-silently", "silent", "", "dedupe_parameters written with an explicit loop",
  ("src/pyhf/readxml.py", "    return list({v['name']: v for v in parameters}.values())", "    unique = {}\n    for v in parameters:\n        unique[v['name']] = v\n    return list(unique.values())"))

# ------------------------------------------------------------------ C08
INF = "src/pyhf/infer/__init__.py"
V("C08", "band-before-median", "fire", "C08.R1", "band appended before the median when both requested",
  (INF, "        if return_expected:\n            _returns.append(tb.astensor(pvalues_exp_band[2]))\n        _returns.append(pvalues_exp_band)\n", "        _returns.append(pvalues_exp_band)\n        if return_expected:\n            _returns.append(tb.astensor(pvalues_exp_band[2]))\n"))
V("C08", "q0-tails", "fire", "C08.R1", "q0 tail probabilities return two values",
  (INF, "            _returns.append([CLb_obs])", "            _returns.append([CLsb_obs, CLb_obs])"))
V("C08", "median-index", "fire", "C08.R1", "median taken from the wrong band entry (elif arm only)",
  (INF, "    elif return_expected:\n        _returns.append(tb.astensor(pvalues_exp_band[2]))", "    elif return_expected:\n        _returns.append(tb.astensor(pvalues_exp_band[1]))"))
V("C08", "prereq-after-create", "fire", "C08.R2", "prerequisite check after calculator creation",
  (INF, "    _check_hypotest_prerequisites(pdf, data, init_pars, par_bounds, fixed_params)\n\n    calc = utils.create_calculator(\n        calctype,\n        data,\n        pdf,\n        init_pars,\n        par_bounds,\n        fixed_params,\n        **kwargs,\n    )\n", "    calc = utils.create_calculator(\n        calctype,\n        data,\n        pdf,\n        init_pars,\n        par_bounds,\n        fixed_params,\n        **kwargs,\n    )\n    if return_calculator:\n        _check_hypotest_prerequisites(pdf, data, init_pars, par_bounds, fixed_params)\n"))
V("C08", "asimov-at-init", "fire", "C08.R3", "Asimov data built at the initial parameters",
  (CA, "asimov_data = pdf.expected_data(bestfit_nuisance_asimov)", "asimov_data = pdf.expected_data(init_pars)"))
V("C08", "asimov-mu-swapped", "fire", "C08.R3", "Asimov mu table swapped",
  (CA, "asimov_mu = 1.0 if self.test_stat == 'q0' else 0.0", "asimov_mu = 0.0 if self.test_stat == 'q0' else 1.0"))
V("C08", "default-mismatch", "fire", "C08.R4", "hypotest assumes another default statistic",
  (INF, "kwargs.get('test_stat', 'qtilde') == 'q0'", "kwargs.get('test_stat', 'q0') == 'q0'"))
V("C08", "kwargs-dropped", "fire", "C08.R5", "calculator options not forwarded",
  (INF, "        fixed_params,\n        **kwargs,\n    )\n\n    teststat", "        fixed_params,\n    )\n\n    teststat"))
V("C08", "bounds-init-swapped", "fire", "C08.R5", "init and bounds swapped in create_calculator",
  (INF, "        pdf,\n        init_pars,\n        par_bounds,\n        fixed_params,\n        **kwargs,", "        pdf,\n        par_bounds,\n        init_pars,\n        fixed_params,\n        **kwargs,"))
V("C08", "fixedpoi-check-removed", "fire", "C08.R2", "fixed POI no longer refused",
  (INF, "    if not utils.all_pois_floating(pdf, fixed_params):\n        raise exceptions.InvalidModel(", "    if False:\n        raise exceptions.InvalidModel("))
V("C08", "tuple-rewrite", "silent", "", "equivalent return expression",
  (INF, "return tuple(_returns) if len(_returns) > 1 else _returns[0]", "return _returns[0] if len(_returns) == 1 else tuple(_returns)"))

# ------------------------------------------------------------------ C14
V("C14", "strict-comparator", "fire", "C14.R1", "ties excluded from the tail fraction",
  (CA, "self.samples >= value, tensorlib.astensor(1), tensorlib.astensor(0)", "self.samples > value, tensorlib.astensor(1), tensorlib.astensor(0)"))
V("C14", "denominator", "fire", "C14.R1", "denominator off by one",
  (CA, "            / tensorlib.shape(self.samples)[0]\n", "            / (tensorlib.shape(self.samples)[0] + 1)\n"))
V("C14", "dists-swapped", "fire", "C14.R2", "s+b wraps the background statistics",
  (CA, "s_plus_b = EmpiricalDistribution(tensorlib.astensor(signal_teststat))\n        b_only = EmpiricalDistribution(tensorlib.astensor(bkg_teststat))", "s_plus_b = EmpiricalDistribution(tensorlib.astensor(bkg_teststat))\n        b_only = EmpiricalDistribution(tensorlib.astensor(signal_teststat))"))
V("C14", "bkg-fit-at-poi", "fire", "C14.R2", "background toys generated at the signal hypothesis",
  (CA, "        bkg_pars = fixed_poi_fit(\n            1.0 if self.test_stat == 'q0' else 0.0,", "        bkg_pars = fixed_poi_fit(\n            poi_test,"))
V("C14", "bkg-pdf-from-signal-pars", "fire", "C14.R2", "background pdf built from the signal parameters",
  (CA, "bkg_pdf = self.pdf.make_pdf(bkg_pars)", "bkg_pdf = self.pdf.make_pdf(signal_pars)"))
V("C14", "toy-stat-init-dropped", "fire", "C14.R2", "background toy statistic loses the bounds",
  (CA, "                    poi_test,\n                    sample,\n                    self.pdf,\n                    self.init_pars,\n                    self.par_bounds,\n                    self.fixed_params,\n                )\n            )\n\n        s_plus_b", "                    poi_test,\n                    sample,\n                    self.pdf,\n                    self.init_pars,\n                    self.pdf.config.suggested_bounds(),\n                    self.fixed_params,\n                )\n            )\n\n        s_plus_b"))
V("C14", "sample-shape-dropped", "fire", "C14.R3", "constituents sampled without the requested shape",
  ("src/pyhf/probability.py", "return self.tv.stitch([p.sample(sample_shape) for p in self])", "return self.tv.stitch([p.sample() for p in self])"))
V("C14", "flipped-comparison", "silent", "", "value <= samples",
  (CA, "self.samples >= value, tensorlib.astensor(1), tensorlib.astensor(0)", "value <= self.samples, tensorlib.astensor(1), tensorlib.astensor(0)"))

# ------------------------------------------------------------------ C05
MLE = "src/pyhf/infer/mle.py"
MIX = "src/pyhf/optimize/mixins.py"
COM = "src/pyhf/optimize/common.py"
V("C05", "fixed-pair-shifted", "fire", "C05.R1", "fixed value taken from the wrong position",
  (MLE, "        (index, init)\n        for index, (init, is_fixed) in enumerate(zip(init_pars, fixed_params))", "        (index, init_pars[index - 1])\n        for index, (init, is_fixed) in enumerate(zip(init_pars, fixed_params))"))
V("C05", "poi-flag-not-set", "fire", "C05.R2", "POI flag not set in fixed_poi_fit",
  (MLE, "    fixed_params[pdf.config.poi_index] = True\n", ""))
V("C05", "poi-inplace", "fire", "C05.R2", "fixed_poi_fit writes into the caller's lists",
  (MLE, "    init_pars = [*(init_pars or pdf.config.suggested_init())]\n    fixed_params = [*(fixed_params or pdf.config.suggested_fixed())]", "    init_pars = init_pars or pdf.config.suggested_init()\n    fixed_params = fixed_params or pdf.config.suggested_fixed()"))
V("C05", "bounds-not-filtered", "fire", "C05.R3", "stitch arm passes unfiltered bounds",
  (COM, "        variable_bounds = [par_bounds[i] for i in variable_idx]", "        variable_bounds = par_bounds"))
V("C05", "scipy-bounds-dropped", "fire", "C05.R3", "scipy minimiser called without bounds",
  ("src/pyhf/optimize/opt_scipy.py", "            jac=do_grad,\n            bounds=bounds,\n", "            jac=do_grad,\n"))
V("C05", "scipy-constraints-dropped", "fire", "C05.R3", "scipy minimiser called without the equality constraints",
  ("src/pyhf/optimize/opt_scipy.py", "            constraints=constraints,\n", ""))
V("C05", "minuit-limits-dropped", "fire", "C05.R3", "minuit limits not set",
  ("src/pyhf/optimize/opt_minuit.py", "        minuit.limits = init_bounds\n", ""))
V("C05", "tflow-nostitch", "fire", "C05.R4", "tensorflow plain arm bypasses the stitcher",
  ("src/pyhf/optimize/opt_tflow.py", "            pars = tensorlib.astensor(pars)\n            constrained_pars = stitch_pars(pars)\n            return objective(constrained_pars, data, pdf)[0]", "            pars = tensorlib.astensor(pars)\n            return objective(pars, data, pdf)[0]"))
V("C05", "twice-nll-factor", "fire", "C05.R4", "objective is -log L instead of -2 log L",
  (MLE, "    return -2 * pdf.logpdf(pars, data)", "    return -1 * pdf.logpdf(pars, data)"))
V("C05", "jax-stitch-order", "fire", "C05.R4", "jax stitches [pars, fixed]",
  ("src/pyhf/optimize/opt_jax.py", "            [tensorlib.astensor(fixed_values, dtype='float'), pars]", "            [pars, tensorlib.astensor(fixed_values, dtype='float')]"))
V("C05", "postprocess-no-stitch", "fire", "C05.R5", "fitted parameters not stitched back",
  (MIX, "        fitted_pars = stitch_pars(tensorlib.astensor(fitresult.x))", "        fitted_pars = tensorlib.astensor(fitresult.x)"))
V("C05", "layout-swapped", "fire", "C05.R5", "objective value returned before the correlations",
  (MIX, "        if return_correlations:\n            _returns.append(result.corr)\n        if return_fitted_val:\n            _returns.append(result.fun)", "        if return_fitted_val:\n            _returns.append(result.fun)\n        if return_correlations:\n            _returns.append(result.corr)"))
V("C05", "success-unchecked", "fire", "C05.R6", "success flag no longer checked",
  (MIX, "        try:\n            assert result.success\n        except AssertionError:\n            log.error(result, exc_info=True)\n            raise exceptions.FailedMinimization(result)\n        return result", "        if not result.success:\n            log.error(result, exc_info=True)\n        return result"))
V("C05", "success-if-form", "silent", "", "assert/try replaced by an explicit if/raise",
  (MIX, "        try:\n            assert result.success\n        except AssertionError:\n            log.error(result, exc_info=True)\n            raise exceptions.FailedMinimization(result)\n        return result", "        if not result.success:\n            log.error(result, exc_info=True)\n            raise exceptions.FailedMinimization(result)\n        return result"))
V("C05", "fixed-vals-loop", "silent", "", "fixed_vals comprehension rewritten with indexing",
  (MLE, "        (index, init)\n        for index, (init, is_fixed) in enumerate(zip(init_pars, fixed_params))\n        if is_fixed", "        (index, init_pars[index])\n        for index, is_fixed in enumerate(fixed_params)\n        if is_fixed"))

# ------------------------------------------------------------------ C13
V("C13", "torch-grad-wrt-stitched", "fire", "C13.R1", "torch gradient taken w.r.t. the stitched vector",
  ("src/pyhf/optimize/opt_pytorch.py", "grad = torch.autograd.grad(constr_nll, pars)[0]", "grad = torch.autograd.grad(constr_nll, constrained_pars)[0]"))
V("C13", "torch-requires-grad-late", "fire", "C13.R1", "requires_grad set after stitching",
  ("src/pyhf/optimize/opt_pytorch.py", "            pars.requires_grad = True\n            constrained_pars = stitch_pars(pars)\n", "            constrained_pars = stitch_pars(pars)\n            pars.requires_grad = True\n"))
V("C13", "tf-objective-outside-tape", "fire", "C13.R1", "tf objective evaluated outside the tape",
  ("src/pyhf/optimize/opt_tflow.py", "                tape.watch(pars)\n                constrained_pars = stitch_pars(pars)\n                constr_nll = objective(constrained_pars, data, pdf)\n", "                tape.watch(pars)\n                constrained_pars = stitch_pars(pars)\n            constr_nll = objective(constrained_pars, data, pdf)\n"))
V("C13", "tf-watch-missing", "fire", "C13.R1", "tape.watch removed",
  ("src/pyhf/optimize/opt_tflow.py", "                tape.watch(pars)\n", ""))
V("C13", "jax-argnums", "fire", "C13.R1", "jax differentiates w.r.t. argument 1",
  ("src/pyhf/optimize/opt_jax.py", "jax.value_and_grad(_final_objective, argnums=0)", "jax.value_and_grad(_final_objective, argnums=1)"))
V("C13", "jax-static-fixed-values", "fire", "C13.R1", "fixed values declared static",
  ("src/pyhf/optimize/opt_jax.py", "jax.value_and_grad(_final_objective, argnums=0), static_argnums=(3, 4, 5, 6, 7)", "jax.value_and_grad(_final_objective, argnums=0), static_argnums=(2, 3, 4, 5, 6, 7)"))
V("C13", "tolist-in-apply", "fire", "C13.R2", "parameter values converted to python floats in a modifier",
  ("src/pyhf/modifiers/lumi.py", "        lumis = self.param_viewer.get(pars)\n", "        lumis = tensorlib.astensor(tensorlib.tolist(self.param_viewer.get(pars)))\n"))
V("C13", "tonumpy-in-constraint", "fire", "C13.R2", "gathered parameters pass through numpy in the constraint",
  ("src/pyhf/constraints.py", "        normal_means = tensorlib.gather(flat_pars, self.access_field)\n", "        normal_means = tensorlib.astensor(tensorlib.to_numpy(tensorlib.gather(flat_pars, self.access_field)))\n"))
V("C13", "torch-value-item", "silent", "", "value converted with .item() instead of numpy()[0]",
  ("src/pyhf/optimize/opt_pytorch.py", "return constr_nll.detach().numpy()[0], grad", "return constr_nll.detach()[0].item(), grad"))

# ------------------------------------------------------------------ C04
NB, JB, PB, TB = "src/pyhf/tensor/numpy_backend.py", "src/pyhf/tensor/jax_backend.py", "src/pyhf/tensor/pytorch_backend.py", "src/pyhf/tensor/tensorflow_backend.py"
V("C04", "numpy-dist-roles-swapped", "fire", "C04.R1", "numpy _BasicPoisson.log_prob swaps value and rate",
  (NB, "return tensorlib.poisson_logpdf(value, self.rate)", "return tensorlib.poisson_logpdf(self.rate, value)"))
V("C04", "jax-gammaln-n", "fire", "C04.R3", "jax poisson_logpdf uses gammaln(n)",
  (JB, "        return xlogy(n, lam) - lam - gammaln(n + 1.0)\n\n    def poisson(self, n, lam):", "        return xlogy(n, lam) - lam - gammaln(n)\n\n    def poisson(self, n, lam):"))
V("C04", "numpy-poisson-lam-dropped", "fire", "C04.R2", "numpy poisson drops -lam (logpdf unchanged)",
  (NB, "return np.exp(xlogy(_n, _lam) - _lam - gammaln(_n + 1.0))", "return np.exp(xlogy(_n, _lam) - gammaln(_n + 1.0))"))
V("C04", "numpy-normal-root2", "fire", "C04.R3", "numpy normal_logpdf loses the sqrt(2)",
  (NB, "summand = -np.square(np.divide((x - mu), (root2 * sigma)))", "summand = -np.square(np.divide((x - mu), (sigma)))"))
V("C04", "torch-cdf-erf", "fire", "C04.R4", "torch normal_cdf as 0.5*(1+erf)",
  (PB, "return 0.5 * torch.erfc(-((x - mu) * sigma.reciprocal() / math.sqrt(2)))", "return 0.5 * (1 + torch.erf((x - mu) * sigma.reciprocal() / math.sqrt(2)))"))
V("C04", "tf-dist-roles", "fire", "C04.R1", "tf normal_dist swaps mu and sigma",
  (TB, "        return tfp.distributions.Normal(mu, sigma)\n", "        return tfp.distributions.Normal(sigma, mu)\n"))
V("C04", "torch-param-renamed", "fire", "C04.R5", "torch backend renames a parameter",
  (PB, "    def poisson_logpdf(self, n, lam):", "    def poisson_logpdf(self, n, rate):"),
  (PB, "return torch.distributions.Poisson(lam, validate_args=False).log_prob(n)\n\n    def poisson(self, n, lam):", "return torch.distributions.Poisson(rate, validate_args=False).log_prob(n)\n\n    def poisson(self, n, lam):"))
V("C04", "jax-dtype-dropped", "fire", "C04.R6", "jax astensor without dtype",
  (JB, "return jnp.asarray(tensor_in, dtype=dtype)", "return jnp.asarray(tensor_in).astype(dtype)"))
V("C04", "numpy-sample-shape", "fire", "C04.R1", "numpy Poisson sample ignores the rate shape",
  (NB, "return poisson(self.rate).rvs(size=sample_shape + self.rate.shape)", "return poisson(self.rate).rvs(size=sample_shape)"))
V("C04", "numpy-normal-expanded", "silent", "", "numpy normal_logpdf algebraically rewritten",
  (NB, "summand = -np.square(np.divide((x - mu), (root2 * sigma)))", "summand = -np.square(x - mu) / (2 * np.square(sigma))"))

# ------------------------------------------------------------------ C02
CON = "src/pyhf/constraints.py"
PDFF = "src/pyhf/pdf.py"
PRB = "src/pyhf/probability.py"
V("C02", "offset-after-continue", "fire", "C02.R1", "gaussian loop advances the offset after the continue",
  (CON, "            thisauxdata = self.data_indices[start_index:end_index]\n            start_index = end_index\n            if not parset.pdf_type == 'normal':\n                continue\n", "            thisauxdata = self.data_indices[start_index:end_index]\n            if not parset.pdf_type == 'normal':\n                continue\n            start_index = end_index\n"))
V("C02", "poisson-offset-after-continue", "fire", "C02.R1", "poisson loop advances the offset after the continue",
  (CON, "            thisauxdata = self.data_indices[start_index:end_index]\n            start_index = end_index\n            if not parset.pdf_type == 'poisson':\n                continue\n", "            thisauxdata = self.data_indices[start_index:end_index]\n            if not parset.pdf_type == 'poisson':\n                continue\n            start_index = end_index\n"))
V("C02", "auxorder-unguarded", "fire", "C02.R1", "aux order appended for every paramset",
  (PDFF, "        if paramset.constrained:  # is constrained\n            auxdata += paramset.auxdata\n            auxdata_order.append(param_name)\n", "        if paramset.constrained:  # is constrained\n            auxdata += paramset.auxdata\n        auxdata_order.append(param_name)\n"))
V("C02", "normal-roles-swapped", "fire", "C02.R3", "Normal(sigmas, means)",
  (CON, "prob.Normal(normal_means, self.sigmas), batch_size=self.batch_size", "prob.Normal(self.sigmas, normal_means), batch_size=self.batch_size"))
V("C02", "poisson-factor-dropped", "fire", "C02.R3", "Poisson rate without the factors",
  (CON, "        pois_rates = tensorlib.product(\n            tensorlib.stack([nuispars, self.batched_factors]), axis=0\n        )", "        pois_rates = nuispars"))
V("C02", "gauss-data-indices", "fire", "C02.R3", "gaussian logpdf gathers with the access field instead of the data indices",
  (CON, "normal_data = tensorlib.gather(auxdata, self.normal_data)", "normal_data = tensorlib.gather(auxdata, self.access_field)"))
V("C02", "pdfobjs-order", "fire", "C02.R4", "constraint appended before main",
  (PDFF, "        pdfobjs = []\n        mainpdf = self.main_model.make_pdf(pars)\n        if mainpdf:\n            pdfobjs.append(mainpdf)\n        constraintpdf = self.constraint_model.make_pdf(pars)\n        if constraintpdf:\n            pdfobjs.append(constraintpdf)\n", "        pdfobjs = []\n        constraintpdf = self.constraint_model.make_pdf(pars)\n        if constraintpdf:\n            pdfobjs.append(constraintpdf)\n        mainpdf = self.main_model.make_pdf(pars)\n        if mainpdf:\n            pdfobjs.append(mainpdf)\n"))
V("C02", "constraint-index", "fire", "C02.R4", "constraint_logpdf addresses constituent 0",
  (PDFF, "return self.make_pdf(pars)[1].log_prob(auxdata)", "return self.make_pdf(pars)[0].log_prob(auxdata)"))
V("C02", "joint-first-term", "fire", "C02.R5", "two-term shortcut returns the first term",
  (PRB, "            return terms[0] + terms[1]", "            return terms[0]"))
V("C02", "independent-axis-none", "fire", "C02.R5", "bins summed over all axes",
  (PRB, "result = tensorlib.sum(result, axis=-1)", "result = tensorlib.sum(result, axis=None)"))
V("C02", "shapesys-factor-linear", "fire", "C02.R7", "shapesys factor nominal/unc^2",
  ("src/pyhf/modifiers/shapesys.py", "(nom_yield**2 / unc**2) if (is_valid) else 1.0", "(nom_yield / unc**2) if (is_valid) else 1.0"))
V("C02", "staterror-no-sqrt", "fire", "C02.R7", "staterror sigma without the square root",
  ("src/pyhf/modifiers/staterror.py", "            relerrs = default_backend.sqrt(relerrs)\n", ""))
V("C02", "override-loses", "fire", "C02.R8", "default wins over the user override",
  ("src/pyhf/parameters/utils.py", "v = paramset_user_configs.get(k, default_v)", "v = default_v if default_v != 'undefined' else paramset_user_configs.get(k, default_v)"))
V("C02", "shortcut-removed", "silent", "", "two-term shortcut removed (general stack/sum path)",
  (PRB, "        if len(terms) == 2 and batch_size is None:\n            return terms[0] + terms[1]\n", ""))
V("C02", "pdf-exp-temp", "silent", "", "Model.pdf with a temporary",
  (PDFF, "        return tensorlib.exp(self.logpdf(pars, data))", "        logp = self.logpdf(pars, data)\n        return tensorlib.exp(logp)"))

# ------------------------------------------------------------------ C12
WSF = "src/pyhf/workspace.py"
MXF = "src/pyhf/mixins.py"
V("C12", "slice-overlap", "fire", "C12.R1", "parameter offset advanced by n-1 (overlapping slices)",
  (PDFF, "            next_index = next_index + paramset.n_parameters\n", "            next_index = next_index + paramset.n_parameters - 1\n"))
V("C12", "channel-offset-not-advanced", "fire", "C12.R1", "channel slice offset not advanced",
  (MXF, "            self._channel_slices[c] = slice(begin, end)\n            begin = end\n", "            self._channel_slices[c] = slice(begin, end)\n"))
V("C12", "viewer-window-after-advance", "fire", "C12.R1", "viewer slice taken after the advance",
  ("src/pyhf/tensor/common.py", "        stop = start + sz\n        target_slices.append(slice(start, stop))\n        start = stop\n", "        stop = start + sz\n        start = stop\n        target_slices.append(slice(start, stop))\n"))
V("C12", "par-names-skip-scalar", "fire", "C12.R2", "par_names drops scalar parameters",
  (PDFF, "            if param_set.is_scalar:\n                _names.append(name)\n                continue\n", "            if param_set.is_scalar:\n                continue\n"))
V("C12", "fixed-order", "fire", "C12.R2", "suggested_fixed iterates the sorted parameter list instead of par_order",
  (PDFF, "        fixed = []\n        for name in self.par_order:", "        fixed = []\n        for name in sorted(self.par_order, reverse=True):"))
V("C12", "model-no-deepcopy", "fire", "C12.R3", "Model keeps a reference to the caller's spec",
  (PDFF, "        self.spec = copy.deepcopy(spec)\n", "        self.spec = spec\n"))
V("C12", "workspace-validate-before-copy", "fire", "C12.R3", "Workspace copies after first using the caller's spec",
  (WSF, "        spec = copy.deepcopy(spec)\n        self.schema = config_kwargs.pop('schema', 'workspace.json')\n        self.version = config_kwargs.pop('version', spec.get('version', None))\n", "        self.schema = config_kwargs.pop('schema', 'workspace.json')\n        self.version = config_kwargs.pop('version', spec.setdefault('version', None))\n        spec = copy.deepcopy(spec)\n"))
V("C12", "data-no-init", "fire", "C12.R3", "reduce(iadd) without a fresh accumulator",
  (WSF, "operator.iadd, (self.observations[c] for c in model.config.channels), []", "operator.iadd, (self.observations[c] for c in model.config.channels)"))
V("C12", "data-spec-order", "fire", "C12.R5", "data concatenated in workspace listing order",
  (WSF, "(self.observations[c] for c in model.config.channels), []", "(self.observations[c] for c in self.observations), []"))
V("C12", "unsorted-samples", "fire", "C12.R4", "sample list not sorted",
  (MXF, "        self._samples = sorted(list(set(self._samples)))\n", "        self._samples = list(dict.fromkeys(self._samples))\n"))
V("C12", "builders-spec-order", "fire", "C12.R4", "builders driven by the spec's channel order",
  (PDFF, "    for c in config.channels:\n        for s in config.samples:\n            helper_data = helper.get(c, {}).get(s)", "    for c in [ch['name'] for ch in spec['channels']]:\n        for s in config.samples:\n            helper_data = helper.get(c, {}).get(s)"))
V("C12", "build-drops-sigmas", "fire", "C12.R6", "build writes auxdata and factors but not sigmas",
  (WSF, "for key in ('auxdata', 'sigmas', 'factors')", "for key in ('auxdata', 'factors')"))
V("C12", "build-slices-order", "fire", "C12.R5", "build cuts the data with a running offset in spec order",
  (WSF, "            {'name': k, 'data': list(data[model.config.channel_slices[k]])}\n            for k in model.config.channels", "            {'name': k, 'data': list(data[model.config.channel_slices[k]])}\n            for k in [c['name'] for c in model.spec['channels']]"))
V("C12", "init-loop-plus-equals", "silent", "", "suggested_init accumulates with +=",
  (PDFF, "            init = init + self.par_map[name]['paramset'].suggested_init", "            init += self.par_map[name]['paramset'].suggested_init"))

# ------------------------------------------------------------------ C01
MD = "src/pyhf/modifiers/"
V("C01", "normfactor-default-zeros", "fire", "C01.R1", "normfactor default tensor is zeros",
  (MD + "normfactor.py", "self.normfactor_default = tensorlib.ones(self.normfactor_mask.shape)", "self.normfactor_default = tensorlib.zeros(self.normfactor_mask.shape)"))
V("C01", "histosys-default-ones", "fire", "C01.R1", "histosys default tensor is ones",
  (MD + "histosys.py", "self.histosys_default = tensorlib.zeros(self.histosys_mask.shape)", "self.histosys_default = tensorlib.ones(self.histosys_mask.shape)"))
V("C01", "staterror-where-swapped", "fire", "C01.R1", "staterror where() arms swapped",
  (MD + "staterror.py", "self.staterror_mask, results_staterr, self.staterror_default", "self.staterror_mask, self.staterror_default, results_staterr"))
V("C01", "lumi-opcode", "fire", "C01.R1", "lumi declared additive",
  (MD + "lumi.py", "    name = 'lumi'\n    op_code = 'multiplication'", "    name = 'lumi'\n    op_code = 'addition'"))
V("C01", "routing-swapped", "fire", "C01.R2", "op_code routing swapped in _MainModel",
  (PDFF, "            if modifier_applier.op_code == \"addition\":\n                self._delta_mods.append(modifier_applier.name)\n            elif modifier_applier.op_code == \"multiplication\":\n                self._factor_mods.append(modifier_applier.name)", "            if modifier_applier.op_code == \"addition\":\n                self._factor_mods.append(modifier_applier.name)\n            elif modifier_applier.op_code == \"multiplication\":\n                self._delta_mods.append(modifier_applier.name)"))
V("C01", "product-to-sum", "fire", "C01.R2", "factors summed instead of multiplied",
  (PDFF, "newbysample = tensorlib.product(allfac, axis=0)", "newbysample = tensorlib.sum(allfac, axis=0)"))
V("C01", "clip-order", "fire", "C01.R2", "bin clip applied before the sample sum",
  (PDFF, "        if self.clip_sample_data is not None:\n            newbysample = tensorlib.clip(\n                newbysample, self.clip_sample_data, max_value=None\n            )\n", "        if self.clip_sample_data is not None:\n            newbysample = tensorlib.clip(\n                newbysample, self.clip_sample_data, max_value=None\n            )\n        if self.clip_bin_data is not None:\n            newbysample = tensorlib.clip(newbysample, self.clip_bin_data, max_value=None)\n"))
V("C01", "mask-always-true", "fire", "C01.R3", "shapefactor presence mask constant true",
  (MD + "shapefactor.py", "        maskval = True if thismod else False\n", "        maskval = True\n"))
V("C01", "normsys-absent-lo", "fire", "C01.R3", "normsys stand-in variation not neutral",
  (MD + "normsys.py", "lo_factor = thismod['data']['lo'] if thismod else 1.0", "lo_factor = thismod['data']['lo'] if thismod else 0.0"))
V("C01", "absent-nominal-ones", "fire", "C01.R4", "absent sample gets a nominal of ones",
  (PDFF, "            else [0.0] * self.config.channel_nbins[channel]\n        )\n        if not len(nom) == self.config.channel_nbins[channel]:", "            else [1.0] * self.config.channel_nbins[channel]\n        )\n        if not len(nom) == self.config.channel_nbins[channel]:"))
V("C01", "mask-sample-order", "fire", "C01.R5", "lumi mask sample axis in reversed order",
  (MD + "lumi.py", "[[builder_data[m][s]['data']['mask']] for s in pdfconfig.samples]", "[[builder_data[m][s]['data']['mask']] for s in reversed(pdfconfig.samples)]"))
V("C01", "keys-sorted-separately", "fire", "C01.R5", "normsys keys sorted independently of the parameter names",
  (MD + "normsys.py", "        keys = [f'{mtype}/{m}' for m, mtype in modifiers]\n        normsys_mods = [m for m, _ in modifiers]", "        keys = sorted(f'{mtype}/{m}' for m, mtype in modifiers)\n        normsys_mods = [m for m, _ in modifiers]"))
V("C01", "required-by-key", "fire", "C01.R7", "histosys requirement registered under type/name key",
  (MD + "histosys.py", "            self.required_parsets.setdefault(\n                thismod['name'],", "            self.required_parsets.setdefault(\n                key,"))
V("C01", "rename-locals", "silent", "", "rename locals in expected_data",
  (PDFF, "        allsum = tensorlib.concatenate(deltas + [self.nominal_rates])\n\n        nom_plus_delta = tensorlib.sum(allsum, axis=0)", "        stacked = tensorlib.concatenate(deltas + [self.nominal_rates])\n\n        nom_plus_delta = tensorlib.sum(stacked, axis=0)"))
V("C01", "maskval-bool", "silent", "", "presence mask via bool()",
  (MD + "lumi.py", "        maskval = True if thismod else False\n", "        maskval = bool(thismod)\n"))

# ------------------------------------------------------------------ C10
V("C10", "tile-wrong-axis", "fire", "C10.R1", "lumi mask tiled on the sample axis",
  (MD + "lumi.py", "tensorlib.astensor(self._lumi_mask), (1, 1, self.batch_size or 1, 1)", "tensorlib.astensor(self._lumi_mask), (1, self.batch_size or 1, 1, 1)"))
V("C10", "sigmas-tile", "fire", "C10.R1", "constraint sigmas tiled on the last axis",
  (CON, "self._sigmas = default_backend.tile(sigmas, (self.batch_size, 1))", "self._sigmas = default_backend.tile(sigmas, (1, self.batch_size))"))
V("C10", "no-flatten", "fire", "C10.R2", "shapesys batched arm does not flatten the parameters",
  (MD + "shapesys.py", "            flat_pars = tensorlib.reshape(pars, (-1,))", "            flat_pars = pars"))
V("C10", "einsum-batch-letter", "fire", "C10.R2", "normfactor batched einsum without the batch letter",
  (MD + "normfactor.py", "'msab,ma->msab', self.normfactor_mask, normfactors", "'msab,m...->msab', self.normfactor_mask, normfactors"))
V("C10", "full-reduction", "fire", "C10.R3", "sample sum without axis",
  (PDFF, "newresults = tensorlib.sum(newbysample, axis=0)", "newresults = tensorlib.sum(newbysample)"))
V("C10", "strip-unconditional", "fire", "C10.R4", "gaussian means stripped unconditionally",
  (CON, "        if self.batch_size is None:\n            normal_means = normal_means[0]\n", "        normal_means = normal_means[0]\n"))
V("C10", "expected-strip", "fire", "C10.R4", "expected_data strips row 0 also when batched",
  (PDFF, "        if self.batch_size is None:\n            return newresults[0]\n        return newresults", "        return newresults[0]"))
V("C10", "constraint-no-flatten", "fire", "C10.R2", "poisson constraint batched arm does not flatten",
  (CON, "            flat_pars = tensorlib.reshape(pars, (-1,))\n        nuispars", "            flat_pars = pars\n        nuispars"))

# ------------------------------------------------------------------ C16
V("C16", "sorted-in-place", "fire", "C16.R1", "sorted() sorts the input workspace in place",
  (WSF, "        newspec = copy.deepcopy(dict(workspace))\n", "        newspec = dict(workspace)\n"))
V("C16", "join-items-no-copy", "fire", "C16.R1", "_join_items extends the primary list in place",
  (WSF, "    joined_items = copy.deepcopy(primary_items)\n", "    joined_items = primary_items\n"))
V("C16", "prune-plain-dict", "fire", "C16.R2", "_prune_and_rename returns the plain dict",
  (WSF, "        return Workspace(newspec)\n\n    def prune(", "        return newspec\n\n    def prune("))
V("C16", "obs-none-check-removed", "fire", "C16.R3", "observations name clash no longer refused under join=none",
  (WSF, "        if common_observations:\n            raise exceptions.InvalidWorkspaceOperation(", "        if common_observations:\n            log.warning("))
V("C16", "channels-intersection-self", "fire", "C16.R3", "channel clash test compares left with left",
  (WSF, "        common_channels = {c['name'] for c in left_channels}.intersection(\n            c['name'] for c in right_channels\n        )", "        common_channels = {c['name'] for c in left_channels}.intersection(\n            c['name'] for c in left_channels if False\n        )"))
V("C16", "combine-sections-swapped", "fire", "C16.R3", "combine joins observations with the measurements helper arguments swapped",
  (WSF, "            join, left['observations'], right['observations']\n", "            join, left['observations'], left['observations']\n"))
V("C16", "poi-not-renamed", "fire", "C16.R4", "POI not renamed with the modifier",
  (WSF, "                        'poi': rename_modifiers.get(\n                            measurement['config']['poi'], measurement['config']['poi']\n                        ),", "                        'poi': measurement['config']['poi'],"))
V("C16", "obs-not-renamed", "fire", "C16.R4", "observations keep the old channel name",
  (WSF, "                    name=rename_channels.get(observation['name'], observation['name']),", "                    name=observation['name'],"))
V("C16", "params-not-pruned", "fire", "C16.R4", "pruned modifier keeps its parameter config",
  (WSF, "                            for parameter in measurement['config']['parameters']\n                            if parameter['name'] not in prune_modifiers\n", "                            for parameter in measurement['config']['parameters']\n"))
V("C16", "prune-args-crossed", "fire", "C16.R4", "prune forwards samples as channels",
  (WSF, "            prune_samples=samples,\n            prune_channels=channels,", "            prune_samples=channels,\n            prune_channels=samples,"))
V("C16", "sort-modifiers-by-name-only", "fire", "C16.R5", "modifiers sorted by name only",
  (WSF, "sample['modifiers'].sort(key=lambda e: (e['name'], e['type']))", "sample['modifiers'].sort(key=lambda e: e['name'])"))
V("C16", "sorted-copy-alias", "silent", "", "sorted uses deepcopy via an alias",
  (WSF, "        newspec = copy.deepcopy(dict(workspace))\n", "        payload = dict(workspace)\n        newspec = copy.deepcopy(payload)\n"))

# ------------------------------------------------------------------ C18
WX, RX = "src/pyhf/writexml.py", "src/pyhf/readxml.py"
V("C18", "tag-map-swapped", "fire", "C18.R1", "writer swaps the OverallSys/HistoSys tags",
  (WX, "        'histosys': 'HistoSys',\n        'staterror': 'StatError',\n        'normsys': 'OverallSys',", "        'histosys': 'OverallSys',\n        'staterror': 'StatError',\n        'normsys': 'HistoSys',"))
V("C18", "reader-type-wrong", "fire", "C18.R1", "reader maps ShapeFactor to normfactor",
  (RX, "                'name': modtag.attrib['Name'],\n                'type': 'shapefactor',", "                'name': modtag.attrib['Name'],\n                'type': 'normfactor',"))
V("C18", "writer-attr-renamed", "fire", "C18.R1", "writer emits HistoNameUp instead of HistoNameHigh",
  (WX, "        attrs['HistoNameHigh'] = _make_hist_name(\n            channelname, samplename, modifierspec['name'], suffix='High'\n        )", "        attrs['HistoNameUp'] = _make_hist_name(\n            channelname, samplename, modifierspec['name'], suffix='High'\n        )"),
  (WX, "_export_root_histogram(attrs['HistoNameHigh'], modifierspec['data']['hi_data'])", "_export_root_histogram(attrs['HistoNameUp'], modifierspec['data']['hi_data'])"))
V("C18", "staterror-absolute", "fire", "C18.R2", "StatError histogram written absolute",
  (WX, "            np.divide(\n                modifierspec['data'],\n                sampledata,\n                out=np.zeros_like(sampledata),\n                where=np.asarray(sampledata) != 0,\n                dtype='float',\n            ).tolist(),", "            np.asarray(modifierspec['data'], dtype='float').tolist(),"))
V("C18", "shapesys-reader-no-multiply", "fire", "C18.R2", "reader keeps ShapeSys relative",
  (RX, "'data': [a * b for a, b in zip(data, shapesys_data)],", "'data': [b for a, b in zip(data, shapesys_data)],"))
V("C18", "normsys-hi-lo-swapped", "fire", "C18.R2", "writer stores lo under High",
  (WX, "        attrs['High'] = str(modifierspec['data']['hi'])\n        attrs['Low'] = str(modifierspec['data']['lo'])", "        attrs['High'] = str(modifierspec['data']['lo'])\n        attrs['Low'] = str(modifierspec['data']['hi'])"))
V("C18", "prefix-changed", "fire", "C18.R3", "writer uses gamma_ for normsys constants",
  (WX, "        'normsys': 'alpha_',", "        'normsys': 'gamma_',"))
V("C18", "handle-after-with", "fire", "C18.R4", "a channel is built after the ROOT file was closed",
  (WX, "    # need information about modifier types to get the right prefix in measurement\n", "    build_data(spec.get('observations'), spec['channels'][0]['name'])\n    # need information about modifier types to get the right prefix in measurement\n"))

# ------------------------------------------------------------------ C20
V("C20", "foreign-exception", "fire", "C20.R1", "builder raises ValueError",
  (MD + "shapesys.py", "                    raise InvalidModifier(\n                        f\"The '{sample_name}' sample {_modifier_type} modifier\"", "                    raise ValueError(\n                        f\"The '{sample_name}' sample {_modifier_type} modifier\""))
V("C20", "new-assert", "fire", "C20.R1", "sample length check turned into an assert",
  (PDFF, "        if not len(nom) == self.config.channel_nbins[channel]:\n            raise exceptions.InvalidModel(\n                f'expected {self.config.channel_nbins[channel]} size sample data but got {len(nom)}'\n            )", "        assert len(nom) == self.config.channel_nbins[channel]"))
V("C20", "param-dup-unguarded", "fire", "C20.R2", "duplicate parameter configs no longer refused",
  (PDFF, "        if parameter['name'] in _paramsets_user_configs:\n            raise exceptions.InvalidModel(\n                f\"Multiple parameter configurations for {parameter['name']} were found.\"\n            )\n", ""))
V("C20", "histosys-finalize-check-removed", "silent", "", "histosys loses its (now redundant) concatenated-length check in finalize; append still checks every cell",
  (MD + "histosys.py", "                if (\n                    not len(sample[\"data\"][\"nom_data\"])\n                    == len(sample[\"data\"][\"lo_data\"])\n                    == len(sample[\"data\"][\"hi_data\"])\n                ):", "                if False:"))
V("C20", "setpoi-unchecked", "fire", "C20.R6", "set_poi accepts undeclared names",
  (PDFF, "        if name not in self.parameters:\n            raise exceptions.InvalidModel(\n                f\"The parameter of interest '{name:s}' cannot be fit as it is not declared in the model specification.\"\n            )\n", ""))
V("C20", "normsys-shared-data-dependent", "fire", "C20.R3", "normsys requirement made data dependent while registered first-wins",
  (MD + "normsys.py", "        'inits': (0.0,),\n        'bounds': ((-5.0, 5.0),),\n        'fixed': False,\n        'auxdata': (0.0,),\n    }\n\n\nclass normsys_builder", "        'inits': (0.0,),\n        'bounds': ((-5.0 * max(1.0, modifier_data['hi']), 5.0),),\n        'fixed': False,\n        'auxdata': (0.0,),\n    }\n\n\nclass normsys_builder"))
V("C01", "einsum-sample-axis", "fire", "C01.R6", "normfactor parameter spread over the sample axis",
  (MD + "normfactor.py", "'msab,m->msab', self.normfactor_mask, normfactors", "'msab,s->msab', self.normfactor_mask, normfactors"))
V("C01", "histoset-slots-swapped", "fire", "C01.R6", "histosys hands (hi, nom, lo) to the interpolator",
  (MD + "histosys.py", "                    builder_data[m][s]['data']['lo_data'],\n                    builder_data[m][s]['data']['nom_data'],\n                    builder_data[m][s]['data']['hi_data'],", "                    builder_data[m][s]['data']['hi_data'],\n                    builder_data[m][s]['data']['nom_data'],\n                    builder_data[m][s]['data']['lo_data'],"))
V("C01", "normsys-collect-swapped", "fire", "C01.R6", "normsys builder stores hi as lo",
  (MD + "normsys.py", "        lo_factor = thismod['data']['lo'] if thismod else 1.0\n        hi_factor = thismod['data']['hi'] if thismod else 1.0", "        lo_factor = thismod['data']['hi'] if thismod else 1.0\n        hi_factor = thismod['data']['lo'] if thismod else 1.0"))
V("C01", "einsum-letters-renamed", "silent", "", "einsum letters renamed consistently",
  (MD + "lumi.py", "'msab,x->msab', self.lumi_mask, lumis", "'ijkl,z->ijkl', self.lumi_mask, lumis"))
V("C16", "left-outer-overwrites", "fire", "C16.R6", "left outer join appends clashing right items too",
  (WSF, "                join in ['left outer', 'right outer']\n                and secondary_item[key] not in keys", "                join in ['left outer', 'right outer']\n                and secondary_item not in primary_items"))
V("C16", "right-outer-primary", "fire", "C16.R6", "right outer join keeps the left as primary",
  (WSF, "    if join == 'right outer':\n        primary_items, secondary_items = right_items, left_items", "    if join == 'right outer ':\n        primary_items, secondary_items = right_items, left_items"))
V("C02", "main-pdf-normal", "fire", "C02.R3", "logpdf evaluates data and parameters exchanged",
  (PDFF, "            result = self.make_pdf(pars).log_prob(data)", "            result = self.make_pdf(data).log_prob(pars)"))

# ------------------------------------------------------------------ round 2: rules added after the seeded changes
SE = "src/pyhf/modifiers/staterror.py"
V("C01", "staterror-access-contiguous", "fire", "C01.R8", "staterror access field assumes the modifier's bins are contiguous",
  (SE, "                access_field_for_syst_and_batch[sample_mask] = selection\n", "                first_bin = list(sample_mask).index(True)\n                access_field_for_syst_and_batch[first_bin : first_bin + len(selection)] = selection\n"))
V("C01", "shapesys-access-first-sample", "fire", "C01.R8", "shapesys takes the mask of the FIRST sample instead of a carrying one",
  ("src/pyhf/modifiers/shapesys.py", "                sample_mask = self._shapesys_mask[syst_index][singular_sample_index][0]", "                sample_mask = self._shapesys_mask[syst_index][0][0]"))
V("C01", "shapefactor-access-global-bin", "fire", "C01.R8", "shapefactor indexes its parameters by global bin position",
  ("src/pyhf/modifiers/shapefactor.py", "                for b, bin_access in enumerate(batch_access):\n                    self._access_field[s, t, b] = (\n                        selection[bin_access] if bin_access < len(selection) else 0\n                    )", "                for b, bin_access in enumerate(batch_access):\n                    self._access_field[s, t, b] = (\n                        selection[b] if b < len(selection) else 0\n                    )"))
V("C01", "staterror-access-any-order", "silent", "", "carrying-sample search written with a loop variable of another name",
  (SE, "                for idx, syst in enumerate(\n                    default_backend.astensor(self._staterror_mask)[syst_index, :, 0]\n                )\n                if any(syst)", "                for idx, sample_row in enumerate(\n                    default_backend.astensor(self._staterror_mask)[syst_index, :, 0]\n                )\n                if any(sample_row)"))
V("C02", "staterror-own-nominal-guard", "fire", "C02.R7", "a sample with zero nominal drops its uncertainty from the quadrature sum",
  (SE, "                            if nomsall[binnr] > 0\n", "                            if nomsall[binnr] > 0\n                            and modifier_data['data']['nom_data'][binnr] > 0\n"))
V("C02", "staterror-nomsall-all-samples", "fire", "C02.R7", "total nominal summed over samples that do not carry the modifier",
  (SE, "                    if default_backend.astensor(modifier_data['data']['mask']).any()\n", ""))
V("C02", "staterror-linear-sum", "fire", "C02.R7", "relative uncertainties added linearly",
  (SE, "                            (modifier_data['data']['uncrt'][binnr] / nomsall[binnr])\n                            ** 2\n", "                            (modifier_data['data']['uncrt'][binnr] / nomsall[binnr])\n                            ** 1\n"))
V("C02", "poisson-factors-from-auxdata", "fire", "C02.R3", "Poisson rate factors taken from the (overridable) auxiliary data",
  ("src/pyhf/constraints.py", "poisson_constraint_rate_factors.append(parset.factors)", "poisson_constraint_rate_factors.append(parset.auxdata)"))
V("C02", "gaussian-default-width-2", "fire", "C02.R3", "paramsets without widths get width 2",
  ("src/pyhf/constraints.py", "normal_constraint_sigmas.append([1.0] * len(thisauxdata))", "normal_constraint_sigmas.append([2.0] * len(thisauxdata))"))
V("C02", "gaussian-start-index-late", "fire", "C02.R3", "running data offset advanced only for Gaussian paramsets",
  ("src/pyhf/constraints.py", "            thisauxdata = self.data_indices[start_index:end_index]\n            start_index = end_index\n            if not parset.pdf_type == 'normal':\n                continue\n", "            thisauxdata = self.data_indices[start_index:end_index]\n            if not parset.pdf_type == 'normal':\n                continue\n            start_index = end_index\n"))
V("C04", "torch-poisson-clamped", "fire", "C04.R1", "hand-written torch Poisson log-mass with a clamped rate",
  ("src/pyhf/tensor/pytorch_backend.py", "        return torch.distributions.Poisson(lam, validate_args=False).log_prob(n)\n\n    def poisson(self", "        return n * torch.log(torch.clamp(lam, min=1e-30)) - lam - torch.lgamma(n + 1.0)\n\n    def poisson(self"))
V("C04", "torch-poisson-reference-form", "silent", "", "hand-written torch Poisson log-mass in the reference form",
  ("src/pyhf/tensor/pytorch_backend.py", "        return torch.distributions.Poisson(lam, validate_args=False).log_prob(n)\n\n    def poisson(self", "        return torch.xlogy(n, lam) - lam - torch.lgamma(n + 1.0)\n\n    def poisson(self"))
OC = "src/pyhf/optimize/common.py"
V("C05", "bounds-del-in-loop", "fire", "C05.R3", "bounds of fixed parameters deleted one by one with shifting indices",
  (OC, "        variable_bounds = [par_bounds[i] for i in variable_idx]\n", "        variable_bounds = list(par_bounds)\n        for i in fixed_idx:\n            del variable_bounds[i]\n"))
V("C05", "stitcher-cached-by-index", "fire", "C05.R4", "stitcher remembered per (model, fixed indices) across fits",
  (OC, "from pyhf.tensor.common import _TensorViewer\n", "from pyhf.tensor.common import _TensorViewer\n\n_stitchers = {}\n"),
  (OC, "        stitch_pars = _make_stitch_pars(tv, fixed_values)\n", "        stitch_pars = _stitchers.setdefault((id(pdf), tuple(fixed_idx)), _make_stitch_pars(tv, fixed_values))\n"))

# ------------------------------------------------------------------ VIEW (C01.R9): the index machinery
TCV, PVV = "src/pyhf/tensor/common.py", "src/pyhf/parameters/paramview.py"
V("C01", "viewer-no-argsort", "fire", "C01.R9", "stitch gathers with the target indices instead of their argsort",
  (TCV, "self._sorted_indices = default_backend.tolist(_concat_indices.argsort())", "self._sorted_indices = default_backend.tolist(_concat_indices)"))
V("C01", "viewer-split-ignores-selection", "fire", "C01.R9", "split ignores the named selection",
  (TCV, "            if selection is None\n            else [self.name_map[n] for n in selection]", "            if selection is None\n            else self.partition_indices"))
V("C01", "paramviewer-no-transpose", "fire", "C01.R9", "batched concatenated indices are not transposed to component-major",
  (PVV, "                tensorlib.einsum('ij->ji', stitched)\n                if len(tensorlib.shape(stitched)) > 1\n                else stitched", "                stitched"))
V("C01", "viewer-from-slices-off-by-one", "fire", "C01.R9", "ranges built from slices lose their last element",
  (TCV, "ranges.append(default_backend.astensor(range(sl.start, sl.stop)))", "ranges.append(default_backend.astensor(range(sl.start, sl.stop - 1)))"))
V("C01", "viewer-parmap-sorted-by-name", "silent", "", "all-parameter viewer partitions listed by name instead of slice start (named access only)",
  (PVV, "                key=lambda x: x[2],", "                key=lambda x: x[0],"))

# ------------------------------------------------------------------ C01.R10 / R11: end-to-end appliers and builders
V("C01", "nominal-builder-spec-order", "fire", "C01.R5", "nominal rates concatenated in the order samples were first seen",
  ("src/pyhf/pdf.py", "                for sample in self.config.samples\n            ]\n        )\n        _nominal_rates", "                for sample in self.mega_samples\n            ]\n        )\n        _nominal_rates"))
V("C01", "walk-spec-channel-order", "fire", "C01.R11", "builders walked in the specification's channel order",
  ("src/pyhf/pdf.py", "    for c in config.channels:\n        for s in config.samples:\n            helper_data", "    for c in [ch['name'] for ch in spec['channels']]:\n        for s in config.samples:\n            helper_data"))
V("C01", "normsys-undeclared-hi-zero", "fire", "C01.R11", "undeclared normsys cells get 0 instead of 1",
  ("src/pyhf/modifiers/normsys.py", "hi_factor = thismod['data']['hi'] if thismod else 1.0", "hi_factor = thismod['data']['hi'] if thismod else 0.0"))
V("C01", "shapesys-uncrt-undeclared-nominal", "fire", "C01.R11", "undeclared shapesys cells carry the nominal as uncertainty",
  ("src/pyhf/modifiers/shapesys.py", "uncrt = thismod['data'] if thismod else [0.0] * len(nom)", "uncrt = thismod['data'] if thismod else nom"))
V("C01", "applier-gets-all-modifiers", "fire", "C01.R11", "every applier receives the modifiers of all types",
  ("src/pyhf/pdf.py", "                x for x in config.modifiers if x[1] == k\n", "                x for x in config.modifiers\n"))
V("C01", "staterror-apply-default-zero", "fire", "C01.R10", "staterror leaves 0 instead of 1 where not declared",
  ("src/pyhf/modifiers/staterror.py", "        self.staterror_default = tensorlib.ones(tensorlib.shape(self.staterror_mask))", "        self.staterror_default = tensorlib.zeros(tensorlib.shape(self.staterror_mask))"))
V("C01", "normfactor-einsum-sum-mods", "fire", "C01.R10", "normfactor einsum sums over all normfactor parameters",
  ("src/pyhf/modifiers/normfactor.py", "                'msab,m->msab', self.normfactor_mask, normfactors", "                'msab,x->msab', self.normfactor_mask, normfactors"))
V("C01", "shapefactor-where-swapped", "fire", "C01.R10", "shapefactor where() arms swapped",
  ("src/pyhf/modifiers/shapefactor.py", "self.shapefactor_mask, results_shapefactor, self.shapefactor_default", "self.shapefactor_mask, self.shapefactor_default, results_shapefactor"))

# ------------------------------------------------------------------ C18.R5: writer composed with reader
WX, RX = "src/pyhf/writexml.py", "src/pyhf/readxml.py"
V("C18", "rt-histosys-names-crossed", "fire", "C18.R5", "histosys low histogram exported under the High name",
  (WX, "        _export_root_histogram(attrs['HistoNameLow'], modifierspec['data']['lo_data'])\n        _export_root_histogram(attrs['HistoNameHigh'], modifierspec['data']['hi_data'])", "        _export_root_histogram(attrs['HistoNameHigh'], modifierspec['data']['lo_data'])\n        _export_root_histogram(attrs['HistoNameLow'], modifierspec['data']['hi_data'])"))
V("C18", "rt-shapesys-times-uncertainty", "fire", "C18.R5", "reader rescales shapesys by the histogram error instead of the yield",
  (RX, "                'data': [a * b for a, b in zip(data, shapesys_data)],", "                'data': [a * b for a, b in zip(err, shapesys_data)],"))
V("C18", "rt-fixed-lumi-dropped", "fire", "C18.R5", "a constant luminosity is not listed in ParamSetting",
  (WX, "            if pname == 'lumi':\n                fixed_params.append('Lumi')\n            else:", "            if pname == 'lumi':\n                pass\n            else:"))
V("C18", "rt-observation-from-first-sample", "fire", "C18.R5", "Data element points at a sample histogram",
  (WX, "    histname = _make_hist_name(channelname, 'data')\n    data = ET.Element('Data', HistoName=histname,", "    histname = _make_hist_name(channelname, 'data')\n    data = ET.Element('Data', HistoName=_make_hist_name(channelname, 's1'),"))
V("C18", "rt-normfactor-val-from-low", "fire", "C18.R5", "reader takes the normfactor start value from Low",
  (RX, "                'inits': [float(modtag.attrib['Val'])],", "                'inits': [float(modtag.attrib['Low'])],"))
V("C18", "rt-attr-order", "silent", "", "Sample attributes listed in another order",
  (WX, "        'Name': samplespec['name'],\n        'HistoName': histname,", "        'HistoName': histname,\n        'Name': samplespec['name'],"))

# ------------------------------------------------------------------ C01.R10: interpolating appliers end to end
V("C01", "normsys-histoset-lo-hi-swapped", "fire", "C01.R10", "normsys hands (hi, nom, lo) to the interpolator",
  ("src/pyhf/modifiers/normsys.py", "                    builder_data[m][s]['data']['lo'],\n                    builder_data[m][s]['data']['nom_data'],\n                    builder_data[m][s]['data']['hi'],", "                    builder_data[m][s]['data']['hi'],\n                    builder_data[m][s]['data']['nom_data'],\n                    builder_data[m][s]['data']['lo'],"))
V("C01", "histosys-default-ones", "fire", "C01.R10", "histosys leaves 1 instead of 0 where not declared",
  ("src/pyhf/modifiers/histosys.py", "self.histosys_default = tensorlib.zeros(self.histosys_mask.shape)", "self.histosys_default = tensorlib.ones(self.histosys_mask.shape)"))
V("C01", "rate-sum-wrong-axis", "fire", "C01.R12", "samples summed along the batch axis",
  ("src/pyhf/pdf.py", "        newresults = tensorlib.sum(newbysample, axis=0)", "        newresults = tensorlib.sum(newbysample, axis=1)"))
V("C01", "rate-clip-bin-before-sum", "fire", "C01.R12", "bin clip applied to the per-sample rates",
  ("src/pyhf/pdf.py", "        newresults = tensorlib.sum(newbysample, axis=0)\n        if self.clip_bin_data is not None:\n            newresults = tensorlib.clip(newresults, self.clip_bin_data, max_value=None)", "        if self.clip_bin_data is not None:\n            newbysample = tensorlib.clip(newbysample, self.clip_bin_data, max_value=None)\n        newresults = tensorlib.sum(newbysample, axis=0)"))
V("C01", "rate-bysample-no-swap", "fire", "C01.R12", "by-sample result keeps the sample axis first",
  ("src/pyhf/pdf.py", "            batch_first = tensorlib.einsum('ij...->ji...', newbysample)", "            batch_first = newbysample"))

V("C20", "histosys-append-check-removed", "fire", "C20.R4", "histosys loses its per-channel length check",
  (MD + "histosys.py", "        if thismod and not (\n            len(thismod['data']['lo_data']) == len(thismod['data']['hi_data']) == len(nom)\n        ):", "        if False:"))
V("C20", "inits-cast-before-length-check", "fire", "C20.R6", "inits overrides are converted before (and instead of) the length check",
  ("src/pyhf/parameters/utils.py", "            elif isinstance(v, list) and default_v and len(v) != len(default_v):", "            elif k == 'inits' and isinstance(v, list):\n                v = [float(x) for x in v]\n            elif isinstance(v, list) and default_v and len(v) != len(default_v):"))

# ------------------------------------------------------------------ round 3: interpreted rules
ULF = "src/pyhf/infer/intervals/upper_limits.py"
V("C09", "grid-drops-last-point", "fire", "C09.R5", "the interpolation ignores the last grid point",
  (ULF, "    limits = [_interp(level, result_array[idx][::-1], scan[::-1]) for idx in range(6)]", "    limits = [_interp(level, result_array[idx][:-1][::-1], scan[:-1][::-1]) for idx in range(6)]"))
V("C09", "grid-options-dropped", "fire", "C09.R5", "grid hypotests lose the caller's options",
  (ULF, "        hypotest(mu, data, model, return_expected_set=True, **hypotest_kwargs)\n        for mu in scan", "        hypotest(mu, data, model, return_expected_set=True)\n        for mu in scan"))
V("C09", "auto-pops-option", "fire", "C09.R6", "upper_limit consumes an option instead of passing it on",
  (ULF, "    bounds = model.config.suggested_bounds()[", "    hypotest_kwargs.pop('par_bounds', None)\n    bounds = model.config.suggested_bounds()["))
V("C09", "auto-cache-per-model", "fire", "C09.R6", "results of the automatic scan remembered per model object",
  (ULF, "def _interp(x, xp, fp):", "_RESULTS = {}\n\n\ndef _interp(x, xp, fp):"),
  (ULF, "    cache = {}\n\n    def f_cached(poi):", "    cache = _RESULTS.setdefault(id(model), {})\n\n    def f_cached(poi):"))
V("C09", "grid-list-comprehension-renamed", "silent", "", "loop variable of the grid scan renamed",
  (ULF, "        hypotest(mu, data, model, return_expected_set=True, **hypotest_kwargs)\n        for mu in scan", "        hypotest(poi_value, data, model, return_expected_set=True, **hypotest_kwargs)\n        for poi_value in scan"))
PSF = "src/pyhf/patchset.py"
V("C17", "getitem-falsy-patch", "fire", "C17.R6", "lookup treats an empty patch as missing",
  (PSF, "        try:\n            return self._patches_by_key[key]\n        except KeyError:\n            raise exceptions.InvalidPatchLookup(\n                f'No patch associated with \"{key}\" is defined in patchset.'\n            )", "        patch = self._patches_by_key.get(key)\n        if not patch:\n            raise exceptions.InvalidPatchLookup(\n                f'No patch associated with \"{key}\" is defined in patchset.'\n            )\n        return patch"))
V("C17", "getitem-get-is-none", "silent", "", "lookup rewritten with .get and an `is None` test",
  (PSF, "        try:\n            return self._patches_by_key[key]\n        except KeyError:\n            raise exceptions.InvalidPatchLookup(\n                f'No patch associated with \"{key}\" is defined in patchset.'\n            )", "        patch = self._patches_by_key.get(key)\n        if patch is None:\n            raise exceptions.InvalidPatchLookup(\n                f'No patch associated with \"{key}\" is defined in patchset.'\n            )\n        return patch"))
V("C17", "verify-remembers-object", "fire", "C17.R6", "verification remembered per workspace object",
  (PSF, "        for hash_alg, digest in self.digests.items():", "        if getattr(self, '_verified', None) is spec:\n            return\n        self._verified = spec\n        for hash_alg, digest in self.digests.items():"))
V("C17", "digest-keys-unsorted-in-lists", "fire", "C17.R6", "digest sorts top-level keys only",
  ("src/pyhf/utils.py", "        stringified = json.dumps(obj, sort_keys=True, ensure_ascii=False).encode('utf8')", "        stringified = json.dumps({k: obj[k] for k in sorted(obj)} if isinstance(obj, dict) else obj, ensure_ascii=False).encode('utf8')"))
CAL = "src/pyhf/infer/calculators.py"
V("C14", "empirical-strict-inequality", "fire", "C14.R1", "ties are not counted in the tail fraction",
  (CAL, "                    self.samples >= value, tensorlib.astensor(1), tensorlib.astensor(0)", "                    self.samples > value, tensorlib.astensor(1), tensorlib.astensor(0)"))
V("C14", "empirical-drops-infinite", "fire", "C14.R1", "infinite statistics are filtered out of the sample",
  (CAL, "        self.samples = tensorlib.ravel(samples)", "        samples = tensorlib.ravel(samples)\n        self.samples = tensorlib.boolean_mask(samples, tensorlib.isfinite(samples))"))
V("C14", "toy-clb-floored", "fire", "C14.R1", "CLb floored at one toy and returned",
  (CAL, "        CLb = bkg_only_distribution.pvalue(teststat)\n        CLs = tensorlib.astensor(CLsb / CLb)\n        return CLsb, CLb, CLs\n\n    def expected_pvalues(self, sig_plus_bkg_distribution, bkg_only_distribution):\n        r\"\"\"\n        Calculate the :math:`\\mathrm{CL}_{s}` values corresponding to the\n        median significance of variations of the signal strength from the\n        background only hypothesis :math:`\\left(\\mu=0\\right)` at\n        :math:`(-2,-1,0,1,2)\\sigma`.\n\n        Example:\n\n            >>> import pyhf\n            >>> import numpy.random as random", "        CLb = bkg_only_distribution.pvalue(teststat)\n        CLb = tensorlib.where(CLb > 0, CLb, tensorlib.astensor(1.0 / tensorlib.shape(bkg_only_distribution.samples)[0]))\n        CLs = tensorlib.astensor(CLsb / CLb)\n        return CLsb, CLb, CLs\n\n    def expected_pvalues(self, sig_plus_bkg_distribution, bkg_only_distribution):\n        r\"\"\"\n        Calculate the :math:`\\mathrm{CL}_{s}` values corresponding to the\n        median significance of variations of the signal strength from the\n        background only hypothesis :math:`\\left(\\mu=0\\right)` at\n        :math:`(-2,-1,0,1,2)\\sigma`.\n\n        Example:\n\n            >>> import pyhf\n            >>> import numpy.random as random"))
V("C12", "channel-slices-listing-order", "fire", "C12.R8", "channel slices accumulated in listing order",
  ("src/pyhf/mixins.py", "        for c in self._channels:\n            end = begin + self._channel_nbins[c]", "        for c in [ch['name'] for ch in channels]:\n            end = begin + self._channel_nbins[c]"))
V("C12", "samples-not-deduplicated", "fire", "C12.R8", "sample summary keeps repeated names",
  ("src/pyhf/mixins.py", "        self._samples = sorted(list(set(self._samples)))", "        self._samples = sorted(self._samples)"))
V("C10", "parfield-par-order", "fire", "C10.R5", "parameter field sized by the number of parameter sets",
  ("src/pyhf/modifiers/lumi.py", "            (self.batch_size, pdfconfig.npars)\n            if self.batch_size\n            else (pdfconfig.npars,)", "            (self.batch_size, len(pdfconfig.par_order))\n            if self.batch_size\n            else (len(pdfconfig.par_order),)"))
V("C11", "backend-recreated-after-test", "silent", "", "a second, redundant re-creation of the backend object after the change test (the first one already made the precisions agree)",
  ("src/pyhf/tensor/manager.py", "    # set new backend\n    this.state['current'] = (new_backend, new_optimizer)", "    if precision is not None and new_backend.precision != precision:\n        new_backend = getattr(BackendRetriever, f\"{new_backend.name:s}_backend\")(**backend_kwargs)\n    # set new backend\n    this.state['current'] = (new_backend, new_optimizer)"))
OSC, OMI = "src/pyhf/optimize/opt_scipy.py", "src/pyhf/optimize/opt_minuit.py"
V("C05", "scipy-options-setdefault", "fire", "C05.R3", "per-call solver options written into the optimizer's defaults",
  (OSC, "        if options:\n            raise exceptions.Unsupported(", "        solver_options.setdefault('maxiter', maxiter)\n        if options:\n            raise exceptions.Unsupported("))
V("C05", "minuit-start-clamped", "fire", "C05.R3", "Minuit start values clamped inside the bounds, constant parameters included",
  (OMI, "        minuit = iminuit.Minuit(wrapped_objective, init_pars, grad=jac, name=par_names)", "        init_pars = [min(max(v, lo + 1e-4 * (hi - lo)), hi - 1e-4 * (hi - lo)) for v, (lo, hi) in zip(init_pars, init_bounds)]\n        minuit = iminuit.Minuit(wrapped_objective, init_pars, grad=jac, name=par_names)"))
V("C05", "fit-all-false-mask", "fire", "C05.R1", "an all-False mask is treated as no mask",
  ("src/pyhf/infer/mle.py", "    fixed_params = fixed_params or pdf.config.suggested_fixed()", "    fixed_params = fixed_params if (fixed_params is not None and any(fixed_params)) else pdf.config.suggested_fixed()"))
V("C05", "fixed-poi-fit-memo-per-model", "fire", "C05.R1", "plain fixed-POI fits remembered per (model, data, POI value): not redone after set_poi / changed suggestions",
  ("src/pyhf/infer/mle.py", '__all__ = ["fit", "fixed_poi_fit", "twice_nll"]\n', '__all__ = ["fit", "fixed_poi_fit", "twice_nll"]\n_PLAIN_FITS = {}\n'),
  ("src/pyhf/infer/mle.py", "    init_pars = [*(init_pars or pdf.config.suggested_init())]\n    fixed_params = [*(fixed_params or pdf.config.suggested_fixed())]\n", "    plain = init_pars is None and par_bounds is None and fixed_params is None and not kwargs\n    if plain and (id(pdf), id(data), float(poi_val)) in _PLAIN_FITS:\n        return _PLAIN_FITS[(id(pdf), id(data), float(poi_val))]\n    init_pars = [*(init_pars or pdf.config.suggested_init())]\n    fixed_params = [*(fixed_params or pdf.config.suggested_fixed())]\n"),
  ("src/pyhf/infer/mle.py", "    return fit(data, pdf, init_pars, par_bounds, fixed_params, **kwargs)\n", "    result = fit(data, pdf, init_pars, par_bounds, fixed_params, **kwargs)\n    if plain:\n        _PLAIN_FITS[(id(pdf), id(data), float(poi_val))] = result\n    return result\n"))
V("C05", "fixed-poi-fit-list-copies", "silent", "", "fixed_poi_fit copies the defaults with list() instead of unpacking",
  ("src/pyhf/infer/mle.py", "    init_pars = [*(init_pars or pdf.config.suggested_init())]\n    fixed_params = [*(fixed_params or pdf.config.suggested_fixed())]\n", "    init_pars = list(init_pars or pdf.config.suggested_init())\n    fixed_params = list(fixed_params or pdf.config.suggested_fixed())\n"))
V("C13", "minuit-jac-takes-value", "fire", "C13.R6", "Minuit's gradient function returns element 0 (the value) of the shim's pair",
  ("src/pyhf/optimize/opt_minuit.py", "jac = lambda pars: objective_and_grad(pars)[1]", "jac = lambda pars: objective_and_grad(pars)[0]"))
V("C13", "minuit-cost-halved", "fire", "C13.R6", "Minuit minimises half the objective while being given the full gradient",
  ("src/pyhf/optimize/opt_minuit.py", "wrapped_objective = lambda pars: objective_and_grad(pars)[0]  # noqa: E731", "wrapped_objective = lambda pars: 0.5 * objective_and_grad(pars)[0]  # noqa: E731"))
V("C13", "minuit-numeric-gradient", "silent", "", "Minuit is given no gradient function (it differentiates the cost numerically): nothing wrong is handed over",
  ("src/pyhf/optimize/opt_minuit.py", "            jac = lambda pars: objective_and_grad(pars)[1]  # noqa: E731", "            jac = None"))
V("C13", "scipy-jac-always-true", "fire", "C13.R6", "scipy told the objective returns a gradient in every mode",
  ("src/pyhf/optimize/opt_scipy.py", "jac=do_grad,", "jac=True,"))
V("C13", "mixin-gradient-projected-at-bounds", "fire", "C13.R6", "gradient components pushing against an active bound are zeroed between shim and minimiser",
  ("src/pyhf/optimize/mixins.py", "        minimizer = self._get_minimizer(\n            func,", "        if do_grad and bounds is not None:\n            inner = func\n\n            def func(pars):\n                value, grad = inner(pars)\n                grad = [0.0 if ((p <= lo and g > 0) or (p >= hi and g < 0)) else g for p, g, (lo, hi) in zip(pars, grad, bounds)]\n                return value, grad\n\n        minimizer = self._get_minimizer(\n            func,"))
V("C13", "mixin-passthrough-wrapper", "silent", "", "a wrapper between shim and minimiser that returns the wrapped value and gradient unchanged",
  ("src/pyhf/optimize/mixins.py", "        minimizer = self._get_minimizer(\n            func,", "        inner = func\n\n        def func(pars):\n            return inner(pars)\n\n        minimizer = self._get_minimizer(\n            func,"))
V("C13", 'model-eq-by-spec-content', 'fire', 'C13.R7', 'models compare (and hash) equal when their specifications are equal: the jit cache is shared between differently configured models',
  ("src/pyhf/pdf.py", '    @property\n    def config(self):\n        """\n        The :class:`_ModelConfig` instance for the model.', '    def __eq__(self, other):\n        if not isinstance(other, Model):\n            return NotImplemented\n        return self.batch_size == other.batch_size and self.spec == other.spec\n\n    def __hash__(self):\n        return hash(self.batch_size)\n\n    @property\n    def config(self):\n        """\n        The :class:`_ModelConfig` instance for the model.'))
V("C13", 'model-eq-identity', 'silent', '', 'an explicit __eq__ that is identity',
  ("src/pyhf/pdf.py", '    @property\n    def config(self):\n        """\n        The :class:`_ModelConfig` instance for the model.', '    def __eq__(self, other):\n        return self is other\n\n    def __hash__(self):\n        return id(self)\n\n    @property\n    def config(self):\n        """\n        The :class:`_ModelConfig` instance for the model.'))
V("C13", 'model-eq-complete', 'silent', '', 'an __eq__ that also compares interpolation settings and both clipping options',
  ("src/pyhf/pdf.py", '    @property\n    def config(self):\n        """\n        The :class:`_ModelConfig` instance for the model.', '    def __eq__(self, other):\n        if not isinstance(other, Model):\n            return NotImplemented\n        return (\n            self.batch_size == other.batch_size\n            and self.spec == other.spec\n            and self.config.modifier_settings == other.config.modifier_settings\n            and self.main_model.clip_sample_data == other.main_model.clip_sample_data\n            and self.main_model.clip_bin_data == other.main_model.clip_bin_data\n            and self.config.poi_name == other.config.poi_name\n        )\n\n    def __hash__(self):\n        return hash(self.batch_size)\n\n    @property\n    def config(self):\n        """\n        The :class:`_ModelConfig` instance for the model.'))
V("C09", 'toy-band-table-reversed', 'fire', 'C09.R7', 'toy percentile table listed from +2 to -2 sigma',
  ('src/pyhf/infer/calculators.py', '        normal_percentiles = tb.astensor(\n            [2.27501319, 15.86552539, 50.0, 84.13447461, 97.72498681]\n        )\n', '        normal_percentiles = tb.astensor(\n            [97.72498681, 84.13447461, 50.0, 15.86552539, 2.27501319]\n        )\n'))
V("C09", 'toy-band-computed-ascending', 'silent', '', 'toy percentile ranks computed as 100*Phi(-2..2)',
  ('src/pyhf/infer/calculators.py', '        normal_percentiles = tb.astensor(\n            [2.27501319, 15.86552539, 50.0, 84.13447461, 97.72498681]\n        )\n', '        normal_percentiles = 100.0 * tb.normal_cdf(tb.astensor([-2.0, -1.0, 0.0, 1.0, 2.0]))\n'))
V("C09", 'toy-band-one-sigma-rank-off', 'fire', 'C09.R7', 'the -1 sigma percentile rank replaced by 25',
  ('src/pyhf/infer/calculators.py', '        normal_percentiles = tb.astensor(\n            [2.27501319, 15.86552539, 50.0, 84.13447461, 97.72498681]\n        )\n', '        normal_percentiles = tb.astensor(\n            [2.27501319, 25.0, 50.0, 84.13447461, 97.72498681]\n        )\n'))
V("C09", 'toy-band-not-transposed', 'fire', 'C09.R7', 'percentile result returned without the transpose (five rows of three)',
  ('src/pyhf/infer/calculators.py', '        pvalues_exp_band = tb.transpose(\n            tb.percentile(pvalues, normal_percentiles, axis=0)\n        )\n', '        pvalues_exp_band = tb.percentile(pvalues, normal_percentiles, axis=0)\n'))
V('C10', 'viewer-split-remembered-by-identity', 'fire', 'C10.R6', 'batched split remembers the last array object and its parts',
  ('src/pyhf/tensor/common.py', '        if self.names:\n            self.name_map = dict(zip(self.names, self.partition_indices))\n', '        if self.names:\n            self.name_map = dict(zip(self.names, self.partition_indices))\n        self._last_split = (None, None)\n'),
  ('src/pyhf/tensor/common.py', "        data = tensorlib.einsum('...j->j...', tensorlib.astensor(data))\n        return [\n            tensorlib.einsum('j...->...j', tensorlib.gather(data, idx))\n            for idx in indices\n        ]\n", "        if selection is None and data is self._last_split[0]:\n            return self._last_split[1]\n        transposed = tensorlib.einsum('...j->j...', tensorlib.astensor(data))\n        parts = [\n            tensorlib.einsum('j...->...j', tensorlib.gather(transposed, idx))\n            for idx in indices\n        ]\n        if selection is None:\n            self._last_split = (data, parts)\n        return parts\n"))
V('C10', 'viewer-split-local-rename', 'silent', '', 'batched split with the transposed tensor in its own local',
  ('src/pyhf/tensor/common.py', "        data = tensorlib.einsum('...j->j...', tensorlib.astensor(data))\n        return [\n            tensorlib.einsum('j...->...j', tensorlib.gather(data, idx))\n            for idx in indices\n        ]\n", "        transposed = tensorlib.einsum('...j->j...', tensorlib.astensor(data))\n        parts = [\n            tensorlib.einsum('j...->...j', tensorlib.gather(transposed, idx))\n            for idx in indices\n        ]\n        return parts\n"))
V('C10', 'widths-one-row-and-jax-sample-from-scale', 'fire', 'C10.R7', "constraint widths kept as one broadcasting row AND the jax sampler sized from the widths' shape",
  ('src/pyhf/constraints.py', '                sigmas = default_backend.reshape(_normal_sigmas, (1, -1))\n                self._sigmas = default_backend.tile(sigmas, (self.batch_size, 1))\n', '                self._sigmas = default_backend.reshape(_normal_sigmas, (1, -1))\n'),
  ('src/pyhf/tensor/jax_backend.py', '            osp_stats.norm(self.loc, self.scale).rvs(\n                size=sample_shape + self.loc.shape\n            ),\n', '            osp_stats.norm(self.loc, self.scale).rvs(\n                size=sample_shape + self.scale.shape\n            ),\n'))
V('C10', 'widths-one-row-and-numpy-sample-from-scale', 'fire', 'C10.R7', "constraint widths kept as one broadcasting row AND the numpy sampler sized from the widths' shape",
  ('src/pyhf/constraints.py', '                sigmas = default_backend.reshape(_normal_sigmas, (1, -1))\n                self._sigmas = default_backend.tile(sigmas, (self.batch_size, 1))\n', '                self._sigmas = default_backend.reshape(_normal_sigmas, (1, -1))\n'),
  ('src/pyhf/tensor/numpy_backend.py', '        return norm(self.loc, self.scale).rvs(size=sample_shape + self.loc.shape)  # type: ignore[no-any-return]\n', '        return norm(self.loc, self.scale).rvs(size=sample_shape + self.scale.shape)  # type: ignore[no-any-return]\n'))
V('C10', 'widths-one-row-only', 'silent', '', 'constraint widths kept as one broadcasting row (samplers size from the means)',
  ('src/pyhf/constraints.py', '                sigmas = default_backend.reshape(_normal_sigmas, (1, -1))\n                self._sigmas = default_backend.tile(sigmas, (self.batch_size, 1))\n', '                self._sigmas = default_backend.reshape(_normal_sigmas, (1, -1))\n'))
V('C10', 'jax-sample-from-scale-only', 'silent', '', "jax sampler sized from the widths' shape (widths carry every batch row)",
  ('src/pyhf/tensor/jax_backend.py', '            osp_stats.norm(self.loc, self.scale).rvs(\n                size=sample_shape + self.loc.shape\n            ),\n', '            osp_stats.norm(self.loc, self.scale).rvs(\n                size=sample_shape + self.scale.shape\n            ),\n'))
V('C10', 'numpy-reshape-order-A', 'fire', 'C10.R8', 'numpy reshape reads column-major inputs column-major',
  ('src/pyhf/tensor/numpy_backend.py', '        return np.reshape(tensor, newshape)\n', '        return np.reshape(tensor, newshape, order="A")\n'))
V('C10', 'numpy-reshape-order-C', 'silent', '', 'numpy reshape with the default order spelled out',
  ('src/pyhf/tensor/numpy_backend.py', '        return np.reshape(tensor, newshape)\n', '        return np.reshape(tensor, newshape, order="C")\n'))
V('C01', 'numpy-reshape-order-F', 'fire', 'C01.R15', 'numpy reshape in column-major order',
  ('src/pyhf/tensor/numpy_backend.py', '        return np.reshape(tensor, newshape)\n', '        return np.reshape(tensor, newshape, order="F")\n'))
V('C11', 'shim-data-not-converted', 'fire', 'C11.R8', "shim hands the caller's data to the wrappers unconverted",
  ('src/pyhf/optimize/common.py', '        objective,\n        tensorlib.astensor(data),\n        pdf,\n        stitch_pars,\n', '        objective,\n        data,\n        pdf,\n        stitch_pars,\n'))
V('C11', 'data-converted-in-jax-wrapper', 'silent', '', 'the conversion of the data moved from shim into the jax wrapper',
  ('src/pyhf/optimize/common.py', '        objective,\n        tensorlib.astensor(data),\n        pdf,\n        stitch_pars,\n', '        objective,\n        data,\n        pdf,\n        stitch_pars,\n'),
  ('src/pyhf/optimize/opt_jax.py', '    tensorlib, _ = get_backend()\n    # NB: tuple arguments that need to be hashable (static_argnums)\n', '    tensorlib, _ = get_backend()\n    data = tensorlib.astensor(data)\n    # NB: tuple arguments that need to be hashable (static_argnums)\n'))
V('C18', 'channel-xml-cached-by-path', 'fire', 'C18.R5', 'channel XML documents parsed once per path for the life of the process',
  ('src/pyhf/readxml.py', 'import logging\n', 'import functools\nimport logging\n'),
  ('src/pyhf/readxml.py', 'def extract_error(hist: uproot.behaviors.TH1.TH1) -> list[float]:\n', '@functools.lru_cache(maxsize=None)\ndef _load_channel_xml(path):\n    return ET.parse(path)\n\n\ndef extract_error(hist: uproot.behaviors.TH1.TH1) -> list[float]:\n'),
  ('src/pyhf/readxml.py', '            ET.parse(resolver(inp)), resolver, track_progress\n', '            _load_channel_xml(resolver(inp)), resolver, track_progress\n'))
V('C18', 'channel-xml-helper-uncached', 'silent', '', 'channel XML documents parsed through a helper without a cache',
  ('src/pyhf/readxml.py', 'def extract_error(hist: uproot.behaviors.TH1.TH1) -> list[float]:\n', 'def _load_channel_xml(path):\n    return ET.parse(path)\n\n\ndef extract_error(hist: uproot.behaviors.TH1.TH1) -> list[float]:\n'),
  ('src/pyhf/readxml.py', '            ET.parse(resolver(inp)), resolver, track_progress\n', '            _load_channel_xml(resolver(inp)), resolver, track_progress\n'))
V('C18', 'writer-wraps-long-text', 'fire', 'C18.R5', 'the pretty-printer wraps long element text; the reader splits on single blanks',
  ('src/pyhf/writexml.py', 'import shutil\n', 'import shutil\nimport textwrap\n'),
  ('src/pyhf/writexml.py', '        if not elem.text or not elem.text.strip():\n            elem.text = i + "  "\n        if not elem.tail or not elem.tail.strip():\n            elem.tail = i\n        for subelem in elem:\n', '        if not elem.text or not elem.text.strip():\n            elem.text = i + "  "\n        elif len(elem) == 0 and len(elem.text) > 120:\n            elem.text = textwrap.fill(elem.text, width=120, break_long_words=False, break_on_hyphens=False)\n        if not elem.tail or not elem.tail.strip():\n            elem.tail = i\n        for subelem in elem:\n'))
V('C18', 'writer-wraps-reader-splits-on-whitespace', 'silent', '', 'the pretty-printer wraps long element text and the reader splits on any whitespace',
  ('src/pyhf/writexml.py', 'import shutil\n', 'import shutil\nimport textwrap\n'),
  ('src/pyhf/writexml.py', '        if not elem.text or not elem.text.strip():\n            elem.text = i + "  "\n        if not elem.tail or not elem.tail.strip():\n            elem.tail = i\n        for subelem in elem:\n', '        if not elem.text or not elem.text.strip():\n            elem.text = i + "  "\n        elif len(elem) == 0 and len(elem.text) > 120:\n            elem.text = textwrap.fill(elem.text, width=120, break_long_words=False, break_on_hyphens=False)\n        if not elem.tail or not elem.tail.strip():\n            elem.tail = i\n        for subelem in elem:\n'),
  ('src/pyhf/readxml.py', "                for param_name in param.text.strip().split(' '):\n", '                for param_name in param.text.split():\n'))
V('C17', 'resolver-memoised-per-schema-name', 'fire', 'C17.R7', 'the reference resolver is built once per (schema, version) and keeps the schema directory of its first use',
  ('src/pyhf/schema/validator.py', 'import numbers\n', 'import functools\nimport numbers\n'),
  ('src/pyhf/schema/validator.py', 'def validate(\n    spec: Mapping,\n', '@functools.lru_cache(maxsize=None)\ndef _get_resolver(schema_name, version):\n    return jsonschema.RefResolver(\n        base_uri=f"{Path(variables.schemas).joinpath(version).as_uri()}/",\n        referrer=schema_name,\n        store=variables.SCHEMA_CACHE,\n    )\n\n\ndef validate(\n    spec: Mapping,\n'),
  ('src/pyhf/schema/validator.py', '    resolver = jsonschema.RefResolver(\n        base_uri=f"{Path(variables.schemas).joinpath(version).as_uri()}/",\n        referrer=schema_name,\n        store=variables.SCHEMA_CACHE,\n    )\n', '    resolver = _get_resolver(schema_name, version)\n'))
V('C17', 'base-uri-helper-memoised-on-its-arguments', 'silent', '', 'a memoised helper that computes the base URI from its arguments alone',
  ('src/pyhf/schema/validator.py', 'import numbers\n', 'import functools\nimport numbers\n'),
  ('src/pyhf/schema/validator.py', 'def validate(\n    spec: Mapping,\n', '@functools.lru_cache(maxsize=None)\ndef _base_uri(schemas, version):\n    return f"{Path(schemas).joinpath(version).as_uri()}/"\n\n\ndef validate(\n    spec: Mapping,\n'),
  ('src/pyhf/schema/validator.py', '    resolver = jsonschema.RefResolver(\n        base_uri=f"{Path(variables.schemas).joinpath(version).as_uri()}/",\n        referrer=schema_name,\n        store=variables.SCHEMA_CACHE,\n    )\n', '    resolver = jsonschema.RefResolver(\n        base_uri=_base_uri(variables.schemas, version),\n        referrer=schema_name,\n        store=variables.SCHEMA_CACHE,\n    )\n'))
V('C11', 'band-sigmas-memoised-as-backend-tensor', 'fire', 'C11.R9', 'the N-sigma list of the expected band is built once as a tensor of the backend current at that time',
  ('src/pyhf/infer/calculators.py', 'import logging\n', 'import functools\nimport logging\n'),
  ('src/pyhf/infer/calculators.py', '@dataclass(frozen=True)\nclass HypoTestFitResults:', '@functools.lru_cache(maxsize=None)\ndef _band_sigmas():\n    tensorlib, _ = get_backend()\n    return [tensorlib.astensor(n) for n in (2, 1, 0, -1, -2)]\n\n\n@dataclass(frozen=True)\nclass HypoTestFitResults:'),
  ('src/pyhf/infer/calculators.py', '                            for n_sigma in [2, 1, 0, -1, -2]\n', '                            for n_sigma in _band_sigmas()\n'))
V('C11', 'band-sigmas-memoised-as-plain-tuple', 'silent', '', 'the N-sigma list of the expected band memoised as plain python numbers',
  ('src/pyhf/infer/calculators.py', 'import logging\n', 'import functools\nimport logging\n'),
  ('src/pyhf/infer/calculators.py', '@dataclass(frozen=True)\nclass HypoTestFitResults:', '@functools.lru_cache(maxsize=None)\ndef _band_sigmas():\n    return (2, 1, 0, -1, -2)\n\n\n@dataclass(frozen=True)\nclass HypoTestFitResults:'),
  ('src/pyhf/infer/calculators.py', '                            for n_sigma in [2, 1, 0, -1, -2]\n', '                            for n_sigma in _band_sigmas()\n'))
V('C16', 'observations-class-level-dict', 'fire', 'C16.R7', 'observations declared with a class-level default and filled through self',
  ('src/pyhf/workspace.py', "    valid_joins: ClassVar[list[str]] = ['none', 'outer', 'left outer', 'right outer']\n", "    valid_joins: ClassVar[list[str]] = ['none', 'outer', 'left outer', 'right outer']\n    observations: dict = {}\n"),
  ('src/pyhf/workspace.py', "        self.observations = {}\n        for obs in self['observations']:\n", "        for obs in self['observations']:\n"))
V('C16', 'observations-class-level-default-and-instance-dict', 'silent', '', 'observations declared with a class-level default but still given a fresh dict per instance',
  ('src/pyhf/workspace.py', "    valid_joins: ClassVar[list[str]] = ['none', 'outer', 'left outer', 'right outer']\n", "    valid_joins: ClassVar[list[str]] = ['none', 'outer', 'left outer', 'right outer']\n    observations: dict = {}\n"))
V('C16', 'data-accumulates-into-first-observation', 'fire', 'C16.R7', "data() concatenates in place starting from the first channel's stored observation",
  ('src/pyhf/workspace.py', '                operator.iadd, (self.observations[c] for c in model.config.channels), []\n', '                operator.iadd, (self.observations[c] for c in model.config.channels)\n'))
V('C20', 'lumi-placeholders-sized-tuples', 'fire', 'C20.R5', "the luminosity requirement's unset markers become one-element tuples holding None",
  ('src/pyhf/modifiers/lumi.py', "        'inits': None,  # lumi\n        'bounds': None,  # (0, 10*lumi)\n        'fixed': False,\n        'auxdata': None,  # lumi\n        'sigmas': None,  # lumi * lumirelerror\n", "        'inits': (None,),  # lumi\n        'bounds': (None,),  # (0, 10*lumi)\n        'fixed': False,\n        'auxdata': (None,),  # lumi\n        'sigmas': (None,),  # lumi * lumirelerror\n"))
V('C20', 'lumi-placeholders-through-a-name', 'silent', '', "the luminosity requirement's unset markers spelled through a local name",
  ('src/pyhf/modifiers/lumi.py', 'def required_parset(sample_data, modifier_data):\n    return {\n', 'def required_parset(sample_data, modifier_data):\n    unset = None\n    return {\n'),
  ('src/pyhf/modifiers/lumi.py', "        'inits': None,  # lumi\n        'bounds': None,  # (0, 10*lumi)\n        'fixed': False,\n        'auxdata': None,  # lumi\n        'sigmas': None,  # lumi * lumirelerror\n", "        'inits': unset,  # lumi\n        'bounds': unset,  # (0, 10*lumi)\n        'fixed': False,\n        'auxdata': unset,  # lumi\n        'sigmas': unset,  # lumi * lumirelerror\n"))
V('C20', 'schema-accepts-tuples-as-arrays', 'fire', 'C20.R7', "the schema's array type accepts tuples; the merge takes tuples for defaults",
  ('src/pyhf/schema/validator.py', '    return isinstance(instance, (list, *tensor.array_types))\n', '    return isinstance(instance, (list, tuple, *tensor.array_types))\n'))
V('C20', 'schema-accepts-tuples-and-merge-checks-user-tuples', 'silent', '', "the schema's array type accepts tuples and the merge length-checks every user-supplied sequence",
  ('src/pyhf/schema/validator.py', '    return isinstance(instance, (list, *tensor.array_types))\n', '    return isinstance(instance, (list, tuple, *tensor.array_types))\n'),
  ('src/pyhf/parameters/utils.py', '            if isinstance(v, tuple):\n                v = list(v)\n', "            if k in paramset_user_configs and isinstance(v, (list, tuple)) and default_v and default_v != 'undefined' and len(v) != len(default_v):\n                raise exceptions.InvalidModel(\n                    f'Incorrect number of values ({len(v)}) for {k} were configured by you, expected {len(default_v)}.'\n                )\n            if isinstance(v, tuple):\n                v = list(v)\n"))
V('C17', 'schema-values-unique-items', 'fire', 'C17.R8', 'patch value tuples must have pairwise different coordinates',
  ('src/pyhf/schemas/1.0.0/defs.json', '                                "items": {\n                                    "anyOf": [{"type": "number"}, {"type": "string"}]\n                                }\n', '                                "items": {\n                                    "anyOf": [{"type": "number"}, {"type": "string"}]\n                                },\n                                "uniqueItems": true\n'))
V('C17', 'schema-values-described', 'silent', '', 'patch value tuples get a description',
  ('src/pyhf/schemas/1.0.0/defs.json', '                                "items": {\n                                    "anyOf": [{"type": "number"}, {"type": "string"}]\n                                }\n', '                                "items": {\n                                    "anyOf": [{"type": "number"}, {"type": "string"}]\n                                },\n                                "description": "coordinates of the signal point"\n'))
V('C17', 'schema-values-nonnegative', 'fire', 'C17.R8', 'patch value coordinates must be non-negative',
  ('src/pyhf/schemas/1.0.0/defs.json', '                                "items": {\n                                    "anyOf": [{"type": "number"}, {"type": "string"}]\n                                }\n', '                                "items": {\n                                    "anyOf": [{"type": "number", "minimum": 0}, {"type": "string"}]\n                                }\n'))
V('C11', 'optimizer-equality-by-two-settings-and-kept-when-unchanged', 'fire', 'C11.R7', 'optimizers equal when maxiter and verbose agree AND set_backend keeps the optimizer in use when it compares equal',
  ('src/pyhf/optimize/mixins.py', '    def _internal_minimize(\n        self,\n        func,\n', '    def __eq__(self, other):\n        if type(self) is not type(other):\n            return NotImplemented\n        return all(getattr(self, setting) == getattr(other, setting) for setting in OptimizerMixin.__slots__)\n\n    __hash__ = object.__hash__\n\n    def _internal_minimize(\n        self,\n        func,\n'),
  ('src/pyhf/tensor/manager.py', "    # set new backend\n    this.state['current'] = (new_backend, new_optimizer)\n", "    # set new backend\n    if not optimizer_changed:\n        new_optimizer = this.state['current'][1]\n    this.state['current'] = (new_backend, new_optimizer)\n"))
V('C19', 'optimizer-equality-by-two-settings-and-kept-when-unchanged', 'fire', 'C19.R5', 'optimizers equal when maxiter and verbose agree AND set_backend keeps the optimizer in use when it compares equal',
  ('src/pyhf/optimize/mixins.py', '    def _internal_minimize(\n        self,\n        func,\n', '    def __eq__(self, other):\n        if type(self) is not type(other):\n            return NotImplemented\n        return all(getattr(self, setting) == getattr(other, setting) for setting in OptimizerMixin.__slots__)\n\n    __hash__ = object.__hash__\n\n    def _internal_minimize(\n        self,\n        func,\n'),
  ('src/pyhf/tensor/manager.py', "    # set new backend\n    this.state['current'] = (new_backend, new_optimizer)\n", "    # set new backend\n    if not optimizer_changed:\n        new_optimizer = this.state['current'][1]\n    this.state['current'] = (new_backend, new_optimizer)\n"))
V('C11', 'optimizer-kept-when-unchanged-only', 'silent', '', 'set_backend keeps the optimizer in use when it compares equal (optimizers compare by identity)',
  ('src/pyhf/tensor/manager.py', "    # set new backend\n    this.state['current'] = (new_backend, new_optimizer)\n", "    # set new backend\n    if not optimizer_changed:\n        new_optimizer = this.state['current'][1]\n    this.state['current'] = (new_backend, new_optimizer)\n"))
V('C11', 'optimizer-equality-only', 'silent', '', 'optimizers equal when maxiter and verbose agree (set_backend installs the new object regardless)',
  ('src/pyhf/optimize/mixins.py', '    def _internal_minimize(\n        self,\n        func,\n', '    def __eq__(self, other):\n        if type(self) is not type(other):\n            return NotImplemented\n        return all(getattr(self, setting) == getattr(other, setting) for setting in OptimizerMixin.__slots__)\n\n    __hash__ = object.__hash__\n\n    def _internal_minimize(\n        self,\n        func,\n'))
V('C14', 'test-stat-names-case-insensitive', 'fire', 'C14.R2', 'statistic names looked up case-insensitively; the toy calculator compares the raw name',
  ('src/pyhf/infer/utils.py', '        return _mapping[name]\n', '        return _mapping[str(name).lower()]\n'))
V('C14', 'test-stat-names-case-insensitive-everywhere', 'silent', '', 'statistic names looked up case-insensitively and the toy calculator compares the lower-cased name',
  ('src/pyhf/infer/utils.py', '        return _mapping[name]\n', '        return _mapping[str(name).lower()]\n'),
  ('src/pyhf/infer/calculators.py', "            1.0 if self.test_stat == 'q0' else 0.0,\n", "            1.0 if str(self.test_stat).lower() == 'q0' else 0.0,\n"))
V('C20', 'model-writes-poi-override-into-measurement', 'fire', 'C20.R8', 'Workspace.model stores an explicit poi_name in the measurement it was read from',
  ('src/pyhf/workspace.py', "        config_kwargs.setdefault('poi_name', measurement['config']['poi'])\n", "        if 'poi_name' in config_kwargs:\n            measurement['config']['poi'] = config_kwargs.pop('poi_name') or ''\n"),
  ('src/pyhf/workspace.py', '        return Model(modelspec, **config_kwargs)\n', "        return Model(modelspec, poi_name=measurement['config']['poi'], **config_kwargs)\n"))
V('C12', 'model-writes-poi-override-into-measurement', 'fire', 'C12.R12', 'Workspace.model stores an explicit poi_name in the measurement it was read from',
  ('src/pyhf/workspace.py', "        config_kwargs.setdefault('poi_name', measurement['config']['poi'])\n", "        if 'poi_name' in config_kwargs:\n            measurement['config']['poi'] = config_kwargs.pop('poi_name') or ''\n"),
  ('src/pyhf/workspace.py', '        return Model(modelspec, **config_kwargs)\n', "        return Model(modelspec, poi_name=measurement['config']['poi'], **config_kwargs)\n"))
V('C16', 'model-writes-poi-override-into-measurement', 'fire', 'C16.R7', 'Workspace.model stores an explicit poi_name in the measurement it was read from',
  ('src/pyhf/workspace.py', "        config_kwargs.setdefault('poi_name', measurement['config']['poi'])\n", "        if 'poi_name' in config_kwargs:\n            measurement['config']['poi'] = config_kwargs.pop('poi_name') or ''\n"),
  ('src/pyhf/workspace.py', '        return Model(modelspec, **config_kwargs)\n', "        return Model(modelspec, poi_name=measurement['config']['poi'], **config_kwargs)\n"))
V('C20', 'model-poi-through-a-local', 'silent', '', 'Workspace.model resolves the POI through a local variable',
  ('src/pyhf/workspace.py', "        config_kwargs.setdefault('poi_name', measurement['config']['poi'])\n", "        poi_name = config_kwargs.pop('poi_name', measurement['config']['poi'])\n"),
  ('src/pyhf/workspace.py', '        return Model(modelspec, **config_kwargs)\n', '        return Model(modelspec, poi_name=poi_name, **config_kwargs)\n'))
V('C17', 'workspace-from-workspace-not-copied', 'fire', 'C17.R6', 'the Workspace constructor does not copy a specification that is already a Workspace',
  ('src/pyhf/workspace.py', "        spec = copy.deepcopy(spec)\n        self.schema = config_kwargs.pop('schema', 'workspace.json')\n", "        if not isinstance(spec, Workspace):\n            spec = copy.deepcopy(spec)\n        self.schema = config_kwargs.pop('schema', 'workspace.json')\n"))
V('C17', 'workspace-copy-through-a-local-name', 'silent', '', "the Workspace constructor's copy spelled with a differently named local",
  ('src/pyhf/workspace.py', "        spec = copy.deepcopy(spec)\n        self.schema = config_kwargs.pop('schema', 'workspace.json')\n", "        document = copy.deepcopy(spec)\n        spec = document\n        self.schema = config_kwargs.pop('schema', 'workspace.json')\n"))
V('C19', 'optconf-split-at-last-equals', 'fire', 'C19.R6', "--optconf split at the LAST '='",
  ('src/pyhf/utils.py', '        f"{opt.split(\'=\', 1)[0]}: {opt.split(\'=\', 1)[1]}" for opt in opts\n', '        f"{opt.rsplit(\'=\', 1)[0]}: {opt.rsplit(\'=\', 1)[1]}" for opt in opts\n'))
V('C19', 'optconf-partition', 'silent', '', '--optconf split with str.partition',
  ('src/pyhf/utils.py', '        f"{opt.split(\'=\', 1)[0]}: {opt.split(\'=\', 1)[1]}" for opt in opts\n', '        f"{opt.partition(\'=\')[0]}: {opt.split(\'=\', 1)[1]}" for opt in opts\n'))
V('C02', 'expected-data-without-aux-takes-constraint', 'fire', 'C02.R4', 'expected_data(include_auxdata=False) returns the constraint part',
  ('src/pyhf/pdf.py', '            return self.make_pdf(pars)[0].expected_data()\n', '            return self.make_pdf(pars)[1].expected_data()\n'))
V('C20', 'set-poi-accepts-two-components', 'fire', 'C20.R6', 'a two-component parameter is accepted as POI',
  ('src/pyhf/pdf.py', '        if self.param_set(name).n_parameters > 1:', '        if self.param_set(name).n_parameters > 2:'))
V('C20', 'set-poi-index-from-stop', 'silent', '', "POI index computed from the slice's end (one component)",
  ('src/pyhf/pdf.py', '        self._poi_index = self.par_slice(name).start', '        self._poi_index = self.par_slice(name).stop - 1'))
V('C01', 'settings-interpcode-popped-from-callers-dict', 'fire', 'C01.R11', "the interpolation code is POPPED out of the caller's settings object when the appliers are built",
  ('src/pyhf/pdf.py', '            **config.modifier_settings.get(k, {}),\n', "            **({'interpcode': config.modifier_settings[k].pop('interpcode')} if 'interpcode' in config.modifier_settings.get(k, {}) else {}),\n"))
V('C10', 'batch-size-stored-in-callers-settings', 'fire', 'C10.R6', "the batch size is written into the caller's settings object with setdefault",
  ('src/pyhf/pdf.py', '            batch_size=batch_size,\n            **config.modifier_settings.get(k, {}),\n', "            **{**config.modifier_settings.setdefault(k, {}), 'batch_size': config.modifier_settings.setdefault(k, {}).setdefault('batch_size', batch_size)},\n"))
V('C01', 'settings-copied-per-applier', 'silent', '', 'each applier gets a copy of its settings',
  ('src/pyhf/pdf.py', '            **config.modifier_settings.get(k, {}),\n', '            **dict(config.modifier_settings.get(k, {})),\n'))
V('C10', 'viewer-stitch-shortcut-for-ascending-first-indices', 'fire', 'C10.R6', "sized viewers skip the re-ordering when the partitions' first indices ascend",
  ('src/pyhf/tensor/common.py', "        self._precompute()\n        events.subscribe('tensorlib_changed')(self._precompute)\n", "        _offsets = [int(default_backend.astensor(idx, dtype='int')[0]) for idx in self._partition_indices if len(idx)]\n        self._ascending = _offsets == sorted(_offsets)\n        self._precompute()\n        events.subscribe('tensorlib_changed')(self._precompute)\n"),
  ('src/pyhf/tensor/common.py', '        if len(tensorlib.shape(data)) == 1:\n            stitched = tensorlib.gather(data, self.sorted_indices)\n        else:', '        if len(tensorlib.shape(data)) == 1:\n            stitched = tensorlib.gather(data, self.sorted_indices)\n        elif self.batch_size and self._ascending:\n            stitched = data\n        else:'))
V('C04', 'precision-validated-but-not-normalised', 'fire', 'C04.R10', 'the precision string is validated case-insensitively but handed on as typed',
  ('src/pyhf/tensor/manager.py', '        precision = precision.lower()\n        if precision not in _supported_precisions:', '        if precision.lower() not in _supported_precisions:'))
V('C04', 'jax-poisson-value-cast-to-rate-dtype', 'fire', 'C04.R1', "the jax Poisson object casts the observed value to the rates' dtype",
  ('src/pyhf/tensor/jax_backend.py', '        tensorlib = jax_backend()\n        return tensorlib.poisson_logpdf(value, self.rate)', '        tensorlib = jax_backend()\n        value = jnp.asarray(value, dtype=self.rate.dtype)\n        return tensorlib.poisson_logpdf(value, self.rate)'))
V('C04', 'jax-poisson-value-as-array', 'silent', '', 'the jax Poisson object turns the observed value into an array without a dtype',
  ('src/pyhf/tensor/jax_backend.py', '        tensorlib = jax_backend()\n        return tensorlib.poisson_logpdf(value, self.rate)', '        tensorlib = jax_backend()\n        value = jnp.asarray(value)\n        return tensorlib.poisson_logpdf(value, self.rate)'))
V('C17', 'mixin-sorts-the-channel-list-in-place', 'fire', 'C17.R9', 'the channel summary sorts the channel list it is given in place (a Workspace hands it its own list)',
  ('src/pyhf/mixins.py', "        for channel in channels:\n            self._channels.append(channel['name'])", "        channels.sort(key=lambda channel: channel['name'])\n        for channel in channels:\n            self._channels.append(channel['name'])"))
V('C17', 'mixin-iterates-a-sorted-copy', 'silent', '', 'the channel summary iterates a sorted COPY of the channel list',
  ('src/pyhf/mixins.py', "        for channel in channels:\n            self._channels.append(channel['name'])", "        for channel in sorted(channels, key=lambda channel: channel['name']):\n            self._channels.append(channel['name'])"))
V('C14', 'toy-distributions-kept-per-model-and-point', 'fire', 'C14.R5', 'toy distributions kept per (model, tested value, statistic, number of toys): the data are not part of the key',
  ('src/pyhf/infer/__init__.py', 'from pyhf import exceptions\n', 'from pyhf import exceptions\nfrom weakref import WeakKeyDictionary\n\n_toy_distributions = WeakKeyDictionary()\n'),
  ('src/pyhf/infer/__init__.py', '    sig_plus_bkg_distribution, bkg_only_distribution = calc.distributions(poi_test)\n', "    if calctype == 'toybased':\n        _sampled = _toy_distributions.setdefault(pdf, {})\n        _point = (float(poi_test), calc.test_stat, calc.ntoys)\n        if _point not in _sampled:\n            _sampled[_point] = calc.distributions(poi_test)\n        sig_plus_bkg_distribution, bkg_only_distribution = _sampled[_point]\n    else:\n        sig_plus_bkg_distribution, bkg_only_distribution = calc.distributions(poi_test)\n"))
V('C08', 'toy-distributions-kept-per-model-and-point', 'fire', 'C08.R6', 'toy distributions kept per (model, tested value, statistic, number of toys): the data are not part of the key',
  ('src/pyhf/infer/__init__.py', 'from pyhf import exceptions\n', 'from pyhf import exceptions\nfrom weakref import WeakKeyDictionary\n\n_toy_distributions = WeakKeyDictionary()\n'),
  ('src/pyhf/infer/__init__.py', '    sig_plus_bkg_distribution, bkg_only_distribution = calc.distributions(poi_test)\n', "    if calctype == 'toybased':\n        _sampled = _toy_distributions.setdefault(pdf, {})\n        _point = (float(poi_test), calc.test_stat, calc.ntoys)\n        if _point not in _sampled:\n            _sampled[_point] = calc.distributions(poi_test)\n        sig_plus_bkg_distribution, bkg_only_distribution = _sampled[_point]\n    else:\n        sig_plus_bkg_distribution, bkg_only_distribution = calc.distributions(poi_test)\n"))
V('C14', 'toy-distributions-through-a-local-helper', 'silent', '', 'the toy distributions fetched through a local closure (no memo)',
  ('src/pyhf/infer/__init__.py', '    sig_plus_bkg_distribution, bkg_only_distribution = calc.distributions(poi_test)\n', '    def _distributions():\n        return calc.distributions(poi_test)\n\n    sig_plus_bkg_distribution, bkg_only_distribution = _distributions()\n'))
V('C13', 'minuit-cost-scaled-by-errordef-gradient-not', 'fire', 'C13.R6', "Minuit's cost is errordef x objective, the gradient handed over is not scaled",
  ('src/pyhf/optimize/opt_minuit.py', '            wrapped_objective = lambda pars: objective_and_grad(pars)[0]  # noqa: E731\n            jac = lambda pars: objective_and_grad(pars)[1]  # noqa: E731\n', '            wrapped_objective = lambda pars: self.errordef * objective_and_grad(pars)[0]  # noqa: E731\n            jac = lambda pars: objective_and_grad(pars)[1]  # noqa: E731\n'))
V('C13', 'minuit-cost-and-gradient-scaled-by-errordef', 'silent', '', "Minuit's cost and gradient are both scaled by errordef",
  ('src/pyhf/optimize/opt_minuit.py', '            wrapped_objective = lambda pars: objective_and_grad(pars)[0]  # noqa: E731\n            jac = lambda pars: objective_and_grad(pars)[1]  # noqa: E731\n', '            wrapped_objective = lambda pars: self.errordef * objective_and_grad(pars)[0]  # noqa: E731\n            jac = lambda pars: [self.errordef * g for g in objective_and_grad(pars)[1]]  # noqa: E731\n'))
V('C13', 'mixin-reuses-evaluation-at-close-points', 'fire', 'C13.R6', 'the last (value, gradient) pair is returned again for every point numpy.allclose to the previous one',
  ('src/pyhf/optimize/mixins.py', '        minimizer = self._get_minimizer(\n            func,', "        if do_grad:\n            inner, last = func, {'pars': None, 'result': None}\n\n            def func(pars):\n                if last['pars'] is None or not np.allclose(pars, last['pars']):\n                    last['pars'] = np.array(pars, dtype=float)\n                    last['result'] = inner(pars)\n                return last['result']\n\n        minimizer = self._get_minimizer(\n            func,"))
V('C13', 'mixin-reuses-evaluation-at-the-same-point', 'silent', '', 'the last (value, gradient) pair is returned again only for exactly the same point',
  ('src/pyhf/optimize/mixins.py', '        minimizer = self._get_minimizer(\n            func,', "        if do_grad:\n            inner, last = func, {'pars': None, 'result': None}\n\n            def func(pars):\n                if last['pars'] is None or not np.array_equal(pars, last['pars']):\n                    last['pars'] = np.array(pars, dtype=float)\n                    last['result'] = inner(pars)\n                return last['result']\n\n        minimizer = self._get_minimizer(\n            func,"))
V('C11', 'model-nominal-rates-cached-per-object', 'fire', 'C11.R9', "Model.nominal_rates becomes a cached_property over the main model's refreshed tensor",
  ('src/pyhf/pdf.py', 'import copy\nimport logging\n', 'import copy\nimport functools\nimport logging\n'),
  ('src/pyhf/pdf.py', '    @property\n    def nominal_rates(self):\n        """Nominal value of bin rates of the main model."""', '    @functools.cached_property\n    def nominal_rates(self):\n        """Nominal value of bin rates of the main model."""'))
V('C11', 'config-par-names-cached-per-object', 'silent', '', "the configuration's parameter names (python strings) become a cached_property",
  ('src/pyhf/pdf.py', 'import copy\nimport logging\n', 'import copy\nimport functools\nimport logging\n'),
  ('src/pyhf/pdf.py', '    @property\n    def par_names(self):', '    @functools.cached_property\n    def par_names(self):'))
V('C16', 'schema-version-optional', 'fire', 'C16.R8', 'the schema no longer requires `version` while the operations read it with a plain subscript',
  ('src/pyhf/schemas/1.0.0/defs.json', '"required": ["channels", "measurements", "observations", "version"]', '"required": ["channels", "measurements", "observations"]'))
V('C05', 'scipy-per-fit-tolerance-kept-on-the-optimizer', 'fire', 'C05.R3', 'a per-fit tolerance is stored on the optimizer object',
  ('src/pyhf/optimize/opt_scipy.py', "        tolerance = options.pop('tolerance', self.tolerance)\n", "        self.tolerance = options.pop('tolerance', self.tolerance)\n        tolerance = self.tolerance\n"))
V('C12', 'requirements-collected-in-lists', 'fire', 'C12.R7', 'the requirement values of one parameter are collected in a list: equal requirements of two modifier types count twice',
  ('src/pyhf/parameters/utils.py', '                combined_paramset.setdefault(k, set()).add(v)\n', '                combined_paramset.setdefault(k, []).append(v)\n'))
V('C05', 'suggested-init-memoised-per-configuration', 'fire', 'C05.R1', 'suggested_init memoised per configuration object',
  ('src/pyhf/pdf.py', 'import copy\nimport logging\n', 'import copy\nimport functools\nimport logging\n'),
  ('src/pyhf/pdf.py', '    def suggested_init(self):\n', '    @functools.lru_cache(maxsize=None)\n    def suggested_init(self):\n'))
V('C01', 'main-pdf-remembered-by-parameter-identity', 'fire', 'C01.R12', 'the main model keeps the pdf built for the last parameter tensor OBJECT',
  ('src/pyhf/pdf.py', '        lambdas_data = self.expected_data(pars)\n        return prob.Independent(prob.Poisson(lambdas_data))\n', "        if getattr(self, '_pdf', None) is None or pars is not self._pdf_pars:\n            lambdas_data = self.expected_data(pars)\n            self._pdf = prob.Independent(prob.Poisson(lambdas_data))\n            self._pdf_pars = pars\n        return self._pdf\n"))
V('C02', 'staterror-auxdata-falls-back-to-inits', 'fire', 'C02.R7', 'staterror no longer declares its auxiliary data; the normal-constrained set falls back to the (overridable) initial values',
  ('src/pyhf/modifiers/staterror.py', "        'auxdata': (1.0,) * n_parameters,\n", ''),
  ('src/pyhf/parameters/paramsets.py', "        self.pdf_type = 'normal'\n        self.auxdata = kwargs.pop('auxdata')\n", "        self.pdf_type = 'normal'\n        self.auxdata = kwargs.pop('auxdata', None) or list(kwargs.get('inits', []))\n"))
V('C02', 'staterror-auxdata-falls-back-to-ones', 'silent', '', 'staterror no longer declares its auxiliary data; the normal-constrained set falls back to ones',
  ('src/pyhf/modifiers/staterror.py', "        'auxdata': (1.0,) * n_parameters,\n", ''),
  ('src/pyhf/parameters/paramsets.py', "        self.pdf_type = 'normal'\n        self.auxdata = kwargs.pop('auxdata')\n", "        self.pdf_type = 'normal'\n        self.auxdata = kwargs.pop('auxdata', None) or [1.0] * kwargs.get('n_parameters', 1)\n"))
V('C09', 'range-extended-for-the-observed-curve-only', 'fire', 'C09.R6', 'the upper scan bound is doubled until the OBSERVED curve is below the level; the expected curves are not looked at',
  ('src/pyhf/infer/intervals/upper_limits.py', '    while np.any(np.asarray([upper_results[0]] + upper_results[1]) > level):', '    while np.any(np.asarray([upper_results[0]]) > level):'))
V('C09', 'expected-bracket-column-off-by-one', 'fire', 'C09.R6', 'the bracket of expected curve k is chosen on curve k+1',
  ('src/pyhf/infer/intervals/upper_limits.py', 'value[0] - level if limit == 0 else value[1][limit - 1] - level', 'value[0] - level if limit == 0 else value[1][min(limit, 4)] - level'))
V('C11', 'owned-interpolator-refreshed-in-one-arm-only', 'fire', 'C11.R1', 'the normsys interpolator is built with subscribe=False and refreshed by its owner only when the model is unbatched',
  ('src/pyhf/modifiers/normsys.py', '                self._normsys_histoset\n            )\n', '                self._normsys_histoset, subscribe=False\n            )\n'),
  ('src/pyhf/modifiers/normsys.py', '        if self.batch_size is None:\n            self.indices = tensorlib.reshape(\n                self.param_viewer.indices_concatenated, (-1, 1)\n            )\n', '        if self.batch_size is None:\n            self.indices = tensorlib.reshape(\n                self.param_viewer.indices_concatenated, (-1, 1)\n            )\n            self.interpolator._precompute()\n'))
V('C11', 'owned-interpolator-refreshed-by-its-owner', 'silent', '', 'the normsys interpolator is built with subscribe=False and refreshed by its owner on every switch',
  ('src/pyhf/modifiers/normsys.py', '                self._normsys_histoset\n            )\n', '                self._normsys_histoset, subscribe=False\n            )\n'),
  ('src/pyhf/modifiers/normsys.py', '        self.normsys_default = tensorlib.ones(self.normsys_mask.shape)\n', '        self.normsys_default = tensorlib.ones(self.normsys_mask.shape)\n        self.interpolator._precompute()\n'))
V('C17', 'schema-admits-sha512-and-digests-filtered', 'fire', 'C17.R6', 'the schema admits sha512 digests AND the digests property keeps only sha256 / md5',
  ('src/pyhf/schemas/1.0.0/defs.json', '"sha256": { "type": "string", "pattern": "^[a-fA-F0-9]{64}$" }', '"sha256": { "type": "string", "pattern": "^[a-fA-F0-9]{64}$" },\n                    "sha512": { "type": "string", "pattern": "^[a-fA-F0-9]{128}$" }'),
  ('src/pyhf/patchset.py', '        """The digests in the PatchSet metadata"""\n        return self.metadata[\'digests\']\n', '        """The digests in the PatchSet metadata"""\n        digests = self.metadata[\'digests\']\n        return {alg: digests[alg] for alg in (\'sha256\', \'md5\') if alg in digests}\n'))
V('C17', 'schema-admits-sha512-only', 'silent', '', 'the schema admits sha512 digests (verification iterates over whatever is listed)',
  ('src/pyhf/schemas/1.0.0/defs.json', '"sha256": { "type": "string", "pattern": "^[a-fA-F0-9]{64}$" }', '"sha256": { "type": "string", "pattern": "^[a-fA-F0-9]{64}$" },\n                    "sha512": { "type": "string", "pattern": "^[a-fA-F0-9]{128}$" }'))
V('C17', 'digests-reordered-only', 'silent', '', 'the digests property lists sha256 before md5 (the schema admits nothing else)',
  ('src/pyhf/patchset.py', '        """The digests in the PatchSet metadata"""\n        return self.metadata[\'digests\']\n', '        """The digests in the PatchSet metadata"""\n        digests = self.metadata[\'digests\']\n        return {alg: digests[alg] for alg in (\'sha256\', \'md5\') if alg in digests}\n'))
V('C19', 'output-dir-default-computed-at-import', 'fire', 'C19.R7', 'json2xml --output-dir defaults to Path.cwd() evaluated at import',
  ('src/pyhf/cli/rootio.py', "@click.option('--output-dir', type=click.Path(exists=True), default='.')\n", "@click.option('--output-dir', type=click.Path(exists=True), default=Path.cwd())\n"))
V('C19', 'output-dir-default-callable', 'silent', '', 'json2xml --output-dir defaults to the callable Path.cwd',
  ('src/pyhf/cli/rootio.py', "@click.option('--output-dir', type=click.Path(exists=True), default='.')\n", "@click.option('--output-dir', type=click.Path(exists=True), default=Path.cwd)\n"))
V('C19', 'basedir-default-computed-at-import', 'fire', 'C19.R7', 'xml2json --basedir default computed at import (the defect repaired by 3a7e402)',
  ('src/pyhf/cli/rootio.py', '    default=Path.cwd,\n', '    default=Path.cwd(),\n'))
V('C11', 'nominal-yields-normalised-through-the-current-backend', 'fire', 'C11.R1', 'array-valued sample data are turned into python floats through the backend current at construction',
  ('src/pyhf/pdf.py', '        if not len(nom) == self.config.channel_nbins[channel]:\n', '        if not isinstance(nom, list):\n            tensorlib, _ = get_backend()\n            nom = tensorlib.tolist(tensorlib.astensor(nom))\n        if not len(nom) == self.config.channel_nbins[channel]:\n'))
V('C11', 'nominal-yields-normalised-through-the-default-backend', 'silent', '', 'array-valued sample data are turned into python floats through the default backend',
  ('src/pyhf/pdf.py', '        if not len(nom) == self.config.channel_nbins[channel]:\n', '        if not isinstance(nom, list):\n            nom = pyhf.default_backend.tolist(pyhf.default_backend.astensor(nom))\n        if not len(nom) == self.config.channel_nbins[channel]:\n'))
V('C05', 'fixed-poi-fit-prefers-the-models-mask', 'fire', 'C05.R2', "fixed_poi_fit takes the model's fixed mask even when the caller supplies one",
  ('src/pyhf/infer/mle.py', '    fixed_params = [*(fixed_params or pdf.config.suggested_fixed())]\n', '    fixed_params = [*(pdf.config.suggested_fixed() or fixed_params)]\n'))
V('C12', 'parameter-settings-filtered-before-the-patches', 'fire', 'C12.R12', "parameter settings are filtered to the workspace's own modifiers BEFORE the patches are applied",
  ('src/pyhf/workspace.py', "            'parameters': measurement['config']['parameters'],\n", "            'parameters': [p for p in measurement['config']['parameters'] if p['name'] in {name for name, _ in self.modifiers}],\n"))
V('C12', 'parameter-settings-filtered-after-the-patches', 'silent', '', 'parameter settings are filtered to the modifiers of the PATCHED specification',
  ('src/pyhf/workspace.py', '        return Model(modelspec, **config_kwargs)\n', "        _names = {m['name'] for ch in modelspec['channels'] for smp in ch['samples'] for m in smp['modifiers']}\n        modelspec = dict(modelspec, parameters=[p for p in modelspec['parameters'] if p['name'] in _names])\n        return Model(modelspec, **config_kwargs)\n"))
V('C19', 'join-default-from-reordered-table', 'fire', 'C19.R8', '--join defaults to the first entry of Workspace.valid_joins AND the table is reordered',
  ('src/pyhf/cli/spec.py', "    '--join',\n    default='none',\n", "    '--join',\n    default=Workspace.valid_joins[0],\n"),
  ('src/pyhf/workspace.py', "    valid_joins: ClassVar[list[str]] = ['none', 'outer', 'left outer', 'right outer']\n", "    valid_joins: ClassVar[list[str]] = ['outer', 'left outer', 'right outer', 'none']\n"))
V('C19', 'join-default-from-table-only', 'silent', '', "--join defaults to the first entry of Workspace.valid_joins (still 'none')",
  ('src/pyhf/cli/spec.py', "    '--join',\n    default='none',\n", "    '--join',\n    default=Workspace.valid_joins[0],\n"))
V('C19', 'valid-joins-reordered-only', 'silent', '', 'Workspace.valid_joins reordered (the option keeps its literal default)',
  ('src/pyhf/workspace.py', "    valid_joins: ClassVar[list[str]] = ['none', 'outer', 'left outer', 'right outer']\n", "    valid_joins: ClassVar[list[str]] = ['outer', 'left outer', 'right outer', 'none']\n"))
V('C10', 'reshape-flatten-through-memory-order-ravel', 'fire', 'C10.R8', 'numpy reshape delegates (-1,) to ravel AND ravel flattens in memory order',
  ('src/pyhf/tensor/numpy_backend.py', '        return np.reshape(tensor, newshape)\n', '        if newshape == (-1,):\n            return self.ravel(tensor)\n        return np.reshape(tensor, newshape)\n'),
  ('src/pyhf/tensor/numpy_backend.py', '        return np.ravel(tensor)\n', '        return np.ravel(tensor, order="K")\n'))
V('C10', 'reshape-flatten-through-row-major-ravel', 'silent', '', 'numpy reshape delegates (-1,) to the row-major ravel',
  ('src/pyhf/tensor/numpy_backend.py', '        return np.reshape(tensor, newshape)\n', '        if newshape == (-1,):\n            return self.ravel(tensor)\n        return np.reshape(tensor, newshape)\n'))
V('C01', 'tf-clip-as-min-of-max', 'fire', 'C01.R15', "tensorflow clip rewritten as minimum(maximum(t, lo), hi) with the upper bound still substituted by the tensor's maximum",
  ('src/pyhf/tensor/tensorflow_backend.py', '        return tf.clip_by_value(tensor_in, min_value, max_value)\n', '        return tf.minimum(tf.maximum(tensor_in, min_value), max_value)\n'))
V("C13", "code4-exponent-mask-strict", "fire", "C13.R3", "code 4 takes exponent 1 (a constant) exactly at |alpha| = alpha0",
  ("src/pyhf/interpolators/code4.py", "            exponents >= self.__alpha0, exponents, self.ones", "            exponents > self.__alpha0, exponents, self.ones"))
V("C06", "qmu-tilde-clamps-callers-bounds", "fire", "C06.R7", "qmu_tilde replaces a negative lower POI bound IN the caller's bounds list",
  ("src/pyhf/infer/test_statistics.py", "            + 'If you called this from pyhf.infer.mle or pyhf.infer.hypotest, set test_stat=\"q\".'\n        )\n    return _qmu_like(", "            + 'If you called this from pyhf.infer.mle or pyhf.infer.hypotest, set test_stat=\"q\".'\n        )\n        if par_bounds[pdf.config.poi_index][0] < 0:\n            par_bounds[pdf.config.poi_index] = (0.0, par_bounds[pdf.config.poi_index][1])\n    return _qmu_like("))
# ------------------------------------------------------------------ other spellings, correct (silent) and broken (fire): the rules must
# decide the PROGRAM -- a helper, a module-level table, itertools instead of a running offset -- not one way of writing it
_MIX_LOOP = "        self._channel_slices = {}\n        begin = 0\n        for c in self._channels:\n            end = begin + self._channel_nbins[c]\n            self._channel_slices[c] = slice(begin, end)\n            begin = end\n"
V("C12", "slices-by-accumulate", "silent", "", "channel slices through itertools.accumulate instead of a running offset",
  ("src/pyhf/mixins.py", "from __future__ import annotations\n", "from __future__ import annotations\nfrom itertools import accumulate\n"),
  ("src/pyhf/mixins.py", _MIX_LOOP, "        ends = list(accumulate(self._channel_nbins[c] for c in self._channels))\n        begins = [0, *ends[:-1]]\n        self._channel_slices = {c: slice(b, e) for c, b, e in zip(self._channels, begins, ends)}\n"))
V("C12", "slices-by-accumulate-shifted", "fire", "C12.R8", "the accumulate spelling with the begins shifted by one channel",
  ("src/pyhf/mixins.py", "from __future__ import annotations\n", "from __future__ import annotations\nfrom itertools import accumulate\n"),
  ("src/pyhf/mixins.py", _MIX_LOOP, "        ends = list(accumulate(self._channel_nbins[c] for c in self._channels))\n        begins = [0, *ends[1:]]\n        self._channel_slices = {c: slice(b, e) for c, b, e in zip(self._channels, begins, ends)}\n"))
_TV_LOOP = "    target_slices = []\n    start = 0\n    for sz in sizes:\n        stop = start + sz\n        target_slices.append(slice(start, stop))\n        start = stop\n"
V("C12", "viewer-sizes-by-accumulate", "silent", "", "_tensorviewer_from_sizes through itertools.accumulate",
  ("src/pyhf/tensor/common.py", _TV_LOOP, "    import itertools\n    stops = list(itertools.accumulate(sizes))\n    starts = [0] + stops[:-1]\n    target_slices = [slice(a, b) for a, b in zip(starts, stops)]\n"))
V("C12", "viewer-sizes-by-accumulate-overlap", "fire", "C12.R1", "the accumulate spelling with every block starting at 0",
  ("src/pyhf/tensor/common.py", _TV_LOOP, "    import itertools\n    stops = list(itertools.accumulate(sizes))\n    starts = [0 for _ in stops]\n    target_slices = [slice(a, b) for a, b in zip(starts, stops)]\n"))
_TS_MAP = "    _mapping = {\n        \"q0\": q0,\n        \"q\": qmu,\n        \"qtilde\": qmu_tilde,\n    }\n    try:\n        return _mapping[name]\n"
V("C06", "table-at-module-level", "silent", "", "the name->statistic table hoisted to a read-only module constant",
  ("src/pyhf/infer/utils.py", "def get_test_stat(name):", "import types\n\n_TEST_STATS = types.MappingProxyType({\"q0\": q0, \"q\": qmu, \"qtilde\": qmu_tilde})\n\n\ndef get_test_stat(name):"),
  ("src/pyhf/infer/utils.py", _TS_MAP, "    try:\n        return _TEST_STATS[name]\n"))
V("C06", "table-at-module-level-swapped", "fire", "C06.R1", "the hoisted table maps q to the tilde statistic",
  ("src/pyhf/infer/utils.py", "def get_test_stat(name):", "import types\n\n_TEST_STATS = types.MappingProxyType({\"q0\": q0, \"q\": qmu_tilde, \"qtilde\": qmu})\n\n\ndef get_test_stat(name):"),
  ("src/pyhf/infer/utils.py", _TS_MAP, "    try:\n        return _TEST_STATS[name]\n"))
_IC = "    interpcodes = {\n        0: code0 if do_tensorized_calc else _slow_code0,\n        1: code1 if do_tensorized_calc else _slow_code1,\n        2: code2 if do_tensorized_calc else _slow_code2,\n        4: code4 if do_tensorized_calc else _slow_code4,\n        '4p': code4p if do_tensorized_calc else _slow_code4p,\n    }\n\n    try:\n        return interpcodes[interpcode]\n"
V("C03", "get-table-of-pairs", "silent", "", "interpolators.get as a table of (fast, slow) pairs indexed by the flag",
  ("src/pyhf/interpolators/__init__.py", _IC, "    interpcodes = {0: (code0, _slow_code0), 1: (code1, _slow_code1), 2: (code2, _slow_code2), 4: (code4, _slow_code4), '4p': (code4p, _slow_code4p)}\n    which = 0 if do_tensorized_calc else 1\n\n    try:\n        return interpcodes[interpcode][which]\n"))
V("C03", "get-table-of-pairs-crossed", "fire", "C03.R6", "the pair table gives code 1 the slow twin of code 2",
  ("src/pyhf/interpolators/__init__.py", _IC, "    interpcodes = {0: (code0, _slow_code0), 1: (code1, _slow_code2), 2: (code2, _slow_code1), 4: (code4, _slow_code4), '4p': (code4p, _slow_code4p)}\n    which = 0 if do_tensorized_calc else 1\n\n    try:\n        return interpcodes[interpcode][which]\n"))
_SC = "            constraints = [{'type': 'eq', 'fun': lambda v: v[indices] - values}]\n"
V("C05", "constraint-named-function", "silent", "", "the SLSQP equality constraint as a named function over numpy calls",
  ("src/pyhf/optimize/opt_scipy.py", "import scipy\n", "import scipy\nimport numpy as np\n"),
  ("src/pyhf/optimize/opt_scipy.py", _SC, "            def fixed_vals_residual(pars):\n                return np.subtract(np.take(pars, indices), values)\n\n            constraints = [{'type': 'eq', 'fun': fixed_vals_residual}]\n"))
V("C05", "constraint-named-function-wrong-operand", "fire", "C05.R3", "the named constraint subtracts the indices instead of the fixed values",
  ("src/pyhf/optimize/opt_scipy.py", "import scipy\n", "import scipy\nimport numpy as np\n"),
  ("src/pyhf/optimize/opt_scipy.py", _SC, "            def fixed_vals_residual(pars):\n                return np.subtract(np.take(pars, indices), indices)\n\n            constraints = [{'type': 'eq', 'fun': fixed_vals_residual}]\n"))
V("C19", "sort-output-file-option-dropped", "fire", "C19.R1", "`pyhf sort` loses its documented --output-file option (always prints)",
  ("src/pyhf/cli/spec.py", "@click.argument('workspace', default='-')\n@click.option(\n    '--output-file',\n    help='The location of the output json file. If not specified, prints to screen.',\n    default=None,\n)\ndef sort(workspace, output_file):", "@click.argument('workspace', default='-')\ndef sort(workspace, output_file=None):"))
V("C19", "digest-gains-output-file-option", "silent", "", "`pyhf digest` gains an optional --output-file (default: print, as today)",
  ("src/pyhf/cli/spec.py", "    help='Output the hash values as a JSON dictionary or plaintext strings',\n)\ndef digest(workspace, algorithm, output_json):", "    help='Output the hash values as a JSON dictionary or plaintext strings',\n)\n@click.option('--output-file', default=None, help='Write the digests to this file instead of the screen.')\ndef digest(workspace, algorithm, output_json, output_file):"),
  ("src/pyhf/cli/spec.py", "    click.echo(output)\n\n\n@cli.command()\n@click.argument('workspace', default='-')\n@click.option(\n    '--output-file',\n    help='The location of the output json file. If not specified, prints to screen.',\n    default=None,\n)\ndef sort(", "    if output_file is None:\n        click.echo(output)\n    else:\n        with open(output_file, 'w+', encoding='utf-8') as out_file:\n            out_file.write(output)\n\n\n@cli.command()\n@click.argument('workspace', default='-')\n@click.option(\n    '--output-file',\n    help='The location of the output json file. If not specified, prints to screen.',\n    default=None,\n)\ndef sort("))

# ------------------------------------------------------------------ round 7 additions
SMO = "src/pyhf/simplemodels.py"
V("C08", "factory-poi-default-forced", "fire", "C08.R7", "a model factory replaces a falsy poi_name (the POI-less request) by its default",
  (SMO, "    return Model(spec, batch_size=batch_size, validate=validate, poi_name=poi_name)\n\n\ndef uncorrelated_background(", "    return Model(spec, batch_size=batch_size, validate=validate, poi_name=poi_name or 'mu')\n\n\ndef uncorrelated_background("))
V("C08", "factory-keyword-order", "silent", "", "a model factory passes the same keywords in another order",
  (SMO, "    return Model(spec, batch_size=batch_size, validate=validate, poi_name=poi_name)\n\n\ndef uncorrelated_background(", "    return Model(spec, poi_name=poi_name, validate=validate, batch_size=batch_size)\n\n\ndef uncorrelated_background("))
V("C18", "rootname-unanchored", "fire", "C18.R3", "the alpha_ prefix is cut at its LAST occurrence (a name containing alpha_ is truncated)",
  ("src/pyhf/compat.py", "match = re.search(r'^alpha_(.+)$', rootname)", "match = re.search(r'^.*alpha_(.+)$', rootname)"))
WSP = "src/pyhf/workspace.py"
V("C20", "model-channels-by-name", "fire", "C20.R8", "Workspace.model hands Model one entry per channel NAME (a duplicate is dropped before the model can refuse it)",
  (WSP, "            'channels': self['channels'],\n            'parameters': measurement['config']['parameters'],", "            'channels': list({ch_['name']: ch_ for ch_ in self['channels']}.values()),\n            'parameters': measurement['config']['parameters'],"))
V("C12", "build-drops-factors", "fire", "C12.R9", "Workspace.build no longer writes the factors of a Poisson-constrained parameter",
  (WSP, "for key in ('auxdata', 'sigmas', 'factors')", "for key in ('auxdata', 'sigmas')"))
V("C01", "normsys-second-channel-rebroadcast", "fire", "C01.R11", "normsys builder repeats the first channel's factors for a sample that carries the modifier in a second channel",
  ("src/pyhf/modifiers/normsys.py", "        self.builder_data[key][sample]['data']['hi'] += moddata['hi']", "        self.builder_data[key][sample]['data']['hi'] += (self.builder_data[key][sample]['data']['hi'][:1] * len(nom) if thismod and any(self.builder_data[key][sample]['data']['mask'][: -len(nom)]) else moddata['hi'])"))

UTL = "src/pyhf/utils.py"
V("C19", "mount-half-resolved", "fire", "C19.R9", "the mount half of -v host:mount is made absolute",
  (UTL, "            self.coerce_path_result(path_mount),", "            self.coerce_path_result(__import__('os').path.abspath(path_mount)),"))
V("C19", "mount-split-maxsplit", "silent", "", "equivalent split of a two-part value (partition keeps the refusal of a missing colon)",
  (UTL, "            path_host, path_mount = value.split(':')", "            parts = value.split(':')\n            path_host, path_mount = parts"))
MIXO = "src/pyhf/optimize/mixins.py"
V("C05", "postprocess-rounds-point", "fire", "C05.R5", "the stitched best-fit point is clipped after the minimisation",
  (MIXO, "        fitted_pars = stitch_pars(tensorlib.astensor(fitresult.x))\n", "        fitted_pars = tensorlib.clip(stitch_pars(tensorlib.astensor(fitresult.x)), -10.0, 10.0)\n"))
V("C05", "scipy-constraint-summed", "fire", "C05.R3", "the equality constraint pins only the SUM of the fixed parameters",
  ("src/pyhf/optimize/opt_scipy.py", "constraints = [{'type': 'eq', 'fun': lambda v: v[indices] - values}]", "constraints = [{'type': 'eq', 'fun': lambda v: sum(v[indices] - values)}]"))
