"""Array-library model for the interpreter: tensors are nested python lists of a CONCRETE small shape whose
entries are symbolic (Poly) or python bools.  Used to decide index bookkeeping (masks, boolean-mask assignment,
tiling, axis sums) that the scalar representative-cell abstraction cannot see.  Nothing here calls numpy."""

from __future__ import annotations

from .alg import Obj, Poly, Undecided, fn, to_poly


class T(list):
    """A tensor value (nested list): python arithmetic on it is element-wise (a plain list concatenates)."""


def wrap(x):
    return T(x) if isinstance(x, list) and not isinstance(x, T) else x


def arith(op, a, b):
    """Element-wise a <op> b with numpy-style broadcasting; op in '+', '-', '*', '/', '**'."""
    def f(x, y):
        x, y = to_poly(x), to_poly(y)
        if op == "+":
            return x + y
        if op == "-":
            return x - y
        if op == "*":
            return x * y
        if op == "/":
            return x / y
        return fn("pow", x, y)
    return wrap(_zip(f, a, b))


def _shape(x):
    s = []
    while isinstance(x, (list, tuple)):
        s.append(len(x))
        x = x[0] if x else None
    return tuple(s)


def _map(f, x):
    if isinstance(x, (list, tuple)):
        return [_map(f, y) for y in x]
    return f(x)


def _zip(f, a, b):
    la, lb = isinstance(a, (list, tuple)), isinstance(b, (list, tuple))
    if la and lb:
        if len(a) != len(b):
            if len(a) == 1:
                return [_zip(f, a[0], y) for y in b]
            if len(b) == 1:
                return [_zip(f, x, b[0]) for x in a]
            raise Undecided(f"shape mismatch {len(a)} vs {len(b)}")
        return [_zip(f, x, y) for x, y in zip(a, b)]
    if la:
        return [_zip(f, x, b) for x in a]
    if lb:
        return [_zip(f, a, y) for y in b]
    return f(a, b)


def _flatten(x):
    if isinstance(x, (list, tuple)):
        out = []
        for y in x:
            out += _flatten(y)
        return out
    return [x]


def _add(a, b):
    if isinstance(a, bool) and isinstance(b, bool):
        return a or b
    return to_poly(a) + to_poly(b)


def _sum_axis(x, axis):
    if axis is not None and axis < 0:
        axis += len(_shape(x))
    if axis is None:
        tot = Poly()
        for v in _flatten(x):
            tot = tot + to_poly(v)
        return tot
    if axis == 0:
        if not x:
            return Poly()
        acc = x[0]
        for y in x[1:]:
            acc = _zip(_add, acc, y)
        return _map(lambda v: v, acc)
    return [_sum_axis(y, axis - 1) for y in x]


def _tile(a, reps):
    reps = list(reps) if isinstance(reps, (list, tuple)) else [reps]
    sh = _shape(a)
    while len(sh) < len(reps):
        a = [a]
        sh = _shape(a)
    reps = [1] * (len(sh) - len(reps)) + reps

    def rec(x, d):
        if d == len(reps):
            return x
        inner = [rec(y, d + 1) for y in x]
        out = []
        for _ in range(reps[d]):
            out += [_copy(y) for y in inner]
        return out

    return rec(a, 0)


def _stack(parts):
    shapes = {_shape(x) for x in parts}
    if len(shapes) > 1:
        from .alg import FragmentFault
        raise FragmentFault(f"stack of tensors with different shapes {sorted(shapes)} (the array library refuses it)")
    return [_copy(x) for x in parts]


def _copy(x):
    return [_copy(y) for y in x] if isinstance(x, (list, tuple)) else x


def _int(v):
    return int(to_poly(v).const_value())


def _full(shape, val):
    if isinstance(shape, (list, tuple)):
        dims = [_int(d) for d in shape]
    else:
        dims = [_int(shape)]

    def rec(d):
        if d == len(dims):
            return val
        return [rec(d + 1) for _ in range(dims[d])]

    return rec(0)


def _reshape(x, shape):
    flat = _flatten(x)
    dims = [_int(d) for d in (shape if isinstance(shape, (list, tuple)) else [shape])]
    if dims.count(-1) > 1:
        raise Undecided("reshape with two free dimensions")
    known = 1
    for d in dims:
        if d != -1:
            known *= d
    if -1 in dims:
        if known == 0 or len(flat) % known:
            raise Undecided("reshape does not fit")
        dims[dims.index(-1)] = len(flat) // known
    elif known != len(flat):
        raise Undecided("reshape does not fit")

    def rec(vals, ds):
        if len(ds) == 1:
            return list(vals)
        step = len(vals) // ds[0] if ds[0] else 0
        return [rec(vals[i * step:(i + 1) * step], ds[1:]) for i in range(ds[0])]

    return rec(flat, dims)


def _concat(parts, axis):
    if axis is not None and axis < 0:
        axis += len(_shape(parts[0]))
    if axis in (None, 0):
        return [v for part in parts for v in (part if isinstance(part, (list, tuple)) else [part])]
    n = len(parts[0])
    return [_concat([p_[i] for p_ in parts], axis - 1) for i in range(n)]


def _transpose_first_last(x, to_front):
    """'...j->j...' (to_front) / 'j...->...j' on a nested list: move the last axis first / the first axis last."""
    sh = _shape(x)
    if len(sh) <= 1:
        return x
    if to_front:
        # result[j][...] = x[...][j]
        def pick(y, j, depth):
            if depth == len(sh) - 1:
                return y[j]
            return [pick(z, j, depth + 1) for z in y]
        return [pick(x, j, 0) for j in range(sh[-1])]
    # result[...][j] = x[j][...]
    def build(prefix_items):
        # prefix_items: list over j of the sub-arrays x[j] restricted so far
        if not isinstance(prefix_items[0], (list, tuple)):
            return list(prefix_items)
        n = len(prefix_items[0])
        return [build([p_[i] for p_ in prefix_items]) for i in range(n)]
    return build(list(x))


def _transpose(x):
    """numpy / backend transpose without axes: all axes reversed"""
    sh = _shape(x)
    if len(sh) <= 1:
        return x

    def get(idx):
        y = x
        for i in idx:
            y = y[i]
        return y

    def rec(prefix, dims):
        if not dims:
            return get(tuple(reversed(prefix)))
        return [rec(prefix + [i], dims[1:]) for i in range(dims[0])]

    return rec([], list(reversed(sh)))


def _einsum(a, k):
    spec = a[0]
    if not isinstance(spec, str):
        raise Undecided("einsum subscripts are not a literal")
    spec = spec.replace(" ", "")
    ops = a[1:]
    if len(ops) == 1:
        x = ops[0]
        if spec == "ij...->ji...":
            return _swap01(x)
        if spec == "...j->j...":
            return _transpose_first_last(x, True)
        if spec == "j...->...j":
            return _transpose_first_last(x, False)
        lhs, _, rhs = spec.partition("->")
        if len(lhs) == 2 and rhs == lhs[::-1]:
            return _transpose_first_last(x, True)
        if lhs == rhs:
            return x
    return _einsum_general(spec, ops)


def _einsum_general(spec, ops):
    """Explicit-mode einsum over nested lists (no ellipsis): out[o] = sum over the other letters of prod_k op_k[letters_k]."""
    import itertools
    if "..." in spec or "->" not in spec:
        raise Undecided(f"einsum {spec!r} on list tensors")
    lhs, rhs = spec.split("->")
    terms = lhs.split(",")
    if len(terms) != len(ops):
        raise Undecided("einsum operand count")
    size = {}
    for t, op in zip(terms, ops):
        sh = _shape(op)
        if len(sh) != len(t):
            raise Undecided(f"einsum operand rank {len(sh)} does not match subscripts {t!r}")
        for ch, n in zip(t, sh):
            if size.setdefault(ch, n) != n:
                if size[ch] == 1:
                    size[ch] = n
                elif n != 1:
                    raise Undecided(f"einsum size mismatch on {ch}")
    summed = [ch for ch in size if ch not in rhs]

    def at_(op, t, assign):
        x = op
        for ch in t:
            x = x[assign[ch] if len(x) > 1 else 0]
        return x

    def build(d, assign):
        if d == len(rhs):
            tot = Poly()
            for combo in itertools.product(*[range(size[ch]) for ch in summed]):
                a2 = dict(assign)
                a2.update(zip(summed, combo))
                prod = Poly.const(1)
                for t, op in zip(terms, ops):
                    prod = prod * to_poly(at_(op, t, a2))
                tot = tot + prod
            return tot
        ch = rhs[d]
        return [build(d + 1, {**assign, ch: i}) for i in range(size[ch])]

    return build(0, {})


def _where(cond, a, b):
    def pick(c_, x, y):
        if not isinstance(c_, bool):
            raise Undecided("where() on a symbolic condition")
        return x if c_ else y

    def z3(c_, x, y):
        lens = [len(v) for v in (c_, x, y) if isinstance(v, (list, tuple))]
        if not lens:
            return pick(c_, x, y)
        n = max(lens)
        if any(l_ not in (1, n) for l_ in lens):
            raise Undecided("where() shape mismatch")

        def at_(v, i):
            if isinstance(v, (list, tuple)):
                return v[i if len(v) > 1 else 0]
            return v

        return [z3(at_(c_, i), at_(x, i), at_(y, i)) for i in range(n)]

    return z3(cond, a, b)


def _gather(data, idx):
    if isinstance(idx, (list, tuple)):
        return [_gather(data, i) for i in idx]
    i = _int(idx)
    if not isinstance(data, (list, tuple)):
        from .alg import FragmentFault
        raise FragmentFault("gather on a scalar")
    if not -len(data) <= i < len(data):
        from .alg import FragmentFault
        raise FragmentFault(f"gather index {i} is out of range for an axis of size {len(data)}")
    return data[i]


def _argsort(recv):
    vals = []
    for v in recv:
        p = to_poly(v)
        if not p.is_const():
            raise Undecided("argsort of symbolic values")
        vals.append(p.const_value())
    return [Poly.const(i) for i in sorted(range(len(vals)), key=lambda i: (vals[i], i))]


def _product(x, axis=None):
    if axis is None:
        tot = Poly.const(1)
        for v in _flatten(x):
            tot = tot * to_poly(v)
        return tot
    if axis < 0:
        axis += len(_shape(x))
    if axis == 0:
        acc = x[0]
        for y in x[1:]:
            acc = _zip(lambda p_, q_: to_poly(p_) * to_poly(q_), acc, y)
        return _map(lambda v: to_poly(v), acc)
    return [_product(y, axis - 1) for y in x]


def _swap01(x):
    return [[x[i][j] for i in range(len(x))] for j in range(len(x[0]))]


def _insert(arr, idx, values):
    """numpy.insert on a 1-D list: positions refer to the array BEFORE insertion."""
    arr = list(arr)
    idxs = [_int(i) for i in idx] if isinstance(idx, (list, tuple)) else [_int(idx)]
    vals = list(values) if isinstance(values, (list, tuple)) else [values] * len(idxs)
    if len(vals) == 1 and len(idxs) > 1:
        vals = vals * len(idxs)
    if len(vals) != len(idxs):
        raise Undecided("insert: values do not match the positions")
    order = sorted(range(len(idxs)), key=lambda j: (idxs[j], j))
    out = list(arr)
    for shift, j in enumerate(order):
        pos = min(idxs[j], len(arr)) + shift  # jax clips out-of-range positions silently
        out.insert(pos, vals[j])
    return out


def _axis(k, a, pos=1):
    ax = k.get("axis", a[pos] if len(a) > pos else None)
    return None if ax is None else _int(ax)


def _plain(p):
    from .alg import plain_atoms
    return plain_atoms(p)


def _not_handled():
    from .alg import NotHandled
    raise NotHandled()


def externals(interp_truth=None):
    """name -> model.  ``.name`` entries are methods on list receivers."""
    def truth(v):
        if isinstance(v, bool):
            return v
        if interp_truth is not None:
            return interp_truth(v)
        p_ = to_poly(v)
        if p_.is_const():
            return p_.const_value() != 0
        from .alg import AutoRegion
        if isinstance(ext.get("__region__"), AutoRegion):
            return p_.evalf(ext["__region__"]) != 0  # generic data are non-zero; explicit representatives decide the rest
        raise Undecided("truth of a symbolic value")

    def _astensor(a, k):
        x = a[0]
        if isinstance(x, range):
            x = [Poly.const(i) for i in x]
        if k.get("dtype") == "bool":
            def tb(v):
                if isinstance(v, bool):
                    return v
                p = to_poly(v)
                if p.is_const():
                    return p.const_value() != 0
                raise Undecided("astensor(dtype=bool) of a symbolic value")
            return _map(tb, x) if isinstance(x, (list, tuple)) else tb(x)
        return _copy(x) if isinstance(x, (list, tuple)) else x

    def _ew1(name):
        return lambda a, k: _map(lambda v: fn(name, to_poly(v)), a[0]) if isinstance(a[0], (list, tuple)) else fn(name, to_poly(a[0]))

    def _absf(a, k):
        return _map(lambda v: fn("abs", to_poly(v)), a[0]) if isinstance(a[0], (list, tuple)) else fn("abs", to_poly(a[0]))

    ext = {
        "__elementwise__": True,
        "astensor": _astensor,
        "divide": lambda a, k: arith("/", a[0], a[1]), "multiply": lambda a, k: arith("*", a[0], a[1]),
        "power": lambda a, k: arith("**", a[0], a[1]), "add": lambda a, k: arith("+", a[0], a[1]), "subtract": lambda a, k: arith("-", a[0], a[1]),
        "clip": lambda a, k: _map(lambda v: (to_poly(v) if (a[1] if len(a) > 1 else k.get("min_value")) is None else fn("max", to_poly(v), to_poly(a[1] if len(a) > 1 else k.get("min_value")))), a[0]),
        "ravel": lambda a, k: _flatten(a[0]),
        "transpose": lambda a, k: _transpose(a[0]) if len(a) == 1 and not k else _not_handled(),
        "insert": lambda a, k: _insert(a[0], a[1], a[2]),
        "isfinite": lambda a, k: _map(lambda v: not any(n_ in ("INF", "NEGINF", "NAN", "DIVZERO") for n_ in _plain(to_poly(v))), a[0]),
        "boolean_mask": lambda a, k: [x for x, m_ in zip(a[0], a[1]) if (m_ if isinstance(m_, bool) else truth(m_))],
        "abs": _absf, "exp": _ew1("exp"), "log": _ew1("log"),
        "tolist": lambda a, k: a[0] if a else _not_handled(),
        "concatenate": lambda a, k: _concat(a[0], _axis(k, a)),
        "reshape": lambda a, k: _reshape(a[0], a[1]),
        "sum": lambda a, k: _sum_axis(a[0], _axis(k, a)),
        "sqrt": lambda a, k: _map(lambda v: fn("sqrt", to_poly(v)), a[0]),
        "zeros": lambda a, k: _full(a[0], Poly()),
        "ones": lambda a, k: _full(a[0], Poly.const(1)),
        "tile": lambda a, k: _tile(a[0], [_int(r) for r in a[1]] if isinstance(a[1], (list, tuple)) else [_int(a[1])]),
        "shape": lambda a, k: tuple(Poly.const(d) for d in _shape(a[0])),
        "stack": lambda a, k: _stack(a[0]),
        "einsum": _einsum,
        "where": lambda a, k: _where(a[0], a[1], a[2]),
        "gather": lambda a, k: _gather(a[0], a[1]),
        "product": lambda a, k: _product(a[0], _axis(k, a)),
        "slice": lambda a, k: Obj("slice", {"start": a[0] if len(a) > 1 else Poly(), "stop": a[1] if len(a) > 1 else a[0]}),
        ".argsort": lambda recv, a, k: _argsort(recv),
        ".any": lambda recv, a, k: any(truth(v) for v in _flatten(recv)),
        ".all": lambda recv, a, k: all(truth(v) for v in _flatten(recv)),
    }
    for k_, f_ in list(ext.items()):
        if callable(f_) and not k_.startswith("__"):
            if k_.startswith("."):
                ext[k_] = (lambda recv, a, k, f_=f_: wrap(f_(recv, a, k)))
            else:
                ext[k_] = (lambda a, k, f_=f_: wrap(f_(a, k)))
    return ext


def elementwise_compare(cmp, left, right):
    return _zip(cmp, left, right)
