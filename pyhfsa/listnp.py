"""Array-library model for the interpreter: tensors are nested python lists of a CONCRETE small shape whose
entries are symbolic (Poly) or python bools.  Used to decide index bookkeeping (masks, boolean-mask assignment,
tiling, axis sums) that the scalar representative-cell abstraction cannot see.  Nothing here calls numpy."""

from __future__ import annotations

from .alg import Poly, Undecided, fn, to_poly


def _shape(x):
    s = []
    while isinstance(x, (list, tuple)):
        s.append(len(x))
        x = x[0] if x else None
    return tuple(s)


def _map(f, x):
    if isinstance(x, (list, tuple)):
        return [_map(f, y) for y in x]
    return f(x)


def _zip(f, a, b):
    la, lb = isinstance(a, (list, tuple)), isinstance(b, (list, tuple))
    if la and lb:
        if len(a) != len(b):
            if len(a) == 1:
                return [_zip(f, a[0], y) for y in b]
            if len(b) == 1:
                return [_zip(f, x, b[0]) for x in a]
            raise Undecided(f"shape mismatch {len(a)} vs {len(b)}")
        return [_zip(f, x, y) for x, y in zip(a, b)]
    if la:
        return [_zip(f, x, b) for x in a]
    if lb:
        return [_zip(f, a, y) for y in b]
    return f(a, b)


def _flatten(x):
    if isinstance(x, (list, tuple)):
        out = []
        for y in x:
            out += _flatten(y)
        return out
    return [x]


def _add(a, b):
    if isinstance(a, bool) and isinstance(b, bool):
        return a or b
    return to_poly(a) + to_poly(b)


def _sum_axis(x, axis):
    if axis is None:
        tot = Poly()
        for v in _flatten(x):
            tot = tot + to_poly(v)
        return tot
    if axis == 0:
        if not x:
            return Poly()
        acc = x[0]
        for y in x[1:]:
            acc = _zip(_add, acc, y)
        return _map(lambda v: v, acc)
    return [_sum_axis(y, axis - 1) for y in x]


def _tile(a, reps):
    reps = list(reps) if isinstance(reps, (list, tuple)) else [reps]
    sh = _shape(a)
    while len(sh) < len(reps):
        a = [a]
        sh = _shape(a)
    reps = [1] * (len(sh) - len(reps)) + reps

    def rec(x, d):
        if d == len(reps):
            return x
        inner = [rec(y, d + 1) for y in x]
        out = []
        for _ in range(reps[d]):
            out += [_copy(y) for y in inner]
        return out

    return rec(a, 0)


def _copy(x):
    return [_copy(y) for y in x] if isinstance(x, (list, tuple)) else x


def _int(v):
    return int(to_poly(v).const_value())


def _full(shape, val):
    if isinstance(shape, (list, tuple)):
        dims = [_int(d) for d in shape]
    else:
        dims = [_int(shape)]

    def rec(d):
        if d == len(dims):
            return val
        return [rec(d + 1) for _ in range(dims[d])]

    return rec(0)


def _reshape(x, shape):
    flat = _flatten(x)
    dims = [_int(d) for d in (shape if isinstance(shape, (list, tuple)) else [shape])]
    if dims.count(-1) > 1:
        raise Undecided("reshape with two free dimensions")
    known = 1
    for d in dims:
        if d != -1:
            known *= d
    if -1 in dims:
        if known == 0 or len(flat) % known:
            raise Undecided("reshape does not fit")
        dims[dims.index(-1)] = len(flat) // known
    elif known != len(flat):
        raise Undecided("reshape does not fit")

    def rec(vals, ds):
        if len(ds) == 1:
            return list(vals)
        step = len(vals) // ds[0] if ds[0] else 0
        return [rec(vals[i * step:(i + 1) * step], ds[1:]) for i in range(ds[0])]

    return rec(flat, dims)


def _concat(parts, axis):
    if axis in (None, 0):
        return [v for part in parts for v in (part if isinstance(part, (list, tuple)) else [part])]
    n = len(parts[0])
    return [_concat([p_[i] for p_ in parts], axis - 1) for i in range(n)]


def _axis(k, a, pos=1):
    ax = k.get("axis", a[pos] if len(a) > pos else None)
    return None if ax is None else _int(ax)


def externals(interp_truth=None):
    """name -> model.  ``.name`` entries are methods on list receivers."""
    def truth(v):
        if isinstance(v, bool):
            return v
        if interp_truth is not None:
            return interp_truth(v)
        raise Undecided("truth of a symbolic value")

    ext = {
        "__elementwise__": True,
        "astensor": lambda a, k: _copy(a[0]) if isinstance(a[0], (list, tuple)) else a[0],
        "tolist": lambda a, k: a[0],
        "concatenate": lambda a, k: _concat(a[0], _axis(k, a)),
        "reshape": lambda a, k: _reshape(a[0], a[1]),
        "sum": lambda a, k: _sum_axis(a[0], _axis(k, a)),
        "sqrt": lambda a, k: _map(lambda v: fn("sqrt", to_poly(v)), a[0]),
        "zeros": lambda a, k: _full(a[0], Poly()),
        "ones": lambda a, k: _full(a[0], Poly.const(1)),
        "tile": lambda a, k: _tile(a[0], [_int(r) for r in a[1]] if isinstance(a[1], (list, tuple)) else [_int(a[1])]),
        "shape": lambda a, k: tuple(Poly.const(d) for d in _shape(a[0])),
        ".any": lambda recv, a, k: any(truth(v) for v in _flatten(recv)),
        ".all": lambda recv, a, k: all(truth(v) for v in _flatten(recv)),
    }
    return ext


def elementwise_compare(cmp, left, right):
    return _zip(cmp, left, right)
