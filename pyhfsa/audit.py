"""Self-audit (thorough tier): placeholder until the variant tables exist."""


def run_audit(props, repo_root, jobs=16, into_evidence=False, verbose=False):
    return 0
