"""Self-audit of the checkers (thorough tier / `pyhfsa selftest`).

Each variant is a one-site textual edit of a scratch copy of src/pyhf (under
/dev/shm or $TMPDIR, removed immediately).  'fire' variants break a rule and
must be reported with exit 1 naming that rule; 'silent' variants are
behaviour-preserving and must leave the verdict unchanged.  Nothing is
executed from the copy: it is only parsed by the same checker.

Audit results never change a check's exit status: they are reported in the
evidence (`audit` key) and on stdout as AUDIT lines.
"""

from __future__ import annotations

import json
import os
import shutil
import subprocess
import sys
import tempfile
import time
from concurrent.futures import ThreadPoolExecutor
from pathlib import Path

VERIF = Path(__file__).resolve().parent.parent



def _child_env():
    """environment of the checks the audit starts: never the thorough tier (no audit inside an audit)"""
    env = dict(os.environ)
    env.pop("VERIF_TIER", None)
    env["PYHFSA_IN_AUDIT"] = "1"
    return env


def _scratch_root():
    for base in ("/dev/shm", os.environ.get("TMPDIR", ""), "/var/tmp", "/tmp"):
        if base and os.path.isdir(base) and os.access(base, os.W_OK):
            return base
    return tempfile.gettempdir()


def _run_variant(v, repo_root):
    src = Path(repo_root) / "src" / "pyhf"
    tmp = Path(tempfile.mkdtemp(prefix="pyhfsa-audit-", dir=_scratch_root()))
    try:
        shutil.copytree(src, tmp / "src" / "pyhf", ignore=shutil.ignore_patterns("__pycache__"))
        applied = True
        for rel, old, new in v["edits"]:
            p = tmp / rel
            if not p.exists():
                applied = False
                break
            text = p.read_text()
            if text.count(old) != 1:
                applied = False
                break
            p.write_text(text.replace(old, new))
        if not applied:
            return {**_pub(v), "status": "skipped", "why": "anchor text not found exactly once (tree differs from the pinned one)"}
        # the variant must still compile
        for rel, _, _ in v["edits"]:
            try:
                compile((tmp / rel).read_text(), rel, "exec")
            except SyntaxError as e:
                return {**_pub(v), "status": "broken-variant", "why": str(e)}
        cmd = [sys.executable, "-m", "pyhfsa", "check", v["prop"], "--tier", "quick", "--repo", str(tmp), "--no-evidence"]
        pr = subprocess.run(cmd, cwd=str(VERIF), capture_output=True, text=True, timeout=300, env=_child_env())
        out = pr.stdout
        fired_rules = sorted({ln.split()[1] for ln in out.splitlines() if ln.strip().startswith("rule ")})
        if v["expect"] == "fire":
            ok = pr.returncode == 1 and (not v.get("rule") or v["rule"] in fired_rules)
        else:
            ok = pr.returncode == v.get("base_rc", 0) and set(fired_rules) <= set(v.get("base_rules", []))
        return {**_pub(v), "status": "ok" if ok else "MISMATCH", "rc": pr.returncode, "fired": fired_rules,
                "detail": "" if ok else out[-1500:]}
    finally:
        shutil.rmtree(tmp, ignore_errors=True)


def _run_seed(seed_dir, prop, repo_root):
    """Apply a kept seeded change (a unified diff) to a scratch copy of src/ and run the property's check on it."""
    tmp = Path(tempfile.mkdtemp(prefix="pyhfsa-seed-", dir=_scratch_root()))
    try:
        shutil.copytree(Path(repo_root) / "src", tmp / "src", ignore=shutil.ignore_patterns("__pycache__"))
        pr = subprocess.run(["patch", "-p1", "-s", "-i", str(seed_dir / "patch.diff")], cwd=str(tmp), capture_output=True, text=True)
        if pr.returncode != 0:
            return {"seed": seed_dir.name, "status": "skipped", "why": "patch does not apply to this tree"}
        cmd = [sys.executable, "-m", "pyhfsa", "check", prop, "--tier", "quick", "--repo", str(tmp), "--no-evidence"]
        r = subprocess.run(cmd, cwd=str(VERIF), capture_output=True, text=True, timeout=300, env=_child_env())
        fired = sorted({ln.split()[1] for ln in r.stdout.splitlines() if ln.strip().startswith("rule ")})
        return {"seed": seed_dir.name, "status": "detected" if r.returncode == 1 else ("analysis-error" if r.returncode == 2 else "not detected by this check"), "rules": fired}
    finally:
        shutil.rmtree(tmp, ignore_errors=True)


def _pub(v):
    return {"id": v["id"], "prop": v["prop"], "expect": v["expect"], "rule": v.get("rule", ""), "what": v.get("what", "")}


def run_audit(props, repo_root, jobs=16, into_evidence=False, verbose=False):
    from . import variants as V

    t0 = time.time()
    todo = [v for v in V.VARIANTS if v["prop"] in props]
    # baseline verdict of each property on this tree (silent variants must reproduce it)
    base = {}
    for p in sorted({v["prop"] for v in todo if v["expect"] == "silent"}):
        # always the QUICK tier, whatever VERIF_TIER says in the environment: a thorough child would start its own audit
        pr = subprocess.run([sys.executable, "-m", "pyhfsa", "check", p, "--tier", "quick", "--repo", str(repo_root), "--no-evidence"], cwd=str(VERIF), capture_output=True, text=True, timeout=600, env=_child_env())
        base[p] = (pr.returncode, sorted({ln.split()[1] for ln in pr.stdout.splitlines() if ln.strip().startswith("rule ")}))
    for v in todo:
        if v["expect"] == "silent":
            v["base_rc"], v["base_rules"] = base[v["prop"]]
    with ThreadPoolExecutor(max_workers=jobs) as ex:
        results = list(ex.map(lambda v: _run_variant(v, repo_root), todo))
    n_ok = sum(1 for r in results if r["status"] == "ok")
    n_skip = sum(1 for r in results if r["status"] == "skipped")
    n_bad = [r for r in results if r["status"] not in ("ok", "skipped")]
    for r in results:
        if verbose or r["status"] not in ("ok",):
            print(f"AUDIT {r['status']:9s} {r['prop']} {r['id']} expect={r['expect']} rule={r['rule']} fired={r.get('fired')}")
            if r["status"] == "MISMATCH" and verbose:
                print(r.get("detail", ""))
    print(f"AUDIT summary: {len(results)} variants, {n_ok} as expected, {n_skip} skipped, {len(n_bad)} mismatching, {time.time() - t0:.1f}s")
    # kept seeded changes (confirmed property-breaking patches, see /verif/seeded): replayed on scratch copies
    seed_results = {}
    seeded_root = VERIF / "seeded"
    if seeded_root.is_dir():
        jobs_ = []
        for d in sorted(seeded_root.iterdir()):
            if not (d / "patch.diff").exists() or not (d / "meta.json").exists():
                continue
            try:
                meta = json.loads((d / "meta.json").read_text())
            except Exception:
                continue
            targets = {meta.get("property")} | set((meta.get("caught_by") or {}).keys())
            for p in props:
                if p in targets:
                    jobs_.append((d, p))
        with ThreadPoolExecutor(max_workers=jobs) as ex:
            for (d, p), res in zip(jobs_, ex.map(lambda dp: _run_seed(dp[0], dp[1], repo_root), jobs_)):
                if res["status"] == "not detected by this check":
                    try:
                        others = {k: v for k, v in (json.loads((d / "meta.json").read_text()).get("caught_by") or {}).items() if k != p}
                    except Exception:
                        others = {}
                    if others:
                        res["status"] = "breaks this property, reported by another property's check"
                        res["reported_by"] = others
                seed_results.setdefault(p, []).append(res)
                if verbose or res["status"] != "detected":
                    print(f"SEED  {res['status']:28s} {p} {res['seed']} rules={res.get('rules')}")
        n_det = sum(1 for rs in seed_results.values() for r in rs if r["status"] == "detected")
        print(f"SEED summary: {sum(len(v) for v in seed_results.values())} replays, {n_det} detected")
    # behaviour-preserving maintainer changes (/verif/benign_corpus): every check stays quiet on every one of them
    benign_results = {}
    benign_root = VERIF / "benign_corpus"
    n_alarm = 0
    if benign_root.is_dir():
        allowed = {}
        try:
            sys.path.insert(0, str(VERIF / "tools"))
            import benign_corpus as _bc
            allowed = dict(_bc.EXPECTED_UNDECIDED)
        except Exception:
            allowed = {}
        finally:
            if str(VERIF / "tools") in sys.path:
                sys.path.remove(str(VERIF / "tools"))
        bjobs = [(d, p) for d in sorted(benign_root.iterdir()) if (d / "patch.diff").exists() for p in props]
        with ThreadPoolExecutor(max_workers=jobs) as ex:
            for (d, p), res in zip(bjobs, ex.map(lambda dp: _run_seed(dp[0], dp[1], repo_root), bjobs)):
                st = res["status"]
                if st == "detected":
                    kind = "ALARM"
                elif st == "analysis-error":
                    kind = "undecided (expected)" if p in (allowed.get(d.name) or {}) else "ALARM (cannot decide)"
                elif st == "skipped":
                    kind = "skipped"
                else:
                    kind = "quiet"
                benign_results.setdefault(p, []).append({"change": d.name, "verdict": kind, "rules": res.get("rules")})
                if kind.startswith("ALARM"):
                    n_alarm += 1
                    print(f"BENIGN {kind:22s} {p} {d.name} rules={res.get('rules')}")
                elif verbose or kind.startswith("undecided"):
                    print(f"BENIGN {kind:22s} {p} {d.name}")
        print(f"BENIGN summary: {len(bjobs)} replays of {len({d.name for d, _ in bjobs})} behaviour-preserving changes, {n_alarm} alarms")
    if into_evidence:
        for p in props:
            f = VERIF / "evidence" / f"{p}.json"
            if f.exists():
                ev = json.loads(f.read_text())
                mine = [r for r in results if r["prop"] == p]
                ev["coverage"]["audit"] = {
                    "variants": len(mine),
                    "as_expected": sum(1 for r in mine if r["status"] == "ok"),
                    "skipped": sum(1 for r in mine if r["status"] == "skipped"),
                    "mismatching": [r["id"] for r in mine if r["status"] not in ("ok", "skipped")],
                    "firing_variants": [f"{r['id']}: {r['what']} -> {r['fired']}" for r in mine if r["expect"] == "fire" and r["status"] == "ok"][:60],
                    "silent_variants": [f"{r['id']}: {r['what']}" for r in mine if r["expect"] == "silent" and r["status"] == "ok"][:40],
                }
                ev["coverage"]["seeded_changes_replayed"] = seed_results.get(p, [])
                br = benign_results.get(p, [])
                ev["coverage"]["behaviour_preserving_changes_replayed"] = {"changes": len(br), "quiet": sum(1 for b in br if b["verdict"] == "quiet"), "not_quiet": [b for b in br if b["verdict"] != "quiet"]}
                ev["wall_s"] = round(ev.get("wall_s", 0) + (time.time() - t0), 3)
                f.write_text(json.dumps(ev, indent=1))
    return 0 if not n_bad and not n_alarm else 3
