"""Where a syntax node lives: (module, class) of every node of the package, recorded when the repository is loaded.

The interpreter is usually handed ONE function or class and a scenario around it.  When the code under interpretation
reaches for something of its own module that the scenario did not provide -- a private helper function, a module-level
table or constant, another method of its class, a function imported from a sibling module -- the interpreter asks here and
interprets THAT code too, instead of giving up.  Extracting a helper, hoisting a table to module level or splitting a
method are then not 'unrecognised constructs'.
"""

from __future__ import annotations

import ast

_HOME: dict[int, tuple] = {}
_FN_PARENT: dict[int, object] = {}
_REPO = [None]


def register(repo):
    _REPO[0] = repo
    _HOME.clear()
    _FN_PARENT.clear()
    for m in repo.modules.values():
        def walk(node, cls, fn):
            for c in ast.iter_child_nodes(node):
                _HOME[id(c)] = (m, cls, fn)
                if isinstance(c, (ast.FunctionDef, ast.AsyncFunctionDef)):
                    _FN_PARENT[id(c)] = fn
                walk(c, m.classes.get(c.name, cls) if isinstance(c, ast.ClassDef) and node is m.tree else cls, c if isinstance(c, (ast.FunctionDef, ast.AsyncFunctionDef)) else fn)
        walk(m.tree, None, None)


def repo():
    return _REPO[0]


def of(node):
    """(module, class or None) of a node of the loaded package, or (None, None)"""
    return _HOME.get(id(node), (None, None, None))[:2]


def func_of(node):
    """the innermost function definition a node of the package is written in, or None"""
    return _HOME.get(id(node), (None, None, None))[2]


def adopt(new, like):
    """a node synthesised from `like` (canonical forms, moved expressions) lives where `like` lives"""
    if id(like) in _HOME:
        for n in ast.walk(new):
            _HOME.setdefault(id(n), _HOME[id(like)])


def method_of(cls, name, _seen=None):
    """the Func of method `name` of a package class, looking through package base classes"""
    _seen = _seen or set()
    if cls is None or id(cls) in _seen:
        return None
    _seen.add(id(cls))
    if name in cls.methods:
        return cls.methods[name]
    r = _REPO[0]
    for b in cls.base_names():
        if not b or r is None:
            continue
        kind, obj = r.resolve_name(cls.module, b)
        if kind == "class":
            f = method_of(obj, name, _seen)
            if f is not None:
                return f
    return None


def enclosing_functions(node):
    """the function definitions a node is written in, innermost first"""
    out, fn = [], func_of(node)
    while fn is not None and len(out) < 8:
        out.append(fn)
        fn = _FN_PARENT.get(id(fn))
    return out
