"""PROV -- backend provenance of values and of ``self`` attributes.

Lattice (total order, join = max):  PY < DEF < CUR
  PY   python data / objects, backend independent
  DEF  tensor of ``pyhf.default_backend`` (numpy unless the *default* is switched)
  CUR  tensor (or handle) of the *current* backend, i.e. stale after a switch

Resolver facts (repo-specific, trusted base):
  * ``X, _ = get_backend()`` / ``X = get_backend()[0]`` / ``pyhf.tensorlib``   -> X is the CUR handle
  * ``pyhf.default_backend`` (module __getattr__) / ``get_backend(default=True)`` -> DEF handle
  * ``h.op(...)`` has the provenance of ``h`` except for ops returning python data
"""

from __future__ import annotations

import ast
from dataclasses import dataclass, field

from . import astutil as A

PY, DEF, CUR = 0, 1, 2
NAMES = {PY: "PY", DEF: "DEF", CUR: "CUR"}

# backend methods that return python data whatever the backend
PY_OPS = {"shape", "tolist", "name", "precision", "dtypemap", "default_do_grad", "_setup"}


def _is_get_backend(call: ast.AST) -> bool:
    return isinstance(call, ast.Call) and (A.call_attr(call) == "get_backend")


def _gb_default(call: ast.Call) -> bool:
    for k in call.keywords:
        if k.arg == "default" and A.const_value(k.value) is True:
            return True
    if call.args and A.const_value(call.args[0]) is True:
        return True
    return False


def handle_of_expr(e) -> int | None:
    """Is expression a backend *handle*? returns CUR/DEF or None."""
    d = A.dotted(e)
    if d in ("pyhf.default_backend", "default_backend") and not isinstance(e, ast.Name):
        return DEF
    if d == "pyhf.tensorlib":
        return CUR
    if isinstance(e, ast.Subscript) and _is_get_backend(e.value) and A.const_value(e.slice) == 0:
        return DEF if _gb_default(e.value) else CUR
    return None


class FuncProv:
    """Provenance of locals and expressions inside one function (flow-insensitive)."""

    def __init__(self, fn_node, attr_prov=None, repo=None, module=None):
        self.fn = fn_node
        self.attr_prov = attr_prov or {}
        self.repo = repo
        self.module = module
        self.handles: dict[str, int] = {}
        self.local: dict[str, int] = {}
        self._scan_handles()
        self._fix()

    def _scan_handles(self):
        for n in A.walk(self.fn, into_defs=True):
            if isinstance(n, ast.Assign):
                v = n.value
                for t in n.targets:
                    if isinstance(t, (ast.Tuple, ast.List)) and _is_get_backend(v) and t.elts and isinstance(t.elts[0], ast.Name):
                        self.handles[t.elts[0].id] = DEF if _gb_default(v) else CUR
                    elif isinstance(t, ast.Name):
                        h = handle_of_expr(v)
                        if h is not None:
                            self.handles[t.id] = h

    def _fix(self):
        for _ in range(6):
            changed = False
            for n in A.walk(self.fn, into_defs=True):
                pairs = []
                if isinstance(n, ast.Assign):
                    for t in n.targets:
                        pairs += self._pairs(t, n.value)
                elif isinstance(n, ast.AugAssign):
                    pairs += self._pairs(n.target, n.value)
                elif isinstance(n, (ast.For, ast.comprehension)):
                    pairs += self._pairs(n.target, n.iter)
                for nm, val in pairs:
                    if nm in self.handles:
                        continue
                    p = self.prov(val)
                    if p > self.local.get(nm, PY):
                        self.local[nm] = p
                        changed = True
            if not changed:
                break

    def _pairs(self, tgt, val):
        if isinstance(tgt, ast.Name):
            return [(tgt.id, val)]
        if isinstance(tgt, (ast.Tuple, ast.List)):
            if isinstance(val, (ast.Tuple, ast.List)) and len(val.elts) == len(tgt.elts):
                out = []
                for t, v in zip(tgt.elts, val.elts):
                    out += self._pairs(t, v)
                return out
            out = []
            for t in tgt.elts:
                out += self._pairs(t, val)
            return out
        return []

    # ------------------------------------------------------------------
    def prov(self, e) -> int:
        if e is None or isinstance(e, (ast.Constant, ast.JoinedStr)):
            return PY
        h = handle_of_expr(e)
        if h is not None:
            return h
        if isinstance(e, ast.Name):
            if e.id in self.handles:
                return self.handles[e.id]
            return self.local.get(e.id, PY)
        if isinstance(e, ast.Attribute):
            d = A.dotted(e)
            if d and d.startswith("self."):
                parts = d.split(".")
                if len(parts) == 2:
                    return self.attr_prov.get(parts[1], PY)
                # self.sub.attr -> sub-object's attribute: treated by R3, value PY here
                if parts[-1] in ("shape", "dtype"):
                    return PY
                return PY
            if e.attr in ("shape", "dtype", "ndim", "size"):
                return PY
            return self.prov(e.value)
        if isinstance(e, ast.Call):
            f = e.func
            if isinstance(f, ast.Attribute):
                hp = None
                hv = handle_of_expr(f.value)
                if hv is not None:
                    hp = hv
                elif isinstance(f.value, ast.Name) and f.value.id in self.handles:
                    hp = self.handles[f.value.id]
                if hp is not None:
                    return PY if f.attr in PY_OPS else hp
                if f.attr in ("tolist", "item", "any", "all"):
                    return PY
                # method on some value: join receiver and arguments
                return max([self.prov(f.value)] + [self.prov(a) for a in e.args] + [self.prov(k.value) for k in e.keywords])
            if _is_get_backend(e):
                return CUR
            name = A.dotted(f)
            if name in ("len", "int", "float", "bool", "str", "range", "isinstance", "sum", "any", "all", "sorted", "set", "enumerate", "zip", "dict", "tuple"):
                if name in ("sorted", "set", "enumerate", "zip", "dict", "tuple", "sum"):
                    return max([PY] + [self.prov(a) for a in e.args])
                return PY
            if name == "list":
                return max([PY] + [self.prov(a) for a in e.args])
            # in-package function / class?
            if self.repo is not None and self.module is not None and name:
                kind, obj = self.repo.resolve_name(self.module, name)
                if kind == "class":
                    return PY  # an object; its own attributes are analysed with its class
                if kind == "func":
                    return max([callee_result_prov(obj)] + [self.prov(a) for a in e.args])
            return max([PY] + [self.prov(a) for a in e.args] + [self.prov(k.value) for k in e.keywords])
        if isinstance(e, ast.BinOp):
            return max(self.prov(e.left), self.prov(e.right))
        if isinstance(e, ast.UnaryOp):
            return self.prov(e.operand)
        if isinstance(e, ast.BoolOp):
            return max(self.prov(v) for v in e.values)
        if isinstance(e, ast.Compare):
            return max([self.prov(e.left)] + [self.prov(c) for c in e.comparators])
        if isinstance(e, ast.IfExp):
            return max(self.prov(e.body), self.prov(e.orelse))
        if isinstance(e, ast.Subscript):
            return self.prov(e.value)
        if isinstance(e, (ast.Tuple, ast.List, ast.Set)):
            return max([PY] + [self.prov(x) for x in e.elts])
        if isinstance(e, ast.Dict):
            return max([PY] + [self.prov(x) for x in e.values if x is not None])
        if isinstance(e, (ast.ListComp, ast.SetComp, ast.GeneratorExp)):
            return self.prov(e.elt)
        if isinstance(e, ast.DictComp):
            return self.prov(e.value)
        if isinstance(e, ast.Starred):
            return self.prov(e.value)
        if isinstance(e, ast.Lambda):
            return PY
        return PY


_CALLEE_CACHE: dict = {}


def callee_result_prov(func) -> int:
    """Coarse summary: a package function that fetches the current backend returns CUR data."""
    k = func.key
    if k in _CALLEE_CACHE:
        return _CALLEE_CACHE[k]
    p = PY
    for n in ast.walk(func.node):
        if _is_get_backend(n) and not _gb_default(n):
            p = CUR
            break
        d = A.dotted(n) if isinstance(n, ast.Attribute) else None
        if d == "pyhf.tensorlib":
            p = CUR
            break
        if d == "pyhf.default_backend":
            p = max(p, DEF)
    _CALLEE_CACHE[k] = p
    return p


# ----------------------------------------------------------------------
@dataclass
class AttrAssign:
    method: str
    attr: str
    prov: int
    node: ast.AST  # the assignment statement
    value: ast.AST
    order: int


@dataclass
class ClassProv:
    cls: object
    assigns: list = field(default_factory=list)  # AttrAssign
    attr_prov: dict = field(default_factory=dict)  # attr -> joined prov
    subscribed: dict = field(default_factory=dict)  # method name -> subscribe Call node
    sub_objects: dict = field(default_factory=dict)  # attr -> (class name, assign stmt)


def subscriptions(init_node, event="tensorlib_changed"):
    """{method: call} for  events.subscribe('<event>')(self.method)  inside __init__."""
    out = {}
    for c in A.calls_in(init_node):
        f = c.func
        if isinstance(f, ast.Call) and A.call_attr(f) == "subscribe" and f.args and A.const_value(f.args[0]) == event:
            if c.args:
                d = A.dotted(c.args[0])
                if d and d.startswith("self."):
                    out[d.split(".", 1)[1]] = c
    return out


def analyse_class(cls, repo) -> ClassProv:
    cp = ClassProv(cls=cls)
    init = cls.methods.get("__init__")
    if init is not None:
        cp.subscribed = subscriptions(init.node)
    # iterate attribute provenance to a fixpoint over all methods
    for _ in range(5):
        cp.assigns = []
        before = dict(cp.attr_prov)
        order = 0
        for mname, m in cls.methods.items():
            fp = FuncProv(m.node, cp.attr_prov, repo, cls.module)
            for n in A.walk_ordered(m.node, into_defs=False):
                targets = []
                if isinstance(n, ast.Assign):
                    targets = [(t, n.value) for t in n.targets]
                elif isinstance(n, ast.AugAssign):
                    targets = [(n.target, n.value)]
                elif isinstance(n, ast.AnnAssign) and n.value is not None:
                    targets = [(n.target, n.value)]
                for t, v in targets:
                    for tt, vv in _flatten(t, v):
                        d = A.dotted(tt) if isinstance(tt, ast.Attribute) else None
                        if d and d.startswith("self.") and d.count(".") == 1:
                            attr = A.mangle(cls.name, d.split(".")[1])
                            p = fp.prov(vv)
                            order += 1
                            cp.assigns.append(AttrAssign(mname, attr, p, n, vv, order))
                            cp.attr_prov[attr] = max(cp.attr_prov.get(attr, PY), p)
                            if mname == "__init__" and isinstance(vv, ast.Call):
                                obj = constructed_class(repo, cls.module, vv)
                                if obj is not None:
                                    cp.sub_objects[attr] = (obj, n)
        if cp.attr_prov == before:
            break
    return cp


def constructed_class(repo, module, call, depth=0):
    """Class of the object a call expression yields: a constructor call, or a package
    function all of whose value-returns are such calls (factory helpers)."""
    if depth > 3 or not isinstance(call, ast.Call):
        return None
    nm = A.dotted(call.func)
    if not nm:
        return None
    kind, obj = repo.resolve_name(module, nm)
    if kind == "class":
        return obj
    if kind == "func":
        found = None
        for n in ast.walk(obj.node):
            if isinstance(n, ast.Return) and n.value is not None and not (isinstance(n.value, ast.Constant) and n.value.value is None):
                c = constructed_class(repo, obj.module, n.value, depth + 1)
                if c is None:
                    return None
                found = c
        return found
    return None


def _flatten(t, v):
    if isinstance(t, (ast.Tuple, ast.List)):
        if isinstance(v, (ast.Tuple, ast.List)) and len(v.elts) == len(t.elts):
            out = []
            for a, b in zip(t.elts, v.elts):
                out += _flatten(a, b)
            return out
        out = []
        for a in t.elts:
            out += _flatten(a, v)
        return out
    return [(t, v)]
