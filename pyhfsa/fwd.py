"""FWD -- parameter forwarding between a caller and a resolved callee."""

from __future__ import annotations

import ast

from . import astutil as A
from .dep import Deps


def check_forward(ctx, rid, caller, call: ast.Call, callee, *, names=None, alias=None,
                  exceptions=None, skip_self=False, deps: Deps | None = None, require_kwargs=True):
    """For every parameter name shared by caller and callee (or listed in
    ``names`` / mapped by ``alias`` {caller_param: callee_param}) the callee's
    formal must receive a value that depends on the caller's parameter.

    exceptions: {callee_param: reason} -- explained non-violations.
    """
    exceptions = exceptions or {}
    alias = alias or {}
    deps = deps or Deps(caller.node)
    cps = [p for p in A.params_of(caller.node) if p not in ("self", "cls")]
    gps = [p for p in A.params_of(callee.node) if p not in ("self", "cls")]
    bound = A.bind_args(call, callee.node, skip_self=skip_self)
    ctx.call_sites += 1
    site = f"{caller.relpath}::{caller.qualname} -> {callee.qualname}"
    pairs = []
    for p in cps:
        if p.startswith("*"):
            continue
        q = alias.get(p, p)
        if q in gps and (names is None or p in names):
            pairs.append((p, q))
    for p, q in pairs:
        if q in exceptions:
            ctx.holds(rid, f"{site}: {q}", f"explained exception: {exceptions[q]}")
            continue
        actual = bound.get(q)
        if actual is None:
            # may travel through a forwarded ** mapping that is itself derived from p
            via = [s for s in bound["**"] if deps.depends_on(s, p)]
            if via:
                ctx.holds(rid, f"{site}: {q}", "forwarded inside ** mapping")
                continue
            ctx.violated(
                rid, caller, call,
                f"parameter `{p}` of {caller.qualname} is not passed to {callee.qualname}({q}=...); the callee uses its own default",
                expected=f"{q}=<value derived from {p}>", found="argument absent", node=call,
            )
            continue
        if deps.depends_on(actual, p):
            ctx.holds(rid, f"{site}: {q}", f"{q} <- {A.short(actual, 60)}")
        else:
            ctx.violated(
                rid, caller, call,
                f"{callee.qualname}({q}=...) receives `{A.short(actual, 60)}` which does not depend on the caller's `{p}`",
                expected=f"{q}=<value derived from {p}>", found=A.short(actual, 80), node=call,
            )
    if require_kwargs:
        ckw = [p for p in cps if p.startswith("**")]
        gkw = [p for p in gps if p.startswith("**")]
        if ckw and gkw:
            nm = ckw[0][2:]
            if any(deps.depends_on(s, nm) for s in bound["**"]):
                ctx.holds(rid, f"{site}: **{nm}", "keyword mapping forwarded")
            else:
                ctx.violated(
                    rid, caller, call,
                    f"keyword options `**{nm}` of {caller.qualname} are not forwarded to {callee.qualname}",
                    expected=f"**{nm}", found="no ** argument derived from it", node=call,
                )
    return bound


def calls_to(fn_node, target_names, *, into_defs=True):
    """Call nodes in fn whose dotted callee ends with one of target_names."""
    out = []
    for c in A.calls_in(fn_node, into_defs=into_defs):
        d = A.call_name(c)
        if d and d.split(".")[-1] in target_names:
            out.append(c)
    return out
