"""Parse <repo>/src/pyhf afresh and index modules, classes, functions."""

from __future__ import annotations

import ast
import hashlib
import os
from dataclasses import dataclass, field
from pathlib import Path
from typing import Optional

from . import astutil as A
from .canon import canonicalise


class AnalysisError(Exception):
    """An anchor vanished / a floor is not met / a construct cannot be resolved.

    Exit code 2: neither a pass nor a violation.
    """


@dataclass
class Func:
    module: "Module"
    qualname: str  # 'Class.method' or 'func' or 'func.<locals>.inner'
    node: ast.AST
    cls: Optional["Class"] = None

    @property
    def name(self):
        return self.node.name

    @property
    def relpath(self):
        return self.module.relpath

    @property
    def key(self):
        return f"{self.module.relpath}::{self.qualname}"

    def params(self):
        return A.params_of(self.node)


@dataclass
class Class:
    module: "Module"
    name: str
    node: ast.ClassDef
    methods: dict = field(default_factory=dict)  # name -> Func
    setters: dict = field(default_factory=dict)  # property name -> Func of its @<name>.setter
    attrs: dict = field(default_factory=dict)  # class-level assignments name -> value node

    @property
    def relpath(self):
        return self.module.relpath

    def base_names(self):
        return [A.dotted(b) for b in self.node.bases]


@dataclass
class Module:
    name: str  # 'pyhf.pdf'
    relpath: str  # 'src/pyhf/pdf.py'
    path: Path
    source: str
    tree: ast.Module
    imports: dict = field(default_factory=dict)  # local alias -> absolute dotted name
    funcs: dict = field(default_factory=dict)  # qualname -> Func (all nesting levels)
    classes: dict = field(default_factory=dict)  # name -> Class
    assigns: dict = field(default_factory=dict)  # top-level name -> value node


class Repo:
    def __init__(self, root: str | os.PathLike = "/repo"):
        self.root = Path(root)
        self.src = self.root / "src" / "pyhf"
        if not self.src.is_dir():
            raise AnalysisError(f"no package directory at {self.src}")
        self.modules: dict[str, Module] = {}
        self.by_relpath: dict[str, Module] = {}
        self._load()
        from . import home
        home.register(self)

    # ------------------------------------------------------------------
    def _load(self):
        # attribute names assigned as `<something>.NAME = ...` anywhere in the package: a module constant of that name may be
        # replaced from outside (events.noop, variables.schemas ...) and is never treated as a literal by the canonical form
        stored_attrs = set()
        for p in sorted(self.src.rglob("*.py")):
            try:
                for n in ast.walk(ast.parse(p.read_text(encoding="utf-8"))):
                    if isinstance(n, ast.Attribute) and isinstance(n.ctx, (ast.Store, ast.Del)):
                        stored_attrs.add(n.attr)
                    elif isinstance(n, ast.Call) and isinstance(n.func, ast.Name) and n.func.id in ("setattr", "delattr") and len(n.args) >= 2 and isinstance(n.args[1], ast.Constant):
                        stored_attrs.add(n.args[1].value)
            except SyntaxError:
                pass
        # private names of the pinned tree that this tree spells differently are renamed back first (relocate.py)
        parsed = {}
        for p in sorted(self.src.rglob("*.py")):
            rel = p.relative_to(self.root).as_posix()
            try:
                parsed[rel] = ast.parse(p.read_text(encoding="utf-8"), filename=str(p))
            except SyntaxError as e:
                raise AnalysisError(f"cannot parse {rel}: {e}")
        self.relocated = []
        if os.environ.get("PYHFSA_NO_RELOCATE") != "1":
            from . import relocate
            self.relocated = relocate.plan(parsed)
            relocate.apply(parsed, self.relocated)
        for p in sorted(self.src.rglob("*.py")):
            rel = p.relative_to(self.root).as_posix()
            parts = list(p.relative_to(self.root / "src").with_suffix("").parts)
            if parts[-1] == "__init__":
                parts = parts[:-1]
            name = ".".join(parts)
            src = p.read_text(encoding="utf-8")
            tree = parsed[rel]
            if os.environ.get("PYHFSA_NO_CANON") != "1":
                canonicalise(tree, stored_attrs)  # module constants, temporaries, append loops and if/else assignments in their expression form (see canon.py)
            m = Module(name=name, relpath=rel, path=p, source=src, tree=tree)
            self._index(m)
            self.modules[name] = m
            self.by_relpath[rel] = m

    def _index(self, m: Module):
        pkg = m.name if m.path.name == "__init__.py" else m.name.rsplit(".", 1)[0]
        for n in ast.walk(m.tree):
            if isinstance(n, ast.Import):
                for a in n.names:
                    m.imports[a.asname or a.name.split(".")[0]] = (
                        a.name if a.asname else a.name.split(".")[0]
                    )
            elif isinstance(n, ast.ImportFrom):
                base = n.module or ""
                if n.level:
                    up = pkg.split(".")
                    up = up[: len(up) - (n.level - 1)]
                    base = ".".join(up + ([n.module] if n.module else []))
                for a in n.names:
                    m.imports[a.asname or a.name] = f"{base}.{a.name}"
        for st in m.tree.body:
            if isinstance(st, ast.Assign):
                for t in st.targets:
                    for nm in A.assigned_names(t):
                        m.assigns[nm] = st.value
            elif isinstance(st, ast.AnnAssign) and st.value is not None:
                for nm in A.assigned_names(st.target):
                    m.assigns[nm] = st.value

        def visit(body, prefix, cls):
            for st in body:
                if isinstance(st, (ast.FunctionDef, ast.AsyncFunctionDef)):
                    q = f"{prefix}{st.name}"
                    # property setters etc. share a name: keep first, suffix others
                    k = q
                    i = 2
                    while k in m.funcs:
                        k = f"{q}#{i}"
                        i += 1
                    f = Func(module=m, qualname=k, node=st, cls=cls)
                    m.funcs[k] = f
                    if cls is not None and prefix == cls.name + ".":
                        if any(isinstance(d, ast.Attribute) and d.attr == "setter" for d in st.decorator_list):
                            cls.setters[st.name] = f  # @<name>.setter: what an assignment to the property runs
                        else:
                            cls.methods.setdefault(st.name, f)
                    visit(st.body, f"{k}.<locals>.", None)
                elif isinstance(st, ast.ClassDef):
                    c = Class(module=m, name=st.name, node=st)
                    if prefix == "":
                        m.classes[st.name] = c
                    for s2 in st.body:
                        if isinstance(s2, ast.Assign):
                            for t in s2.targets:
                                for nm in A.assigned_names(t):
                                    c.attrs[nm] = s2.value
                        elif isinstance(s2, ast.AnnAssign) and s2.value is not None:
                            for nm in A.assigned_names(s2.target):
                                c.attrs[nm] = s2.value
                    visit(st.body, f"{prefix}{st.name}.", c)
                elif isinstance(st, (ast.If, ast.Try, ast.With, ast.For, ast.While)):
                    for fld in ("body", "orelse", "finalbody"):
                        visit(getattr(st, fld, []) or [], prefix, cls)
                    for h in getattr(st, "handlers", []) or []:
                        visit(h.body, prefix, cls)

        visit(m.tree.body, "", None)

    # ------------------------------------------------------------------
    def module(self, relpath_or_name: str) -> Module:
        m = self.by_relpath.get(relpath_or_name) or self.modules.get(relpath_or_name)
        if m is None:
            raise AnalysisError(f"anchor vanished: module {relpath_or_name}")
        return m

    def func(self, relpath: str, qualname: str) -> Func:
        m = self.module(relpath)
        f = m.funcs.get(qualname)
        if f is None and "." not in qualname:
            kind, obj = self.resolve_name(m, qualname)  # moved to another module of the package and imported back
            if kind == "func":
                return obj
        if f is None:
            raise AnalysisError(f"anchor vanished: function {relpath}::{qualname}")
        return f

    def helpers_of(self, f: Func, depth=2):
        """module-level functions of f's module and methods of f's class that f hands work to (transitively, bounded): a block
        moved into `_check_items_exist(...)` or `self._helper(...)` is still part of what f does"""
        out, todo, seen = [], [(f, 0)], {id(f.node)}
        while todo:
            g, d = todo.pop(0)
            if d >= depth:
                continue
            for c in A.calls_in(g.node):
                tgt = None
                if isinstance(c.func, ast.Name):
                    kind, obj = self.resolve_name(g.module, c.func.id)
                    if kind == "func" and obj.module is g.module and obj.cls is None:
                        tgt = obj
                elif isinstance(c.func, ast.Attribute) and isinstance(c.func.value, ast.Name) and c.func.value.id in ("self", "cls") and g.cls is not None:
                    tgt = g.cls.methods.get(c.func.attr)
                if tgt is None and isinstance(c.func, ast.Name):
                    kind, obj = self.resolve_name(g.module, c.func.id)
                    if kind == "class" and obj.module is g.module and obj.name.startswith("_"):
                        tgt = obj.methods.get("__init__")  # a private class of the module introduced to carry part of the work
                        for mm in obj.methods.values():
                            if id(mm.node) not in seen and mm is not tgt:
                                seen.add(id(mm.node))
                                out.append(mm)
                                todo.append((mm, d + 1))
                if tgt is not None and id(tgt.node) not in seen:
                    seen.add(id(tgt.node))
                    out.append(tgt)
                    todo.append((tgt, d + 1))
        return out

    def walk_deep(self, f: Func, depth=2):
        """ast.walk over f and over the helpers it hands work to"""
        yield from ast.walk(f.node)
        for g in self.helpers_of(f, depth):
            yield from ast.walk(g.node)

    def walk_with_tables(self, f: Func, node=None):
        """ast.walk over (a part of) a function, followed by the value expressions of the module-level names it reads:
        a literal table hoisted out of the function into a module constant is still `the function's table`"""
        node = f.node if node is None else node
        yield from ast.walk(node)
        seen = set()
        for n in ast.walk(node):
            if isinstance(n, ast.Name) and isinstance(n.ctx, ast.Load) and n.id not in seen:
                seen.add(n.id)
                kind, obj = self.resolve_name(f.module, n.id)
                if kind == "assign":
                    yield from ast.walk(obj)

    def cls(self, relpath: str, name: str) -> Class:
        m = self.module(relpath)
        c = m.classes.get(name)
        if c is None:
            raise AnalysisError(f"anchor vanished: class {relpath}::{name}")
        return c

    def method(self, relpath: str, cls: str, name: str) -> Func:
        c = self.cls(relpath, cls)
        f = c.methods.get(name)
        if f is None:
            raise AnalysisError(f"anchor vanished: method {relpath}::{cls}.{name}")
        return f

    def has_func(self, relpath, qualname) -> bool:
        m = self.by_relpath.get(relpath)
        return bool(m and qualname in m.funcs)

    def resolve_name(self, m: Module, name: str):
        """Resolve a (possibly dotted) name used in module m to a Func/Class/Module/assign node.

        Returns (kind, obj) with kind in {'func','class','module','assign',None}.
        """
        head, _, rest = name.partition(".")
        target = None
        if head in m.classes and not rest:
            return "class", m.classes[head]
        if head in m.funcs and not rest:
            return "func", m.funcs[head]
        if head in m.imports:
            target = m.imports[head] + (("." + rest) if rest else "")
        elif head in m.assigns and not rest:
            return "assign", m.assigns[head]
        else:
            return None, None
        return self.resolve_abs(target)

    def resolve_abs(self, dotted: str):
        parts = dotted.split(".")
        for i in range(len(parts), 0, -1):
            mod = ".".join(parts[:i])
            if mod in self.modules:
                m = self.modules[mod]
                rest = parts[i:]
                if not rest:
                    return "module", m
                if len(rest) == 1:
                    nm = rest[0]
                    if nm in m.classes:
                        return "class", m.classes[nm]
                    if nm in m.funcs:
                        return "func", m.funcs[nm]
                    if nm in m.imports:
                        return self.resolve_abs(m.imports[nm])
                    if nm in m.assigns:
                        return "assign", m.assigns[nm]
                    return None, None
                if len(rest) == 2 and rest[0] in m.classes:
                    c = m.classes[rest[0]]
                    if rest[1] in c.methods:
                        return "func", c.methods[rest[1]]
                if rest[0] in m.imports:
                    return self.resolve_abs(m.imports[rest[0]] + "." + ".".join(rest[1:]))
                return None, None
        return None, None

    def all_funcs(self):
        for m in self.modules.values():
            yield from m.funcs.values()

    def all_classes(self):
        for m in self.modules.values():
            yield from m.classes.values()

    def stats(self):
        return {
            "modules": len(self.modules),
            "functions": sum(len(m.funcs) for m in self.modules.values()),
            "classes": sum(len(m.classes) for m in self.modules.values()),
        }

    def digest(self, relpaths=None) -> str:
        h = hashlib.sha256()
        for rel in sorted(relpaths or self.by_relpath):
            m = self.by_relpath.get(rel)
            if m:
                h.update(rel.encode())
                h.update(m.source.encode())
        return h.hexdigest()[:16]
