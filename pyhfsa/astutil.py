"""Small AST helpers shared by all rules."""

from __future__ import annotations

import ast
from typing import Iterable, Iterator, Optional

FUNC_TYPES = (ast.FunctionDef, ast.AsyncFunctionDef, ast.Lambda)


def unparse(node) -> str:
    """Normalised source text of a node (used in finding keys)."""
    if node is None:
        return "<none>"
    if isinstance(node, str):
        return node
    try:
        return ast.unparse(node)
    except Exception:  # pragma: no cover
        return ast.dump(node)


def short(node, n=160) -> str:
    s = " ".join(unparse(node).split())
    return s if len(s) <= n else s[: n - 3] + "..."


def dotted(node) -> Optional[str]:
    """'a.b.c' for Name/Attribute chains, else None."""
    parts = []
    while isinstance(node, ast.Attribute):
        parts.append(node.attr)
        node = node.value
    if isinstance(node, ast.Name):
        parts.append(node.id)
        return ".".join(reversed(parts))
    return None


def call_name(call: ast.Call) -> Optional[str]:
    return dotted(call.func)


def call_attr(call: ast.Call) -> Optional[str]:
    """Last component of the callee: f(...)->'f', a.b.f(...)->'f'."""
    f = call.func
    if isinstance(f, ast.Attribute):
        return f.attr
    if isinstance(f, ast.Name):
        return f.id
    return None


def walk(node, *, into_defs=True) -> Iterator[ast.AST]:
    """ast.walk, optionally not descending into nested function/class defs."""
    todo = [node]
    first = True
    while todo:
        n = todo.pop()
        yield n
        for c in ast.iter_child_nodes(n):
            if (
                not into_defs
                and isinstance(c, (ast.FunctionDef, ast.AsyncFunctionDef, ast.ClassDef, ast.Lambda))
            ):
                continue
            todo.append(c)
        first = False


def walk_ordered(node, *, into_defs=True) -> Iterator[ast.AST]:
    """Pre-order, source-order traversal."""
    yield node
    for c in ast.iter_child_nodes(node):
        if not into_defs and isinstance(
            c, (ast.FunctionDef, ast.AsyncFunctionDef, ast.ClassDef, ast.Lambda)
        ):
            continue
        yield from walk_ordered(c, into_defs=into_defs)


def calls_in(node, *, into_defs=True) -> list[ast.Call]:
    return [n for n in walk_ordered(node, into_defs=into_defs) if isinstance(n, ast.Call)]


def find_calls(node, attr=None, name=None, *, into_defs=True) -> list[ast.Call]:
    """Calls whose last component is ``attr`` or whose dotted name is ``name``."""
    out = []
    for c in calls_in(node, into_defs=into_defs):
        if attr is not None and call_attr(c) == attr:
            out.append(c)
        elif name is not None and call_name(c) == name:
            out.append(c)
    return out


def names_loaded(node) -> set[str]:
    """Every Name id read inside node plus dotted self.* chains (as 'self.x')."""
    out: set[str] = set()
    for n in ast.walk(node):
        if isinstance(n, ast.Name):
            out.add(n.id)
        elif isinstance(n, ast.Attribute):
            d = dotted(n)
            if d and d.startswith("self."):
                out.add(".".join(d.split(".")[:2]))
    return out


def const_value(node):
    """Python value of a literal (numbers, strings, None, bool, neg numbers, tuples/lists of these)."""
    try:
        return ast.literal_eval(node)
    except Exception:
        return _NOCONST


class _NoConst:
    def __repr__(self):
        return "<non-constant>"


_NOCONST = _NoConst()


def is_const(node) -> bool:
    return const_value(node) is not _NOCONST


def params_of(fn) -> list[str]:
    a = fn.args
    names = [x.arg for x in a.posonlyargs + a.args]
    if a.vararg:
        names.append("*" + a.vararg.arg)
    names += [x.arg for x in a.kwonlyargs]
    if a.kwarg:
        names.append("**" + a.kwarg.arg)
    return names


def param_defaults(fn) -> dict[str, ast.AST]:
    a = fn.args
    pos = a.posonlyargs + a.args
    out = {}
    for p, d in zip(pos[len(pos) - len(a.defaults):], a.defaults):
        out[p.arg] = d
    for p, d in zip(a.kwonlyargs, a.kw_defaults):
        if d is not None:
            out[p.arg] = d
    return out


def bind_args(call: ast.Call, fn, *, skip_self=False) -> dict:
    """Map callee formal name -> actual expression at this call site.

    Extra keys: '*' -> list of starred actuals, '**' -> list of **-actuals.
    Formals not supplied are absent from the map.
    """
    a = fn.args
    pos = [x.arg for x in a.posonlyargs + a.args]
    if skip_self and pos and pos[0] in ("self", "cls"):
        pos = pos[1:]
    kwonly = [x.arg for x in a.kwonlyargs]
    out: dict = {"*": [], "**": []}
    i = 0
    for arg in call.args:
        if isinstance(arg, ast.Starred):
            out["*"].append(arg.value)
            continue
        if i < len(pos):
            out[pos[i]] = arg
        elif a.vararg:
            out.setdefault("*" + a.vararg.arg, []).append(arg)
        i += 1
    for kw in call.keywords:
        if kw.arg is None:
            out["**"].append(kw.value)
        elif kw.arg in pos or kw.arg in kwonly:
            out[kw.arg] = kw.value
        elif a.kwarg:
            out.setdefault("**" + a.kwarg.arg, {})[kw.arg] = kw.value
        else:
            out.setdefault("?unknown", {})[kw.arg] = kw.value
    return out


def stmt_of(node, parents) -> Optional[ast.stmt]:
    while node is not None and not isinstance(node, ast.stmt):
        node = parents.get(node)
    return node


def parent_map(root) -> dict:
    pm = {}
    for n in ast.walk(root):
        for c in ast.iter_child_nodes(n):
            pm[c] = n
    return pm


def enclosing(node, parents, types):
    node = parents.get(node)
    while node is not None and not isinstance(node, types):
        node = parents.get(node)
    return node


def assigned_names(target) -> list[str]:
    """Names (and 'self.x') bound by an assignment target."""
    out = []
    if isinstance(target, ast.Name):
        out.append(target.id)
    elif isinstance(target, (ast.Tuple, ast.List)):
        for e in target.elts:
            out += assigned_names(e)
    elif isinstance(target, ast.Starred):
        out += assigned_names(target.value)
    elif isinstance(target, ast.Attribute):
        d = dotted(target)
        if d:
            out.append(d)
    elif isinstance(target, ast.Subscript):
        d = dotted(target.value)
        if d:
            out.append(d)
        else:
            out += assigned_names(target.value)
    return out


def subscript_key(node: ast.Subscript):
    """Constant key of x['k'] / x[0], else _NOCONST."""
    return const_value(node.slice)


def strip_docstring(body):
    if body and isinstance(body[0], ast.Expr) and isinstance(body[0].value, ast.Constant) and isinstance(body[0].value.value, str):
        return body[1:]
    return body


def mangle(cls_name: str, attr: str) -> str:
    """Python private-name mangling for ``self.__x`` inside class ``cls_name``."""
    if attr.startswith("__") and not attr.endswith("__"):
        return "_" + cls_name.lstrip("_") + attr
    return attr


def norm_locals(node, fn_node) -> str:
    """Source text of ``node`` with the local variables of ``fn_node`` (names it stores that are not parameters)
    replaced by v1, v2, ... in order of first appearance: finding keys built from it survive local renames."""
    import copy
    params = {p.lstrip("*") for p in params_of(fn_node)} if hasattr(fn_node, "args") else set()
    stores = {n.id for n in ast.walk(fn_node) if isinstance(n, ast.Name) and isinstance(n.ctx, ast.Store)} - params
    node2 = copy.deepcopy(node)
    mapping = {}
    for n in walk_ordered(node2):
        if isinstance(n, ast.Name) and n.id in stores:
            if n.id not in mapping:
                mapping[n.id] = f"v{len(mapping) + 1}"
            n.id = mapping[n.id]
    return short(node2, 300)


def expand_locals(fn_node, expr, depth=4):
    """A copy of ``expr`` in which every local of ``fn_node`` that is assigned exactly ONCE (a plain `name = value` statement,
    not a parameter, not a loop / with / comprehension target, not augmented) is replaced by that value, repeatedly.  A rule
    that recognises `self.config.channel_nbins[channel]` then also recognises `nbins` after `nbins = self.config.channel_nbins[channel]`.
    (Used for RECOGNITION of shapes only; the single assignment may sit on another path than the use.)"""
    import copy
    params = {p.lstrip("*") for p in params_of(fn_node)} if hasattr(fn_node, "args") else set()
    stores = {}
    other = set()
    for n in walk(fn_node, into_defs=False):
        if isinstance(n, ast.Assign) and len(n.targets) == 1 and isinstance(n.targets[0], ast.Name):
            stores.setdefault(n.targets[0].id, []).append(n.value)
        elif isinstance(n, ast.Name) and isinstance(n.ctx, ast.Store):
            other.add(n.id)
    single = {k: v[0] for k, v in stores.items() if len(v) == 1 and k not in params}
    # a Store that is not one of the plain assignments (loop target, augmented, tuple unpacking ...) disqualifies the name
    plain_targets = {id(n.targets[0]) for n in walk(fn_node, into_defs=False) if isinstance(n, ast.Assign) and len(n.targets) == 1 and isinstance(n.targets[0], ast.Name)}
    for n in walk(fn_node, into_defs=False):
        if isinstance(n, ast.Name) and isinstance(n.ctx, ast.Store) and id(n) not in plain_targets:
            single.pop(n.id, None)
        elif isinstance(n, ast.AugAssign) and isinstance(n.target, ast.Name):
            single.pop(n.target.id, None)

    class _Sub(ast.NodeTransformer):
        def __init__(self):
            self.changed = False

        def visit_Name(self, node):
            if isinstance(node.ctx, ast.Load) and node.id in single:
                self.changed = True
                return copy.deepcopy(single[node.id])
            return node

    out = copy.deepcopy(expr)
    for _ in range(depth):
        t = _Sub()
        out = t.visit(out)
        if not t.changed:
            break
    return out
