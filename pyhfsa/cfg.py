"""Statement-level control-flow graph for the constructs pyhf uses.

Nodes are integers; ``node.stmt`` is the ast statement (or the ast.If /
ast.While / ast.For node for a test/header node).  Special exits:

  EXIT_RETURN  normal function return (explicit return or fall off the end)
  EXIT_RAISE   raise
  EXIT_CONT    ``continue`` that belongs to an *enclosing* loop outside the
               statement list this CFG was built from (used to analyse one
               iteration of a loop body in isolation)
  EXIT_BREAK   ``break`` of such an enclosing loop
  EXIT_FALL    fell off the end of the statement list
"""

from __future__ import annotations

import ast
from dataclasses import dataclass, field
from typing import Optional


@dataclass
class Node:
    id: int
    kind: str  # 'entry','stmt','test','loop','exit'
    stmt: Optional[ast.AST] = None
    label: str = ""
    succ: list = field(default_factory=list)  # (node_id, edge_label)
    pred: list = field(default_factory=list)


class CFG:
    def __init__(self):
        self.nodes: list[Node] = []
        self.entry = self._new("entry", label="ENTRY")
        self.exits = {
            k: self._new("exit", label=k)
            for k in ("RETURN", "RAISE", "CONT", "BREAK", "FALL")
        }
        self.stmt_node: dict[int, int] = {}  # id(ast stmt) -> node id

    def _new(self, kind, stmt=None, label=""):
        n = Node(len(self.nodes), kind, stmt, label)
        self.nodes.append(n)
        if stmt is not None:
            self.stmt_node.setdefault(id(stmt), n.id)
        return n.id

    def _edge(self, a, b, lab=""):
        if (b, lab) not in self.nodes[a].succ:
            self.nodes[a].succ.append((b, lab))
            self.nodes[b].pred.append((a, lab))

    # ------------------------------------------------------------------
    @classmethod
    def build(cls, stmts, *, as_function=True) -> "CFG":
        g = cls()
        ends = g._seq(stmts, [(g.entry, "")], loop=None, handlers=[])
        tail = g.exits["RETURN"] if as_function else g.exits["FALL"]
        for e, lab in ends:
            g._edge(e, tail, lab)
        return g

    def _seq(self, stmts, preds, loop, handlers):
        """preds: list of (node, edge label) dangling into the first stmt. Returns dangling ends."""
        for st in stmts:
            if not preds:
                # unreachable code: still create nodes so lookups work
                pass
            preds = self._stmt(st, preds, loop, handlers)
        return preds

    def _connect(self, preds, n):
        for p, lab in preds:
            self._edge(p, n, lab)

    def _stmt(self, st, preds, loop, handlers):
        if isinstance(st, ast.If):
            n = self._new("test", st, "if")
            self._connect(preds, n)
            for h in handlers:
                self._edge(n, h, "exc")
            t = self._seq(st.body, [(n, "T")], loop, handlers)
            f = self._seq(st.orelse, [(n, "F")], loop, handlers) if st.orelse else [(n, "F")]
            return t + f
        if isinstance(st, (ast.For, ast.AsyncFor, ast.While)):
            n = self._new("loop", st, "loop")
            self._connect(preds, n)
            for h in handlers:
                self._edge(n, h, "exc")
            brk: list = []
            inner = {"head": n, "breaks": brk}
            b = self._seq(st.body, [(n, "T")], inner, handlers)
            for e, lab in b:
                self._edge(e, n, lab or "back")
            out = [(n, "F")]
            if st.orelse:
                out = self._seq(st.orelse, out, loop, handlers)
            return out + brk
        if isinstance(st, (ast.With, ast.AsyncWith)):
            n = self._new("stmt", st, "with")
            self._connect(preds, n)
            for h in handlers:
                self._edge(n, h, "exc")
            return self._seq(st.body, [(n, "")], loop, handlers)
        if isinstance(st, ast.Try):
            hnodes = []
            for h in st.handlers:
                hn = self._new("stmt", h, "except")
                hnodes.append(hn)
            n = self._new("stmt", st, "try")
            self._connect(preds, n)
            body_ends = self._seq(st.body, [(n, "")], loop, hnodes + handlers)
            if st.orelse:
                body_ends = self._seq(st.orelse, body_ends, loop, handlers)
            ends = list(body_ends)
            for h, hn in zip(st.handlers, hnodes):
                ends += self._seq(h.body, [(hn, "")], loop, handlers)
            if st.finalbody:
                ends = self._seq(st.finalbody, ends, loop, handlers)
            return ends
        if isinstance(st, ast.Return):
            n = self._new("stmt", st, "return")
            self._connect(preds, n)
            self._edge(n, self.exits["RETURN"])
            return []
        if isinstance(st, ast.Raise):
            n = self._new("stmt", st, "raise")
            self._connect(preds, n)
            if handlers:
                for h in handlers:
                    self._edge(n, h, "exc")
            else:
                self._edge(n, self.exits["RAISE"])
            return []
        if isinstance(st, ast.Continue):
            n = self._new("stmt", st, "continue")
            self._connect(preds, n)
            if loop is None:
                self._edge(n, self.exits["CONT"])
            else:
                self._edge(n, loop["head"], "back")
            return []
        if isinstance(st, ast.Break):
            n = self._new("stmt", st, "break")
            self._connect(preds, n)
            if loop is None:
                self._edge(n, self.exits["BREAK"])
                return []
            loop["breaks"].append((n, ""))
            return []
        # simple statement (incl. nested def/class: opaque)
        n = self._new("stmt", st, type(st).__name__)
        self._connect(preds, n)
        for h in handlers:
            self._edge(n, h, "exc")
        return [(n, "")]

    # ------------------------------------------------------------------
    def node_of(self, stmt) -> Optional[int]:
        return self.stmt_node.get(id(stmt))

    def reachable(self, start=None):
        start = self.entry if start is None else start
        seen = {start}
        todo = [start]
        while todo:
            x = todo.pop()
            for s, _ in self.nodes[x].succ:
                if s not in seen:
                    seen.add(s)
                    todo.append(s)
        return seen

    def dominators(self):
        """dom[n] = set of nodes dominating n (over nodes reachable from entry)."""
        reach = self.reachable()
        dom = {n: set(reach) for n in reach}
        dom[self.entry] = {self.entry}
        changed = True
        order = sorted(reach)
        while changed:
            changed = False
            for n in order:
                if n == self.entry:
                    continue
                ps = [p for p, _ in self.nodes[n].pred if p in reach]
                if not ps:
                    continue
                new = set.intersection(*(dom[p] for p in ps)) | {n}
                if new != dom[n]:
                    dom[n] = new
                    changed = True
        return dom

    def dominates(self, a_stmt, b_stmt, dom=None) -> bool:
        a, b = self.node_of(a_stmt), self.node_of(b_stmt)
        if a is None or b is None:
            return False
        dom = dom or self.dominators()
        return b in dom and a in dom[b]

    def paths(self, targets, *, start=None, max_visits=1, limit=20000, exc_edges=False):
        """Enumerate paths start -> any node in ``targets``; each node at most
        ``max_visits`` times per path. Yields lists of node ids."""
        start = self.entry if start is None else start
        targets = set(targets)
        out = []
        cnt: dict[int, int] = {}

        def dfs(n, path):
            if len(out) >= limit:
                return
            if n in targets:
                out.append(path + [n])
                return
            for s, lab in self.nodes[n].succ:
                if lab == "exc" and not exc_edges:
                    continue
                if cnt.get(s, 0) >= max_visits:
                    continue
                cnt[s] = cnt.get(s, 0) + 1
                dfs(s, path + [n])
                cnt[s] -= 1

        cnt[start] = 1
        dfs(start, [])
        return out

    def all_paths_pass(self, through_pred, *, targets=None, exc_edges=False) -> tuple[bool, list]:
        """Does every path entry->targets (default RETURN) contain a node n with through_pred(node)?

        Decided by removing those nodes and testing reachability. Returns (ok, witness_path_ids)."""
        targets = set(targets or [self.exits["RETURN"]])
        seen = {self.entry}
        todo = [(self.entry, [self.entry])]
        while todo:
            x, p = todo.pop()
            if x in targets:
                return False, p
            for s, lab in self.nodes[x].succ:
                if lab == "exc" and not exc_edges:
                    continue
                if s in seen:
                    continue
                if self.nodes[s].stmt is not None and through_pred(self.nodes[s]):
                    continue
                seen.add(s)
                todo.append((s, p + [s]))
        return True, []

    def describe(self, path) -> list[str]:
        out = []
        for n in path:
            nd = self.nodes[n]
            if nd.stmt is not None:
                ln = getattr(nd.stmt, "lineno", "?")
                out.append(f"L{ln}:{nd.label}")
            else:
                out.append(nd.label)
        return out
