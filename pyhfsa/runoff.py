"""RUNOFF -- running-offset tiling: in a loop a window [v, v+n) is taken and v advanced by n
exactly once on every path through the body (including `continue` paths)."""

from __future__ import annotations

import ast

from . import astutil as A
from .cfg import CFG


def find_offset_loops(fn_node):
    """Yield (loop, var) for loops whose body advances a variable that was initialised to the constant 0
    right before the loop (v = 0 ... for ...: ... v = v + n / v = e / v += n)."""
    body_lists = []
    for n in ast.walk(fn_node):
        for fld in ("body", "orelse", "finalbody"):
            b = getattr(n, fld, None)
            if isinstance(b, list) and b and isinstance(b[0], ast.stmt):
                body_lists.append(b)
    out = []
    for b in body_lists:
        zero_vars = {}
        for st in b:
            if isinstance(st, ast.Assign) and len(st.targets) == 1 and isinstance(st.targets[0], ast.Name) and A.const_value(st.value) == 0:
                zero_vars[st.targets[0].id] = st
            elif isinstance(st, (ast.For, ast.While)):
                assigned = {t.id for x in ast.walk(st) if isinstance(x, (ast.Assign, ast.AugAssign)) for t in (x.targets if isinstance(x, ast.Assign) else [x.target]) if isinstance(t, ast.Name)}
                windowed = set()
                for x in ast.walk(st):
                    if isinstance(x, ast.Slice) and isinstance(x.lower, ast.Name):
                        windowed.add(x.lower.id)
                    elif isinstance(x, ast.Call) and A.call_attr(x) in ("slice", "range") and len(x.args) >= 2 and isinstance(x.args[0], ast.Name):
                        windowed.add(x.args[0].id)
                for v in zero_vars:
                    if v in assigned or v in windowed:
                        out.append((st, v))
    return out


def analyse(loop, var):
    """Returns dict(ok, why, paths, updates, width) for one loop and offset variable."""
    # updates of var: `var = var + n`, `var += n`, `var = e` with e == var + n defined in the body
    aliases = {}  # name -> width expr text, for e = var + n
    for st in ast.walk(loop):
        if isinstance(st, ast.Assign) and len(st.targets) == 1 and isinstance(st.targets[0], ast.Name):
            w = _width(st.value, var)
            if w is not None and st.targets[0].id != var:
                aliases[st.targets[0].id] = w
    updates = {}
    for st in ast.walk(loop):
        if isinstance(st, ast.Assign) and len(st.targets) == 1 and isinstance(st.targets[0], ast.Name) and st.targets[0].id == var:
            w = _width(st.value, var)
            if w is None and isinstance(st.value, ast.Name) and st.value.id in aliases:
                w = aliases[st.value.id]
            updates[id(st)] = (st, w)
        elif isinstance(st, ast.AugAssign) and isinstance(st.target, ast.Name) and st.target.id == var and isinstance(st.op, ast.Add):
            updates[id(st)] = (st, A.unparse(st.value))
    if not updates:
        return {"ok": False, "why": f"`{var}` is never advanced in the loop", "paths": 0, "updates": 0}
    widths = {w for _, w in updates.values()}
    if None in widths:
        bad = [s for s, w in updates.values() if w is None][0]
        return {"ok": False, "why": f"`{A.short(bad, 60)}` does not advance `{var}` by the window width", "paths": 0, "updates": len(updates)}
    # window uses: slice(var, e) / x[var:e] / range(var, e)
    uses = []
    for n in ast.walk(loop):
        if isinstance(n, ast.Slice) and n.lower is not None and isinstance(n.lower, ast.Name) and n.lower.id == var:
            uses.append((n, A.unparse(n.upper) if n.upper is not None else None))
        elif isinstance(n, ast.Call) and A.call_attr(n) in ("slice", "range") and len(n.args) >= 2 and isinstance(n.args[0], ast.Name) and n.args[0].id == var:
            uses.append((n, A.unparse(n.args[1])))
    use_widths = set()
    for n, up in uses:
        if up in aliases:
            use_widths.add(aliases[up])
        else:
            try:
                w = _width(ast.parse(up, mode="eval").body, var) if up else None
            except SyntaxError:
                w = None
            use_widths.add(w)
    g = CFG.build(loop.body, as_function=False)
    ends = [g.exits["CONT"], g.exits["FALL"]]
    paths = g.paths(ends, max_visits=2)
    bad_paths = []
    use_stmts = set()
    pm = A.parent_map(loop)
    for n, _ in uses:
        st = A.stmt_of(n, pm)
        if st is not None:
            use_stmts.add(id(st))
    late_use = None
    for p in paths:
        cnt = 0
        seen_update = False
        for nid in p:
            st = g.nodes[nid].stmt
            if st is None:
                continue
            if id(st) in use_stmts and seen_update and id(st) not in updates:
                late_use = g.describe(p)
            if id(st) in updates:
                cnt += 1
                seen_update = True
        if cnt != 1:
            bad_paths.append((cnt, g.describe(p)))
    res = {"paths": len(paths), "updates": len(updates), "width": sorted(widths), "uses": len(uses)}
    if bad_paths:
        cnt, desc = bad_paths[0]
        res.update(ok=False, why=f"a path through the loop body advances `{var}` {cnt} time(s) instead of once: {' > '.join(desc)}")
        return res
    if late_use:
        res.update(ok=False, why=f"the window is taken after `{var}` was already advanced: {' > '.join(late_use)}")
        return res
    if len(widths) != 1:
        res.update(ok=False, why=f"`{var}` is advanced by different widths on different paths: {sorted(widths)}")
        return res
    if uses and (use_widths != widths):
        res.update(ok=False, why=f"the window taken is [{var}, {var}+{sorted(map(str, use_widths))}) but `{var}` is advanced by {sorted(widths)}")
        return res
    res.update(ok=True, why="")
    return res


def _width(expr, var):
    """If expr is `var + n` (or n + var) return text of n."""
    if isinstance(expr, ast.BinOp) and isinstance(expr.op, ast.Add):
        if isinstance(expr.left, ast.Name) and expr.left.id == var:
            return A.unparse(expr.right)
        if isinstance(expr.right, ast.Name) and expr.right.id == var:
            return A.unparse(expr.left)
    return None
