"""C14 -- toy p-values are exact tail fractions of correctly sampled pseudo-data.

  R1 CMP   EmpiricalDistribution.pvalue == sum(1[samples >= value]) / len(samples)
  R2 PAIR  ToyCalculator.distributions: signal toys from make_pdf(fixed_poi_fit(poi_test)),
           background toys from make_pdf(fixed_poi_fit(mu_bkg)), mu_bkg = 1 iff q0 else 0;
           every toy statistic is evaluated at poi_test on its own sample with the calculator's
           inputs; s+b wraps the signal list, b-only the background list; pvalues = (sb, b, ratio)
  R3 PAIR  Simultaneous.sample stitches through the viewer log_prob splits with; sample_shape
           reaches every constituent; the simple distributions forward it to the backend object
"""

from __future__ import annotations

import ast
from fractions import Fraction

from .. import astutil as A
from ..alg import Interp, Obj, Poly, PyFunc, RaisedInFragment, Undecided, fn, to_poly
from ..alg import tensorlib_obj as _tensorlib_obj

EXPLANATION = (
    "EmpiricalDistribution.pvalue is decided by evaluating its indicator on the three orderings samples <,=,> value "
    "(values are touched only through one comparison) and matching the sum/len quotient structurally; "
    "ToyCalculator.distributions is abstractly interpreted with fits, pdf construction, sampling and the test "
    "statistic replaced by provenance-carrying opaque objects, so that which fit produced which sample and which "
    "sample fed which distribution is read off the result; Simultaneous.sample / the simple distributions are "
    "checked for viewer pairing and sample_shape forwarding. NOT decided: the sampling distributions themselves "
    "(backend RNGs), agreement with exact tail probabilities."
)
ASSUMPTIONS = ["backend poisson_dist/normal_dist objects sample with shape sample_shape + parameter shape (C04)"]
CALC = "src/pyhf/infer/calculators.py"
PROB = "src/pyhf/probability.py"


def run(ctx):
    repo = ctx.repo
    ed = repo.cls(CALC, "EmpiricalDistribution")
    tc = repo.cls(CALC, "ToyCalculator")
    for c in (ed, tc):
        for m in c.methods.values():
            ctx.touch(m)
    r1 = ctx.rule("C14.R1", "CMP: the empirical p-value is sum over samples of 1[sample >= value] divided by the number of samples (ties count)", "CMP", floor=4)
    r2 = ctx.rule("C14.R2", "PAIR: signal toys <- make_pdf(fixed_poi_fit(poi_test, ...)), background toys <- make_pdf(fixed_poi_fit(1 if q0 else 0, ...)); each statistic at poi_test on its own toy; s+b <- signal statistics, b-only <- background statistics; pvalues = (sb.pvalue, b.pvalue, ratio)", "PAIR", floor=8)
    r3 = ctx.rule("C14.R3", "PAIR: Simultaneous.sample stitches with the same viewer log_prob splits with, iterating the same constituents; sample_shape is forwarded to every constituent and on to the backend distribution object", "PAIR", floor=4)
    r4 = ctx.rule("C14.R4", "VIEW (interpreted, engine shared with C01.R9 / C10.R6): the tensor viewers that Simultaneous.sample stitches the constituents' draws with: ONE viewer object used first on flat tensors (an expected-data or Asimov evaluation of the model) and then on tensors with leading sample axes places every part at its own positions in both uses, and again after the same buffers were refilled in place", "VIEW", floor=3)
    from . import viewers
    viewers.check(ctx, r4)
    r5 = ctx.rule("C14.R5", "TOY-HISTORY (interpreted, engine shared with C08.R6): hypotest(calctype='toybased') called three times on ONE model at ONE tested value with the same statistic and number of toys -- other data in the second call, other fixed flags in the third -- with the toy calculator as a recorder: every call builds its calculator from its own data and fit configuration and takes statistic, toy distributions and p-values from THAT calculator (pseudo-data are generated at the parameters fitted to this call's data)", "HISTORY", floor=1)
    from .c08 import toy_history_standalone
    toy_history_standalone(ctx, r5, repo)

    # ---------------- R1
    pv = ed.methods["pvalue"]
    wheres = [c for c in A.calls_in(pv.node) if A.call_attr(c) == "where"]
    if len(wheres) != 1:
        # another spelling of the indicator (a boolean mask converted to float, a comparison summed directly ...): the whole
        # method interpreted on five samples -- two above, one EQUAL to, two below the value -- must give 3/5
        from .. import listnp
        from ..alg import AutoRegion
        from ..alg import RaisedInFragment as _RIF
        try:
            region = AutoRegion()
            reps = {"s0": Fraction(3), "s1": Fraction(1), "s2": Fraction(0), "s3": Fraction(-1), "s4": Fraction(-2), "V": Fraction(0)}
            region.update(reps)
            samples = listnp.wrap([Poly.atom(n_) for n_ in ("s0", "s1", "s2", "s3", "s4")])
            ext = listnp.externals()
            ext["get_backend"] = lambda a, k: (Obj("tensorlib", {"name": "numpy", "precision": "64b"}), None)
            out = Interp({"value": Poly.atom("V")}, {"samples": samples}, region, methods={k_: v_.node for k_, v_ in ed.methods.items()}, cls_name=ed.name, externals=ext).run(A.strip_docstring(pv.node.body))
            got = to_poly(out[0] if isinstance(out, list) and len(out) == 1 else out)
            if got == Poly.const(Fraction(3, 5)):
                ctx.holds(r1, f"{CALC}::EmpiricalDistribution.pvalue [interpreted on 5 samples: 2 above, 1 equal, 2 below]", "3/5: ties count, divided by the number of samples")
            else:
                ctx.violated(r1, pv, "tail fraction", f"for five toy statistics of which two exceed the observed value and one EQUALS it the p-value is {got}, not 3/5 (sum over samples of 1[sample >= value] / number of samples; ties must count: the q=0 spike)", expected="3/5", found=str(got), node=pv.node)
        except _RIF as e:
            ctx.violated(r1, pv, "tail fraction", f"pvalue raises {e.exc_name} on five samples")
        except (Undecided, KeyError, TypeError, ValueError, IndexError, AttributeError) as e:
            ctx.unrecognised(r1, pv, "pvalue", f"expected one indicator where(...), found {len(wheres)}, and the method is not interpretable: {type(e).__name__}: {e}")
    else:
        w = wheres[0]
        for rep, want, lab in ((Fraction(1), 1, "sample > value"), (Fraction(0), 1, "sample == value"), (Fraction(-1), 0, "sample < value")):
            try:
                it = Interp({"value": Poly.atom("V")}, {"samples": Poly.atom("S")}, {"S": rep, "V": Fraction(0)}, cls_name=ed.name)
                v = to_poly(it.eval(A.expand_locals(pv.node, w)))  # named intermediates (`one = tensorlib.ones(())`) in their place
                if v == Poly.const(want):
                    ctx.holds(r1, f"{CALC}::EmpiricalDistribution.pvalue [{lab}]", f"indicator = {want}")
                else:
                    ctx.violated(r1, pv, f"indicator [{lab}]", f"a toy statistic with {lab} is counted as {v} in the tail fraction" + (" (ties with the observed value must count: the q=0 spike)" if rep == 0 else ""), expected=str(want), found=str(v), node=w)
            except Undecided as e:
                ctx.unrecognised(r1, pv, w, f"indicator not interpretable: {e}")
        # quotient structure
        rets = [r for r in ast.walk(pv.node) if isinstance(r, ast.Return) and r.value is not None]
        okq = False
        for r in rets:
            for n in ast.walk(r.value):
                if isinstance(n, ast.BinOp) and isinstance(n.op, ast.Div):
                    num_ok = isinstance(n.left, ast.Call) and A.call_attr(n.left) == "sum" and any(x is w for x in ast.walk(n.left)) and not any(k.arg == "axis" for k in n.left.keywords) and len(n.left.args) == 1
                    den = A.unparse(n.right).replace(" ", "")
                    import re as _re
                    den_ok = bool(_re.fullmatch(r"(\w+\.)?shape\(self\.samples\)\[0\]|len\(self\.samples\)|self\.samples\.shape\[0\]", den))
                    if num_ok and den_ok:
                        okq = True
        if okq:
            ctx.holds(r1, f"{CALC}::EmpiricalDistribution.pvalue", "sum(indicator) / number of samples")
        else:
            ctx.violated(r1, pv, "tail fraction quotient", "the p-value is not the indicator sum over all samples divided by the number of samples", expected="sum(where(...)) / shape(self.samples)[0]", node=pv.node)
    # samples are the flattened input
    init = ed.methods["__init__"]
    okf = any(isinstance(n, ast.Assign) and any(A.dotted(t) == "self.samples" for t in n.targets) and "samples" in A.names_loaded(n.value) for n in ast.walk(init.node))
    if okf:
        ctx.holds(r1, f"{CALC}::EmpiricalDistribution.__init__", "self.samples derives from the samples passed in")
    else:
        ctx.violated(r1, init, "self.samples", "the distribution does not store the samples it was given", node=init.node)

    _empirical_semantics(ctx, r1, repo)

    # ---------------- R2
    dm = tc.methods["distributions"]
    # every SPELLING of a statistic name that get_test_stat (interpreted) accepts must select the matching hypotheses: the
    # discovery statistic pairs with background toys generated at mu = 1, the others at mu = 0
    gts = repo.func("src/pyhf/infer/utils.py", "get_test_stat")
    ctx.touch(gts)
    canon_mu = {"q0": Poly.const(1), "qmu": Poly(), "qmu_tilde": Poly()}
    spellings = []
    for sp_ in ("qtilde", "q", "q0", "Q0", "Q", "QTILDE", "Qtilde", " q0", "q0 "):
        try:
            f_ = Interp({"name": sp_, **{n_: Obj(n_) for n_ in canon_mu}, "InvalidTestStatistic": Obj("InvalidTestStatistic")}, {}, {}).run(A.strip_docstring(gts.node.body))
        except RaisedInFragment:
            if sp_ in ("qtilde", "q", "q0"):
                ctx.violated(r2, gts, f"get_test_stat({sp_!r})", "a documented test-statistic name is refused")
            else:
                ctx.holds(r2, f"src/pyhf/infer/utils.py::get_test_stat({sp_!r})", "refused: only the exact names select a statistic")
            continue
        except Undecided as e:
            ctx.unrecognised(r2, gts, f"get_test_stat({sp_!r})", f"not interpretable: {e}")
            continue
        if not (isinstance(f_, Obj) and f_.name in canon_mu):
            ctx.unrecognised(r2, gts, f"get_test_stat({sp_!r})", f"returns {getattr(f_, 'name', f_)!r}, not one of the three statistics")
            continue
        if sp_ in ("qtilde", "q", "q0") and f_.name != {"qtilde": "qmu_tilde", "q": "qmu", "q0": "q0"}[sp_]:
            ctx.violated(r2, gts, f"get_test_stat({sp_!r})", f"the name {sp_!r} selects {f_.name}", expected={"qtilde": "qmu_tilde", "q": "qmu", "q0": "q0"}[sp_], found=f_.name)
            continue
        spellings.append((sp_, canon_mu[f_.name]))
    for stat, mu_bkg, history in [(st_, mb_, h_) for st_, mb_ in spellings for h_ in ("fresh calculator", "after teststatistic at another mu")]:
        rec = {"fits": [], "ts": []}

        def fpf(args, kw):
            mu = to_poly(args[0])
            rec["fits"].append((mu, [getattr(a, "name", str(a)) for a in args[1:]]))
            return Obj(f"fit[{mu}]")

        def make_pdf(recv, args, kw):
            return Obj(f"pdf[{args[0].name}]")

        def sample(recv, args, kw):
            return Obj(f"toys[{recv.name}]")

        def tsf(args, kw):
            rec["ts"].append((to_poly(args[0]), [getattr(a, "name", str(a)) for a in args[1:]]))
            t_ = Obj(f"ts[{to_poly(args[0])};{args[1].name}]")
            if kw.get("return_fitted_pars") is True:
                return (t_, (Obj(f"fit_in_ts[{to_poly(args[0])};{args[1].name}]"), Obj(f"freefit_in_ts[{args[1].name}]")))
            return t_

        def tqdm_(args, kw):
            x = args[0]
            return [Obj(f"one({x.name})")]

        def empirical(args, kw):
            a0 = args[0]
            return Obj("ED[" + ",".join(getattr(x, "name", str(x)) for x in (a0 if isinstance(a0, list) else [a0])) + "]")

        ext = {
            "fixed_poi_fit": fpf, ".make_pdf": make_pdf, ".sample": sample, "tqdm": tqdm_, "EmpiricalDistribution": empirical,
            "get_test_stat": lambda args, kw: PyFunc(tsf, "teststat_func"), "dict": lambda args, kw: {},
            "HypoTestFitResults": lambda args, kw: Obj("fitresults", dict(kw), closed=True),  # the named tuple of fits the calculators expose
        }
        # the calculator's state is whatever its constructor sets up (interpreted), then optionally a teststatistic
        # call at ANOTHER mu: distributions(mu_test) must not pick up anything remembered from it
        attrs = {}
        site = f"{CALC}::ToyCalculator.distributions[{stat}; {history}]"
        try:
            ienv = {"data": Obj("data"), "pdf": Obj("model"), "init_pars": Obj("init"), "par_bounds": Obj("bounds"), "fixed_params": Obj("fixed"), "test_stat": stat, "ntoys": Poly.atom("NTOYS"), "track_progress": False}
            Interp(ienv, attrs, {}, cls_name=tc.name, externals=ext).run(A.strip_docstring(tc.methods["__init__"].node.body))
            if history != "fresh calculator":
                Interp({"poi_test": Poly.atom("mu_other"), "utils": Obj("utils")}, attrs, {}, cls_name=tc.name, externals=ext).run(A.strip_docstring(tc.methods["teststatistic"].node.body))
                rec["fits"].clear()
                rec["ts"].clear()
            it = Interp({"poi_test": Poly.atom("mu_test"), "track_progress": None, "utils": Obj("utils")}, attrs, {}, cls_name=tc.name, externals=ext)
            out = it.run(A.strip_docstring(dm.node.body))
        except Undecided as e:
            ctx.unrecognised(r2, dm, f"distributions[{stat}; {history}]", f"not interpretable: {e}")
            continue
        mu = Poly.atom("mu_test")
        want_sb = f"ED[ts[{mu};one(toys[pdf[fit[{mu}]]])]]"
        want_b = f"ED[ts[{mu};one(toys[pdf[fit[{mu_bkg}]]])]]"
        got = [getattr(o, "name", str(o)) for o in out] if isinstance(out, (tuple, list)) else [str(out)]
        if got == [want_sb, want_b]:
            ctx.holds(r2, site, f"(s+b, b) = ({want_sb}, {want_b})")
        else:
            ctx.violated(r2, dm, f"toy distributions [{stat}; {history}]", "signal/background toys, the fits that generate them, the tested mu or the wrapping distributions are mis-paired (or taken from an earlier call at a different mu)",
                         expected=f"({want_sb}, {want_b})", found=str(tuple(got)))
        bad = [f for f in rec["fits"] if f[1] != ["data", "model", "init", "bounds", "fixed"]]
        bad += [t for t in rec["ts"] if t[1][1:] != ["model", "init", "bounds", "fixed"]]
        if bad:
            ctx.violated(r2, dm, f"fit/statistic inputs [{stat}; {history}]", "a toy fit or toy statistic does not receive the calculator's (data, pdf, init_pars, par_bounds, fixed_params)", found=str(bad[0]))
        else:
            ctx.holds(r2, site + " inputs", f"{len(rec['fits'])} fits, {len(rec['ts'])} statistics with the calculator's inputs")
    # sample shape
    from ..dep import Deps
    ddm = Deps(dm.node)
    scalls = [(c, ddm) for c in A.calls_in(dm.node) if A.call_attr(c) == "sample" and c.args]
    for h_ in repo.helpers_of(dm, depth=1):  # drawing may be a method of its own (`_sample_at_conditional_fit`)
        dh_ = Deps(h_.node)
        scalls.extend((c, dh_) for c in A.calls_in(h_.node) if A.call_attr(c) == "sample" and c.args)
    ss = [c for c, _ in scalls]
    if scalls and all(d_.depends_on(c.args[0], "self.ntoys") for c, d_ in scalls):
        ctx.holds(r2, f"{CALC}::ToyCalculator.distributions", "sample_shape = (ntoys,)")
    else:
        ctx.violated(r2, dm, "sample_shape", "the number of toys drawn is not self.ntoys", node=ss[0] if ss else dm.node)
    pvs = tc.methods["pvalues"]
    try:
        it = Interp({"teststat": Poly.atom("T"), "sig_plus_bkg_distribution": Obj("SB"), "bkg_only_distribution": Obj("B")}, {}, {}, cls_name=tc.name)
        out = it.run(A.strip_docstring(pvs.node.body))
        sb, b, cls = [to_poly(x) for x in out]
        wsb, wb = fn("pvalue", Poly.atom("SB"), Poly.atom("T")), fn("pvalue", Poly.atom("B"), Poly.atom("T"))
        if sb == wsb and b == wb and cls == wsb / wb:
            ctx.holds(r2, f"{CALC}::ToyCalculator.pvalues", "(CLsb, CLb, CLsb/CLb)")
        else:
            ctx.violated(r2, pvs, "ToyCalculator.pvalues", "pvalues does not return (sb.pvalue(t), b.pvalue(t), their ratio)", found=f"({sb}, {b}, {cls})")
    except Undecided as e:
        ctx.unrecognised(r2, pvs, "pvalues", str(e))
    # teststatistic uses the observed data at poi_test
    tm = tc.methods["teststatistic"]
    tsnames = {nm for n in ast.walk(tm.node) if isinstance(n, ast.Assign) and isinstance(n.value, ast.Call) and A.call_attr(n.value) == "get_test_stat" for nm in A.assigned_names(n.targets[0])}
    cs = [c for c in A.calls_in(tm.node) if (isinstance(c.func, ast.Name) and c.func.id in tsnames) or (isinstance(c.func, ast.Call) and A.call_attr(c.func) == "get_test_stat")]
    if cs and len(cs[0].args) >= 2 and "poi_test" in A.names_loaded(cs[0].args[0]) and A.dotted(cs[0].args[1]) == "self.data":
        ctx.holds(r2, f"{CALC}::ToyCalculator.teststatistic", "observed statistic at poi_test on self.data")
    else:
        ctx.violated(r2, tm, "teststat_func(...)", "the observed statistic is not computed at the tested mu on the observed data", node=cs[0] if cs else tm.node)

    # ---------------- R3
    sim = repo.cls(PROB, "Simultaneous")
    for m in sim.methods.values():
        ctx.touch(m)
    sm, lp = sim.methods["sample"], sim.methods["log_prob"]
    split_recv = [A.dotted(c.func.value) for c in A.calls_in(lp.node) if A.call_attr(c) == "split"]
    st_calls = [c for c in A.calls_in(sm.node) if A.call_attr(c) == "stitch"]
    if not split_recv:
        ctx.unrecognised(r3, lp, "log_prob", "no viewer split found in log_prob")
    elif not st_calls:
        pass  # no syntactic stitch: the end-to-end interpretation below decides whether the layout is still the viewer's
    else:
        c = st_calls[0]
        if A.dotted(c.func.value) == split_recv[0]:
            ctx.holds(r3, f"{PROB}::Simultaneous.sample", f"stitches through {split_recv[0]}, the viewer log_prob splits with")
        else:
            ctx.violated(r3, sm, c, "sampled data are stitched with a different viewer than the one log_prob splits with: the layout of pseudo-data differs from the layout the density expects", expected=f"{split_recv[0]}.stitch", node=c)
        comp = A.expand_locals(sm.node, c.args[0]) if c.args else None  # the list may be named before it is stitched
        ok = isinstance(comp, (ast.ListComp, ast.GeneratorExp)) and A.unparse(comp.generators[0].iter) in ("self", "self._pdfobjs") and isinstance(comp.elt, ast.Call) and A.call_attr(comp.elt) == "sample" and comp.elt.args and "sample_shape" in A.names_loaded(comp.elt.args[0])
        if ok:
            ctx.holds(r3, f"{PROB}::Simultaneous.sample", "every constituent sampled with sample_shape, in constituent order")
        else:
            ctx.violated(r3, sm, c, "not every constituent is sampled with the requested sample_shape in constituent order", node=c)
    # iteration order of zip(self, split) in log_prob
    z = [c for c in A.calls_in(lp.node) if A.call_attr(c) == "zip"]
    if z and len(z[0].args) == 2 and A.unparse(z[0].args[0]) in ("self", "self._pdfobjs"):
        ctx.holds(r3, f"{PROB}::Simultaneous.log_prob", "constituents zipped with the split data in order")
    else:
        ctx.violated(r3, lp, "zip(self, constituent_data)", "constituent densities are not paired with their own slice of the data", node=lp.node)
    # end to end with the real _TensorViewer: two constituents whose data positions INTERLEAVE (as Gaussian and
    # Poisson auxiliary data do when constrained parameters alternate): pseudo-data, expected data and the data
    # each constituent's density sees must all use the same positions
    from . import viewers as _viewers
    from ..alg import NotHandled as _NotHandled
    for parts in ([[0, 2], [1, 3]], [[3], [0, 1, 2]], [[0, 1], [2, 3, 4]]):
        got_lp = {}

        def _only(recv):
            if not (isinstance(recv, Obj) and recv.name in ("P0", "P1")):
                raise _NotHandled()
            return int(recv.name[1])

        def _sample(recv, a, k):
            i = _only(recv)
            return [Poly.atom(f"smp{i}_{j}") for j in range(len(parts[i]))]

        def _expected(recv, a, k):
            i = _only(recv)
            return [Poly.atom(f"exp{i}_{j}") for j in range(len(parts[i]))]

        def _logprob(recv, a, k):
            i = _only(recv)
            got_lp[i] = [str(to_poly(x)) for x in a[0]]
            return Poly.atom(f"lp{i}")

        site3 = f"{PROB}::Simultaneous end to end {parts}"
        try:
            w = _viewers.world(repo, {".sample": _sample, ".expected_data": _expected, ".log_prob": _logprob, "stack": lambda a, k: list(a[0])})
            w.add_class(sim)
            tvc = repo.cls("src/pyhf/tensor/common.py", "_TensorViewer")
            tv = w.new(tvc, [[[Poly.const(j) for j in p_] for p_ in parts]], {})
            so = w.new(sim, [[Obj("P0"), Obj("P1")], tv], {})
            n = sum(len(p_) for p_ in parts)
            smp = [str(to_poly(x)) for x in w.call_method(so, "sample", [(Poly.const(1),)])]
            exd = [str(to_poly(x)) for x in w.call_method(so, "expected_data", [])]
            lp = to_poly(w.call_method(so, "log_prob", [[Poly.atom(f"x{j}") for j in range(n)]]))
            want_s, want_e = [None] * n, [None] * n
            for i, p_ in enumerate(parts):
                for j, pos in enumerate(p_):
                    want_s[pos], want_e[pos] = f"smp{i}_{j}", f"exp{i}_{j}"
            want_lp = {i: [f"x{pos}" for pos in p_] for i, p_ in enumerate(parts)}
            if smp == want_s and exd == want_e and got_lp == want_lp and lp == Poly.atom("lp0") + Poly.atom("lp1"):
                ctx.holds(r3, site3, "sample / expected_data place constituent i's values at the viewer's positions i; log_prob hands constituent i the data at those positions; the joint log-density is the sum")
            else:
                what = "sample" if smp != want_s else ("expected_data" if exd != want_e else ("log_prob data" if got_lp != want_lp else "joint log-density"))
                ctx.violated(r3, sim.methods["sample" if what == "sample" else ("expected_data" if what == "expected_data" else "log_prob")], f"Simultaneous {what} {parts}", f"{what}: the values of the constituent distributions are not laid out at (or read from) the positions the tensor viewer assigns to them", expected=str({"sample": want_s, "expected_data": want_e, "log_prob data": want_lp, "joint log-density": "lp0 + lp1"}[what]), found=str({"sample": smp, "expected_data": exd, "log_prob data": got_lp, "joint log-density": str(lp)}[what]))
        except (Undecided, KeyError, TypeError, ValueError, IndexError, AttributeError) as e:
            ctx.unrecognised(r3, sim, f"Simultaneous end to end {parts}", f"not interpretable: {type(e).__name__}: {e}")
    mixin = repo.cls(PROB, "_SimpleDistributionMixin")
    ms = mixin.methods["sample"]
    ctx.touch(ms)
    cs = [c for c in A.calls_in(ms.node) if A.call_attr(c) == "sample"]
    if cs and cs[0].args and "sample_shape" in A.names_loaded(cs[0].args[0]) and A.dotted(cs[0].func.value) == "self._pdf":
        ctx.holds(r3, f"{PROB}::_SimpleDistributionMixin.sample", "self._pdf.sample(sample_shape)")
    else:
        ctx.violated(r3, ms, "self._pdf.sample(...)", "the requested sample shape is not forwarded to the backend distribution", node=ms.node)


def _empirical_semantics(ctx, rid, repo):
    """EmpiricalDistribution and ToyCalculator.pvalues INTERPRETED on concrete sample vectors (list tensors): the
    p-value is exactly the fraction of ALL sampled statistics >= the observed one (2-D input, ties, infinite statistics,
    observations below / inside / beyond the sample), and the toy calculator returns exactly those fractions."""
    from fractions import Fraction as F_
    from .. import listnp
    from ..alg import AutoRegion
    from ..objmodel import World
    edc, tcc = repo.cls(CALC, "EmpiricalDistribution"), repo.cls(CALC, "ToyCalculator")
    errs = (Undecided, KeyError, TypeError, ValueError, IndexError, AttributeError)
    region = AutoRegion()
    region["INF"] = F_(10) ** 30
    INFV = float("inf")

    def mk():
        ext = listnp.externals(interp_truth=lambda v: to_poly(v).evalf(region) != 0)
        ext["get_backend"] = (lambda tl_: (lambda a, k: (tl_, None)))(_tensorlib_obj())
        w = World(ext, region=region, module_env={})
        w.add_class(edc).add_class(tcc)
        return w

    def tensor(vals, twod):
        xs = [Poly.atom("INF") if v == INFV else Poly.const(F_(str(v))) for v in vals]
        return listnp.T([xs[: len(xs) // 2], xs[len(xs) // 2:]]) if twod else listnp.T(xs)

    samples = [0, 0.4, 0.4, 2.5, INFV, INFV]
    probs = []
    try:
        for twod in (False, True):
            w = mk()
            ed = w.new(edc, [tensor(samples, twod)], {})
            for v in (-1, 0, 0.4, 1, 2.5, 100):
                got = to_poly(w.call_method(ed, "pvalue", [Poly.const(F_(str(v)))]))
                want = F_(sum(1 for x in samples if x >= v), len(samples))
                if not (got.is_const() and got.const_value() == want):
                    probs.append(f"samples {samples}{' (given as 2 x 3)' if twod else ''}: pvalue({v}) = {got}, the fraction of sampled statistics >= {v} is {want}")
        if probs:
            ctx.violated(rid, edc.methods["pvalue"], "tail fraction", "the empirical p-value is not exactly the fraction of ALL sampled statistics >= the observed value (infinite statistics count: they are >= every observation): " + probs[0], found=f"{len(probs)} deviation(s)")
        else:
            ctx.holds(rid, f"{CALC}::EmpiricalDistribution [interpreted]", "6 samples incl. ties and +inf, flat and 2-D input, 6 observed values: exact tail fractions")
    except errs as e:
        ctx.unrecognised(rid, edc, "EmpiricalDistribution [interpreted]", f"not interpretable: {type(e).__name__}: {e}")
    try:
        probs = []
        sig, bkg = [1.0, 2.0, 3.0, 4.0], [0.1, 0.2, 0.5, 1.5]
        for t in (0.05, 1.2, 2.0, 3.5, 9.0):
            w = mk()
            sd, bd = w.new(edc, [tensor(sig, False)], {}), w.new(edc, [tensor(bkg, False)], {})
            from ..objmodel import Instance
            calc = Instance(tcc)
            out = w.call_method(calc, "pvalues", [Poly.const(F_(str(t))), sd, bd])
            clsb, clb = to_poly(out[0]), to_poly(out[1])
            wsb, wb = F_(sum(1 for x in sig if x >= t), 4), F_(sum(1 for x in bkg if x >= t), 4)
            if not (clsb.is_const() and clsb.const_value() == wsb and clb.is_const() and clb.const_value() == wb):
                probs.append(f"observed statistic {t}: (CLsb, CLb) = ({clsb}, {clb}); the tail fractions of the two toy samples are ({wsb}, {wb})")
            elif wb != 0 and not (to_poly(out[2]).is_const() and to_poly(out[2]).const_value() == wsb / wb):
                probs.append(f"observed statistic {t}: CLs = {to_poly(out[2])}, CLsb/CLb = {wsb / wb}")
        if probs:
            ctx.violated(rid, tcc.methods["pvalues"], "toy p-values", "the toy calculator does not return exactly the tail fractions of its two toy samples (also when the observation lies beyond every background-like toy, where CLb is 0): " + probs[0], found=f"{len(probs)} deviation(s)")
        else:
            ctx.holds(rid, f"{CALC}::ToyCalculator.pvalues [interpreted]", "5 observed values from below to beyond both samples: (CLsb, CLb) are the tail fractions, CLs their ratio")
    except errs as e:
        ctx.unrecognised(rid, tcc, "ToyCalculator.pvalues [interpreted]", f"not interpretable: {type(e).__name__}: {e}")


def accepted_statistic_names(repo, spellings=("qtilde", "q", "q0", "Q0", "Q", "QTILDE", "Qtilde", " q0", "q0 ")):
    """{spelling: 'q0' | 'q' | 'qtilde'} for the spellings the real get_test_stat (interpreted) accepts; the others are refused"""
    gts = repo.func("src/pyhf/infer/utils.py", "get_test_stat")
    canon = {"q0": "q0", "qmu": "q", "qmu_tilde": "qtilde"}
    out = {}
    for sp_ in spellings:
        try:
            f_ = Interp({"name": sp_, **{n_: Obj(n_) for n_ in canon}, "InvalidTestStatistic": Obj("InvalidTestStatistic")}, {}, {}).run(A.strip_docstring(gts.node.body))
        except RaisedInFragment:
            continue
        if isinstance(f_, Obj) and f_.name in canon:
            out[sp_] = canon[f_.name]
        else:
            raise Undecided(f"get_test_stat({sp_!r}) returns {getattr(f_, 'name', f_)!r}")
    return out


def toy_hypotheses(repo, stat):
    """The POI values at which ToyCalculator.distributions (constructor + distributions interpreted, fits as recorders)
    runs its two conditional fits for the statistic named `stat`: [mu of the signal toys, mu of the background toys]."""
    tc = repo.cls(CALC, "ToyCalculator")
    fits = []

    def fpf(args, kw):
        fits.append(to_poly(args[0]))
        return Obj(f"fit{len(fits)}")

    ext = {
        "fixed_poi_fit": fpf, ".make_pdf": lambda recv, a, k: Obj("pdf"), ".sample": lambda recv, a, k: Obj("toys"), "tqdm": lambda a, k: [Obj("toy")],
        "EmpiricalDistribution": lambda a, k: Obj("ED"), "get_test_stat": lambda a, k: PyFunc(lambda a2, k2: Obj("ts"), "teststat_func"), "dict": lambda a, k: {},
        "HypoTestFitResults": lambda a, k: Obj("fitresults", dict(k), closed=True),
    }
    attrs = {}
    ienv = {"data": Obj("data"), "pdf": Obj("model"), "init_pars": Obj("init"), "par_bounds": Obj("bounds"), "fixed_params": Obj("fixed"), "test_stat": stat, "ntoys": Poly.atom("NTOYS"), "track_progress": False}
    Interp(ienv, attrs, {}, cls_name=tc.name, externals=ext).run(A.strip_docstring(tc.methods["__init__"].node.body))
    Interp({"poi_test": Poly.atom("mu_test"), "track_progress": None, "utils": Obj("utils")}, attrs, {}, cls_name=tc.name, externals=ext).run(A.strip_docstring(tc.methods["distributions"].node.body))
    return [str(x) for x in fits]
