"""C01 -- expected rates follow the HistFactory rate formula (structural necessary conditions).

  R1 FILL/ROLE  for each registered (builder, applier): op_code is 'addition' or 'multiplication'; apply
                returns the parameter-dependent value where the presence mask holds and the neutral element
                of its op_code (0 / 1) elsewhere
  R2 ASM        appliers are routed by op_code to the delta / factor lists; expected_data ==
                clipB?(sum_0(clipS?(prod(factors ++ [sum(deltas ++ [nominal])])))) , clips guarded by `is not None`
  R3 DEP        builder masks are presence masks (True iff the sample declares the modifier), one entry per bin;
                absent histosys/normsys data are neutral (lo = hi = nominal resp. 1.0)
  R4 FILL       a sample absent from a channel contributes a zero nominal of the channel's bin count
  R5 ORDER      every applier builds its mask with the modifier axis over the keys it selects parameters for
                (same iteration of `modifiers`) and the sample axis over pdfconfig.samples; the nominal tensor
                uses config.samples; bin-index fields run over pdfconfig.channels with channel_nbins
  R7 DEP        parameters are requested and selected by modifier *name* (sharing by name)
"""

from __future__ import annotations

import ast
import itertools

from .. import astutil as A
from ..alg import FragmentFault, AutoRegion, Interp, Obj, Poly, PyFunc, Undecided, fn, to_poly
from ..alg import tensorlib_obj as _tensorlib_obj
from ..objmodel import World
from ..dep import Deps
from .. import listnp
from . import viewers

EXPLANATION = (
    "Every modifier applier registered in histfactory_set is abstractly interpreted (mask present / absent) with the "
    "parameter lookup, the gathered parameters and the interpolator replaced by opaque atoms: where the mask holds "
    "the result must be the parameter-dependent value, elsewhere exactly the neutral element of the applier's "
    "op_code; _MainModel.__init__ routing and expected_data are interpreted for the four clip configurations and "
    "compared with the reference term of the rate formula; builder.collect is interpreted for a declared / undeclared "
    "modifier; the canonical-order rule is structural (which list each tensor axis is built over). NOT decided: "
    "index arithmetic inside the viewers, interpolation values (C03), numerical equality."
)
ASSUMPTIONS = ["tensorlib.where/einsum/tile/gather semantics of pyhfsa.alg", "the registry pyhf.modifiers.histfactory_set is the modifier set in use"]
PDF = "src/pyhf/pdf.py"
MODS = "src/pyhf/modifiers/__init__.py"


def registry(repo):
    m = repo.module(MODS)
    d = m.assigns.get("histfactory_set")
    if not isinstance(d, ast.Dict):
        from ..loader import AnalysisError
        raise AnalysisError("anchor vanished: histfactory_set dict literal")
    out = {}
    for k, v in zip(d.keys, d.values):
        if isinstance(v, ast.Tuple) and len(v.elts) == 2:
            kb, b = repo.resolve_name(m, A.dotted(v.elts[0]))
            kc, c = repo.resolve_name(m, A.dotted(v.elts[1]))
            if kb == "class" and kc == "class":
                out[A.const_value(k)] = (b, c)
    return out


def applier_state(c, mask, batch=None):
    """self-attributes of a combined modifier with a raw presence mask value."""
    attrs = {"batch_size": batch, "param_viewer": Obj("pv", {"index_selection": [Poly.const(1)], "indices_concatenated": Poly.atom("IDX")}),
             "interpolator": PyFunc(lambda a, k: Poly.atom(f"INTERP<{to_poly(a[0])}>"), "interpolator"), "_access_field": Poly.atom("ACCESS")}
    for n in ast.walk(c.methods["__init__"].node):
        if isinstance(n, ast.Assign):
            for t in n.targets:
                d = A.dotted(t)
                if d and d.startswith("self._") and d.endswith("_mask"):
                    attrs[d.split(".")[1]] = mask
    # attributes the REAL constructor derives from the presence mask alone (a mask expanded or converted once at construction instead
    # of at every refresh): run those assignments of __init__ on the stand-in state, in order; anything else the constructor does is
    # outside this function-level rule (C01.R10 runs the whole constructor)
    masks = {k for k in attrs if k.endswith("_mask")}
    for st in c.methods["__init__"].node.body:
        if not (isinstance(st, ast.Assign) and len(st.targets) == 1):
            continue
        tgt = A.dotted(st.targets[0])
        if not (tgt and tgt.startswith("self.") and tgt.count(".") == 1) or tgt.split(".")[1] in attrs:
            continue
        reads = {A.dotted(n_) for n_ in ast.walk(st.value) if isinstance(n_, ast.Attribute) and isinstance(n_.value, ast.Name) and n_.value.id == "self"}
        if not reads or not (reads & {f"self.{m_}" for m_ in masks}) or not reads <= {f"self.{a_}" for a_ in attrs}:
            continue
        try:
            Interp({}, attrs, {}, cls_name=c.name).run([st])
        except Undecided:
            continue
        if tgt.split(".")[1] in attrs:
            masks.add(tgt.split(".")[1])
    return attrs


def eval_apply(c, mask, batch=None):
    attrs = applier_state(c, mask, batch)
    ext = {".get": lambda recv, a, k: Poly.atom("PARVALS")}
    pre = c.methods.get("_precompute")
    if pre is not None:
        Interp({}, attrs, {}, cls_name=c.name, externals=ext).run(A.strip_docstring(pre.node.body))
    it = Interp({"pars": Poly.atom("PARS")}, attrs, {}, cls_name=c.name, externals=ext)
    return it.run(A.strip_docstring(c.methods["apply"].node.body))


def run(ctx):
    repo = ctx.repo
    reg = registry(repo)
    if len(reg) < 7:
        ctx.error(f"C01: histfactory_set has {len(reg)} (builder, applier) entries, floor 7")
    r1 = ctx.rule("C01.R1", "FILL/ROLE: every applier's op_code is 'addition' or 'multiplication'; apply() yields a parameter-dependent value where the presence mask holds and the neutral element (0 for addition, 1 for multiplication) where it does not", "FILL", floor=21)
    r2 = ctx.rule("C01.R2", "ASM: 'addition' appliers feed the delta list, 'multiplication' appliers the factor list; expected_data = clipB?(sum_samples(clipS?(prod(factors, nominal + sum(deltas))))) with each clip applied iff its bound is not None", "ASM", floor=7)
    r3 = ctx.rule("C01.R3", "DEP: builder.collect marks every bin True iff the sample declares the modifier; undeclared histosys/normsys variations are the nominal / 1.0", "DEP", floor=14)
    r4 = ctx.rule("C01.R4", "FILL: a sample that is absent from a channel gets a nominal of zeros with the channel's bin count (nominal builder and every modifier builder)", "FILL", floor=8)
    r5 = ctx.rule("C01.R5", "ORDER: mask modifier axis = keys built from the same `modifiers` list as the parameter selection; sample axis = pdfconfig.samples; nominal rates over config.samples; bin-index fields over pdfconfig.channels x channel_nbins", "ORDER", floor=12)
    r6 = ctx.rule("C01.R6", "SHAPE: in every applier einsum the output has the four axis roles (modifier, sample, batch, bin) of the mask operand; the operand that carries parameter values is never indexed by the sample axis (a modifier's effect on a sample is decided by the mask alone) and its modifier letter, if present, is the output's first; builder data keep their up/down roles from the specification to the interpolator (lo, nominal, hi)", "SHAPE", floor=10)
    r7 = ctx.rule("C01.R7", "DEP: parameter requirements are registered under the modifier name and appliers select parameters by those names", "DEP", floor=13)

    r8 = ctx.rule("C01.R8", "ACCESS: interpreting the constructors of the bin-wise appliers (staterror, shapesys, shapefactor) on a concrete 2-modifier x 2-sample x 3-channel x 4-bin configuration, with and without batching, the stored access field sends every bin the modifier acts on to that modifier's own parameter index for the bin (also when its bins are not contiguous and when it is carried only by the last sample)", "ACCESS", floor=6)
    _access_fields(ctx, r8, reg)
    r9 = ctx.rule("C01.R9", viewers.RULE_TEXT, "VIEW", floor=16)
    viewers.check(ctx, r9)
    r10 = ctx.rule("C01.R10", "APPLY: constructor + _precompute + apply of the multiplicative appliers normfactor, lumi, staterror, shapesys, shapefactor and, with every interpolation code they accept, of normsys and histosys (cell value = the code's scalar reference function of that cell's down/nominal/up data and the modifier's own parameter, else the neutral element), interpreted END TO END (real ParamViewer/_TensorViewer/interpolators, list tensors) on 2 modifiers x 2 samples x 3 channels x 4 bins, unbatched and with 2 batch rows: the factor in cell (modifier, sample, row, bin) is the modifier's own parameter component for that bin in that row where the sample declares it, and exactly 1 elsewhere", "APPLY", floor=20)
    _apply_end_to_end(ctx, r10, reg)
    _apply_interpolating(ctx, r10, reg)
    r12 = ctx.rule("C01.R12", "RATE: the main model constructed THROUGH Model.__init__ (its clipping options travel through the real constructor wiring) and evaluated END TO END over list tensors with recording appliers (two multiplicative appliers with two modifiers each, one additive applier, one applier without modifiers; 2 samples x 3 bins; unbatched and 2 batch rows; each clip on and off; by-sample and summed): rate[row][bin] = sum over samples of clipS?(prod over all factor cells x (nominal + sum over all delta cells)), then clipB? -- every axis reduction over the right axis", "RATE", floor=8)
    _rate_end_to_end(ctx, r12)
    r13 = ctx.rule("C01.R13", "LAYOUT: the channel summary every model configuration is built on (interpreted, shared with C12.R8): channels sorted, bin counts and slices keyed and tiling in THAT order whatever the listing order", "LAYOUT", floor=1)
    from .c12 import _summary_interpreted
    _summary_interpreted(ctx, r13, repo)
    r14 = ctx.rule("C01.R14", "FRESH: _ModelConfig.__init__ interpreted for a first model, every container reachable from that configuration then altered in place (a user tweaking `model.config.modifier_settings` to describe a variant), and interpreted again: the second default-constructed configuration carries the documented default interpolation codes (normsys code4, histosys code4p) and shares no container with the first; settings passed explicitly arrive as given", "FRESH", floor=3)
    _fresh_defaults(ctx, r14, repo)
    r15 = ctx.rule("C01.R15", "OPS: the array operations the evaluation is written against (clip, tile, sum, product, where, stack, concatenate, reshape, gather, boolean_mask, einsum, power, divide, sqrt, exp, log, abs, isfinite, outer) on all four backends, interpreted with the array library replaced by role recorders bound with the library's own signatures: each tensorlib method hands the caller's arguments to the library function of THAT operation in their own roles (mask/x/y, x/axis, lo/hi, sequence/axis ...), with the axis given and absent, each clip bound given and absent", "OPS", floor=80)
    from . import backend_ops
    backend_ops.check(ctx, r15)
    r16 = ctx.rule("C01.R16", "POINT-HISTORY: Model (constructed through its own __init__ over stand-in parts) evaluated twice with ONE parameter buffer whose content was changed in place in between (astensor does not copy an array of the backend's own type): expected_actualdata, expected_data, logpdf, mainlogpdf and constraint_logpdf of the second call are built from the buffer's NEW content", "HISTORY", floor=5)
    _model_point_history(ctx, r16)
    r11 = ctx.rule("C01.R11", "BUILD: _nominal_and_modifiers_from_spec interpreted END TO END with the real nominal builder and all seven modifier builders on a 3-channel (listed out of order) x 2-sample specification in which every modifier type occurs once or twice and one sample is absent from a channel: nominal rates and every builder tensor follow config.channels x config.samples; a cell is masked in exactly where the sample declares the modifier; undeclared cells carry the neutral data (nominal / 1 / 0); each applier receives its own type's modifiers, the configuration, its own builder data and the batch size", "BUILD", floor=9)
    _build_end_to_end(ctx, r11, reg)

    for key, (b, c) in sorted(reg.items()):
        for m in list(b.methods.values()) + list(c.methods.values()):
            ctx.touch(m)
        site = f"{c.relpath}::{c.name}"
        op = A.const_value(c.attrs.get("op_code")) if "op_code" in c.attrs else None
        nm = A.const_value(c.attrs.get("name")) if "name" in c.attrs else None
        if op not in ("addition", "multiplication"):
            ctx.violated(r1, c, f"op_code = {op!r}", "applier op_code is neither 'addition' nor 'multiplication': it is routed nowhere and silently has no effect", expected="'addition' | 'multiplication'", node=c.node)
            continue
        if nm != key:
            ctx.violated(r1, c, f"name = {nm!r}", f"applier registered under {key!r} calls itself {nm!r}: _MainModel looks appliers up by this name", expected=repr(key), node=c.node)
        else:
            ctx.holds(r1, f"{site}.op_code", f"{op}; name == registry key")
        neutral = Poly() if op == "addition" else Poly.const(1)
        for mask in (True, False):
            try:
                v = to_poly(eval_apply(c, mask))
            except Undecided as e:
                ctx.unrecognised(r1, c.methods["apply"], f"apply[mask={mask}]", f"not interpretable: {e}")
                continue
            atoms = {a.split("<")[0] for a in v.atoms()}
            if mask:
                if atoms & {"PARVALS", "gather", "INTERP"}:
                    ctx.holds(r1, f"{site}.apply [declared]", str(v))
                else:
                    ctx.violated(r1, c.methods["apply"], "apply where the modifier is declared", "where the sample declares the modifier the result does not depend on the parameter", found=str(v))
            else:
                if v == neutral:
                    ctx.holds(r1, f"{site}.apply [not declared]", f"neutral element {neutral}")
                else:
                    ctx.violated(r1, c.methods["apply"], "apply where the modifier is not declared", f"a sample that does not declare this {op} modifier is not left untouched: it receives {v} instead of the neutral element", expected=str(neutral), found=str(v))
        # ---- R6 einsum axis roles
        from ..dep import Deps as _Deps
        ap = c.methods["apply"]
        dap = _Deps(ap.node)
        es_specs = []
        for es in [cc for cc in A.calls_in(ap.node) if A.call_attr(cc) == "einsum"]:
            a0 = A.expand_locals(ap.node, es.args[0]) if es.args else None
            alts = [a0.body, a0.orelse] if isinstance(a0, ast.IfExp) else [a0]  # one literal, or one per arm of `x if unbatched else y`
            vals = [A.const_value(x) if x is not None and A.is_const(x) else None for x in alts]
            if not all(isinstance(v_, str) and "->" in v_ for v_ in vals):
                ctx.unrecognised(r6, ap, es, "einsum without a literal subscript string")
                continue
            es_specs.extend((es, v_) for v_ in vals)
        for es, spec_ in es_specs:
            ins, out = spec_.replace(" ", "").split("->")
            subs = ins.split(",")
            ops = es.args[1:]
            okr, why = True, ""
            if len(out) != 4 and not any(len(sub_) == 4 for sub_ in subs):
                continue  # a helper contraction / transposition that does not build the (modifier, sample, batch, bin) tensor: decided end to end by C01.R10
            if len(out) != 4 or len(set(out)) != 4:
                okr, why = False, f"output '{out}' does not have four distinct axes (modifier, sample, batch, bin)"
            for sub, op in zip(subs, ops):
                is_par = dap.depends_on(op, "pars")
                if is_par and okr:
                    if out[1] in sub:
                        okr, why = False, f"the parameter operand '{sub}' is indexed by the sample axis '{out[1]}'"
                    elif out[0] in sub and sub[0] != out[0]:
                        okr, why = False, f"the modifier axis is not the leading axis of the parameter operand '{sub}'"
                    elif out[3] in sub and out[0] not in sub:
                        okr, why = False, f"the parameter operand '{sub}' is indexed by bin but not by modifier"
                elif not is_par and okr and len(sub) == 4 and sub != out:
                    okr, why = False, f"the mask operand '{sub}' and the output '{out}' order their axes differently"
            if okr:
                ctx.holds(r6, f"{site}.apply: einsum {spec_!r}", "axis roles consistent")
            else:
                ctx.violated(r6, ap, es, f"einsum {spec_!r}: {why}: parameter values are spread over the wrong axis of the (modifier, sample, batch, bin) tensor", expected="'msab,m->msab' | 'msab,ma->msab' | 'mab,s->msab' (letters free)", found=spec_, node=es)
        # ---- R3 / R4 builder
        col = b.methods.get("collect")
        app = b.methods.get("append")
        if col is None or app is None:
            ctx.unrecognised(r3, b, b.name, "builder without collect/append")
            continue
        nom = [Poly.atom("n0"), Poly.atom("n1")]
        for present in (True, False):
            thismod = Obj("thismod", {}) if present else None
            env = {"thismod": _ModDict() if present else None, "nom": list(nom)}
            try:
                out = Interp(env, {}, AutoRegion(), cls_name=b.name).run(A.strip_docstring(col.node.body))
                mk = out.get("mask")
                if list(mk) == [present, present]:
                    ctx.holds(r3, f"{b.relpath}::{b.name}.collect [{'declared' if present else 'not declared'}]", f"mask = {list(mk)}")
                else:
                    ctx.violated(r3, col, f"mask [{'declared' if present else 'not declared'}]", "the mask is not a presence mask with one entry per bin: a modifier declared on one sample acts on others (or not on its own)", expected=str([present] * 2), found=str(mk))
                if present and key in ("histosys", "normsys"):
                    lo_k, hi_k = ("lo_data", "hi_data") if key == "histosys" else ("lo", "hi")
                    lo_v, hi_v = out[lo_k], out[hi_k]
                    flat = lambda z: "".join(str(to_poly(q)) for q in (z if isinstance(z, list) else [z]))
                    flat = lambda z: "".join(str(to_poly(q)) for q in (z if isinstance(z, list) else [z])).replace("lohi_same_value_1", "")
                    if "lo" in flat(lo_v) and "hi" in flat(hi_v) and "hi" not in flat(lo_v) and "lo" not in flat(hi_v):
                        ctx.holds(r6, f"{b.relpath}::{b.name}.collect", "down variation <- spec lo, up variation <- spec hi")
                    else:
                        ctx.violated(r6, col, f"{key} lo/hi routing", "the builder stores the specification's down variation as up (or vice versa)", expected="lo <- lo, hi <- hi", found=f"lo={flat(lo_v)} hi={flat(hi_v)}")
                if not present:
                    if key == "histosys":
                        ok = [str(to_poly(x)) for x in out["lo_data"]] == ["n0", "n1"] and [str(to_poly(x)) for x in out["hi_data"]] == ["n0", "n1"]
                    elif key == "normsys":
                        ok = [to_poly(x) for x in out["lo"]] == [Poly.const(1)] * 2 and [to_poly(x) for x in out["hi"]] == [Poly.const(1)] * 2
                    else:
                        ok = None
                    if ok is True:
                        ctx.holds(r3, f"{b.relpath}::{b.name}.collect", "undeclared variations are neutral")
                    elif ok is False:
                        ctx.violated(r3, col, "undeclared variation data", "the stand-in variation data of a sample that does not declare the modifier are not neutral", found=str({k: [str(x) for x in v] for k, v in out.items() if k != 'mask'}))
            except (Undecided, AttributeError, KeyError, TypeError) as e:
                ctx.unrecognised(r3, col, "collect", f"not interpretable: {e}")
        _absent_nominal(ctx, r4, b, app)
        # ---- R5 / R7 structure of combined.__init__
        init = c.methods["__init__"]
        _layout(ctx, r5, r6, r7, key, b, c, init)

    # nominal builder
    nb = repo.cls(PDF, "_nominal_builder")
    for m in nb.methods.values():
        ctx.touch(m)
    _absent_nominal(ctx, r4, nb, nb.methods["append"])
    fin = nb.methods["finalize"]
    its = [A.unparse(g.iter) for n in ast.walk(fin.node) if isinstance(n, ast.ListComp) for g in n.generators]
    if its == ["self.config.samples"]:
        ctx.holds(r5, f"{PDF}::_nominal_builder.finalize", "sample axis over config.samples")
    else:
        ctx.violated(r5, fin, "nominal rates sample axis", "the nominal tensor's sample axis is not built over config.samples (the order every mask uses)", found=str(its), node=fin.node)

    # ------------------------------------------------------------ R2
    mm = repo.cls(PDF, "_MainModel")
    for m in mm.methods.values():
        ctx.touch(m)
    try:
        attrs = {}
        mods = {"a": Obj("A", {"op_code": "addition", "name": "a"}), "m": Obj("M", {"op_code": "multiplication", "name": "m"}), "a2": Obj("A2", {"op_code": "addition", "name": "a2"})}
        from ..objmodel import World as _W
        env = {"pyhf": Obj("pyhf"), "log": Obj("log"), "events": Obj("events")}
        # formal parameters other than the three this rule is about keep their declared defaults
        env.update(_W()._bind(mm.methods["__init__"].node, [Obj("config")], {"modifiers": mods, "nominal_rates": Poly.atom("NOMRAW")}, skip_self=True))
        Interp(env, attrs, {}, cls_name="_MainModel").run(A.strip_docstring(mm.methods["__init__"].node.body))
        if attrs.get("_delta_mods") == ["a", "a2"] and attrs.get("_factor_mods") == ["m"]:
            ctx.holds(r2, f"{PDF}::_MainModel.__init__", "addition -> _delta_mods, multiplication -> _factor_mods")
        else:
            ctx.violated(r2, mm.methods["__init__"], "op_code routing", "appliers are not routed by op_code (additive shifts must be summed with the nominal, multiplicative factors multiplied)", expected="_delta_mods=['a','a2'], _factor_mods=['m']", found=f"_delta_mods={attrs.get('_delta_mods')}, _factor_mods={attrs.get('_factor_mods')}")
    except Undecided as e:
        ctx.unrecognised(r2, mm.methods["__init__"], "__init__", f"not interpretable: {e}")
    mo = mm.methods["modifications"]
    try:
        appl = {"a": Obj("A"), "a2": Obj("A2"), "m": Obj("M"), "none": Obj("NONE")}
        ext = {".apply": lambda recv, a, k: (None if recv.name == "NONE" else Poly.atom(f"apply<{recv.name};{to_poly(a[0])}>"))}
        out = Interp({"pars": Poly.atom("PARS")}, {"modifiers_appliers": appl, "_delta_mods": ["a", "none", "a2"], "_factor_mods": ["m"]}, {}, cls_name="_MainModel", externals=ext).run(A.strip_docstring(mo.node.body))
        got = [[str(to_poly(x)) for x in part] for part in out]
        if got == [["apply<A;PARS>", "apply<A2;PARS>"], ["apply<M;PARS>"]]:
            ctx.holds(r2, f"{PDF}::_MainModel.modifications", "(apply() of the additive appliers, apply() of the multiplicative appliers), empty appliers dropped")
        else:
            ctx.violated(r2, mo, "modifications", "modifications() does not return (apply() of the additive appliers, apply() of the multiplicative appliers)", expected="([A, A2], [M])", found=str(got))
    except (Undecided, TypeError) as e:
        ctx.unrecognised(r2, mo, "modifications", f"not interpretable: {e}")
    ed = mm.methods["expected_data"]
    D, F, N = [Poly.atom("D1"), Poly.atom("D2")], [Poly.atom("F1"), Poly.atom("F2")], Poly.atom("NOM")
    for cs, cb in itertools.product((None, Poly.atom("CS")), (None, Poly.atom("CB"))):
        lab = f"clip_sample={'on' if cs is not None else 'off'} clip_bin={'on' if cb is not None else 'off'}"
        try:
            attrs = {"nominal_rates": N, "clip_sample_data": cs, "clip_bin_data": cb, "batch_size": None}
            v = to_poly(Interp({"pars": Poly.atom("PARS"), "return_by_sample": False}, attrs, {}, cls_name="_MainModel", externals={"modifications": lambda a, k: (list(D), list(F))}).run(A.strip_docstring(ed.node.body)))
            t = F[0] * F[1] * (D[0] + D[1] + N)
            if cs is not None:
                t = fn("clip", t, cs, Poly.atom("NONE"))
            t = fn("sum", t, Poly.const(0))
            if cb is not None:
                t = fn("clip", t, cb, Poly.atom("NONE"))
            if v == t:
                ctx.holds(r2, f"{PDF}::_MainModel.expected_data [{lab}]", str(t))
            else:
                ctx.violated(r2, ed, f"expected_data [{lab}]", "the expected rate is not sum over samples of (product of factors) x (nominal + sum of shifts) with per-sample clipping before and per-bin clipping after the sample sum", expected=str(t), found=str(v))
        except Undecided as e:
            ctx.unrecognised(r2, ed, f"expected_data [{lab}]", f"not interpretable: {e}")
    # reduction axes of the two concatenations
    axes = []
    for c in A.calls_in(ed.node):
        if A.call_attr(c) in ("sum", "product"):
            axes.append((A.call_attr(c), {k.arg: A.const_value(k.value) for k in c.keywords}.get("axis", "absent")))
    if axes and all(ax == 0 for _, ax in axes):
        ctx.holds(r2, f"{PDF}::_MainModel.expected_data", f"reductions {axes} over the leading (modifier / sample) axis")
    else:
        ctx.violated(r2, ed, "reduction axes", "modifier/sample reductions are not over the leading axis", found=str(axes), node=ed.node)


class _ModDict(dict):
    """A declared modifier: thismod['data'] / thismod['data']['lo'] ... yield opaque atoms."""

    def __bool__(self):
        return True

    def __getitem__(self, k):
        if k == "data":
            return _ModData()
        return Poly.atom(f"mod_{k}")

    def __contains__(self, k):
        return True


class _ModData(dict):
    def __bool__(self):
        return True

    def __contains__(self, k):
        return True

    def __getitem__(self, k):
        if k in ("lo_data", "hi_data"):
            # bin 1 carries the SAME value in the down and the up template (a same-sign variation, different from the nominal)
            return [Poly.atom(f"{k}0"), Poly.atom("lohi_same_value_1")]
        return Poly.atom(f"data_{k}")


def _absent_nominal(ctx, rid, b, app):
    """In append(): the nominal used when defined_samp is falsy is [0.0] * config.channel_nbins[channel]."""
    found = None
    for n in ast.walk(app.node):
        if isinstance(n, ast.IfExp) and "defined_samp" in A.unparse(n.test):
            found = n
    site = f"{b.relpath}::{b.name}.append"
    if found is None:
        ctx.unrecognised(rid, app, "append", "no `x if defined_samp else y` selecting the nominal")
        return
    absent = found.orelse if "not" not in A.unparse(found.test) else found.body
    ok = isinstance(absent, ast.BinOp) and isinstance(absent.op, ast.Mult)
    if ok:
        lst, cnt = (absent.left, absent.right) if isinstance(absent.left, ast.List) else (absent.right, absent.left)
        vals = A.const_value(lst) if isinstance(lst, ast.List) else None
        zero = isinstance(vals, list) and len(vals) == 1 and vals[0] == 0
        length_ok = "channel_nbins[channel]" in A.unparse(A.expand_locals(app.node, cnt)).replace(" ", "")
        if not length_ok:
            ctx.violated(rid, app, absent, "the stand-in nominal of an absent sample does not have the channel's bin count", expected="[0.0] * self.config.channel_nbins[channel]", found=A.short(absent, 60), node=absent)
        elif zero or b.name != "_nominal_builder":
            if b.name == "_nominal_builder" or zero:
                ctx.holds(rid, site, "absent sample -> zeros of channel_nbins[channel]")
            else:
                ctx.holds(rid, site, "absent sample -> stand-in of channel_nbins[channel] bins (values unused by this modifier)")
        else:
            ctx.violated(rid, app, absent, "a sample that is absent from a channel contributes a non-zero nominal yield there", expected="[0.0] * nbins", found=A.short(absent, 60), node=absent)
    else:
        ctx.violated(rid, app, absent, "the nominal of an absent sample is not a constant list of the channel's bin count", found=A.short(absent, 60), node=absent)


def _layout(ctx, r5, r6, r7, key, b, c, init):
    """Interpret the applier's constructor on a symbolic 2-modifier x 2-sample configuration and read the layout of every
    tensor it stores: row i must belong to the i-th modifier the parameters are selected for, column j to pdfconfig.samples[j]."""
    site = f"{c.relpath}::{c.name}.__init__"
    mods = [("mB", key), ("mA", key)]  # deliberately not in sorted order: the applier must keep the order it is given
    samples = ["sB", "sA"]
    fields = ["mask", "lo_data", "hi_data", "nom_data", "lo", "hi", "uncrt"]
    bd = {}
    for m, t in mods:
        bd[f"{t}/{m}"] = {s_: {"data": {f_: Poly.atom(f"{f_}@{m}@{s_}") for f_ in fields}} for s_ in samples}
    seen = {}

    def pv(args, kw):
        seen["pv"] = args
        return Obj("PV", {"index_selection": [[[Poly.atom("P0"), Poly.atom("P1")]], [[Poly.atom("P2"), Poly.atom("P3")]]], "indices_concatenated": Poly.atom("IDX")})

    cfg = Obj("pdfconfig", {"samples": list(samples), "channels": ["c1"], "channel_nbins": {"c1": Poly.const(2)}, "npars": Poly.const(4), "par_map": Obj("PARMAP")})
    attrs = {}
    env = {"modifiers": list(mods), "pdfconfig": cfg, "builder_data": bd, "batch_size": None, "interpcode": "code0", "pyhf": Obj("pyhf"), "events": Obj("events")}
    try:
        Interp(env, attrs, {}, cls_name=c.name, externals={"ParamViewer": pv}).run(A.strip_docstring(init.node.body))
    except Undecided:
        pass  # the layout attributes are assigned before the parts outside the fragment (interpolator lookup, index bookkeeping)
    # parameter selection by modifier names, in `modifiers` order
    if "pv" in seen and len(seen["pv"]) >= 3 and list(seen["pv"][2]) == ["mB", "mA"] and getattr(seen["pv"][1], "name", "") == "PARMAP":
        ctx.holds(r7, f"{site}: ParamViewer(..., par_map, names)", "parameters selected by the modifier names in `modifiers` order")
    else:
        ctx.violated(r7, init, "ParamViewer(...)", "the applier does not select its parameters by the modifier names (in the order of `modifiers`) from the configuration's par_map", expected="ParamViewer(shape, pdfconfig.par_map, [m for m, _ in modifiers])", found=str(seen.get("pv")), node=init.node)
    n_t = 0
    for nm, v in sorted(attrs.items()):
        tags = _tags(v)
        if not tags:
            continue
        n_t += 1
        ok = isinstance(v, list) and len(v) == 2 and all(isinstance(r, list) and len(r) == 2 for r in v)
        if ok:
            for i, (m, _) in enumerate(mods):
                for j, s_ in enumerate(samples):
                    cell = _tags(v[i][j])
                    if not cell or any(t.split("@")[1:] != [m, s_] for t in cell):
                        ok = False
        if ok and isinstance(v[0][0], list) and len(v[0][0]) == 3 and all(isinstance(x, Poly) for x in v[0][0]):
            kinds3 = [sorted(_tags(x))[0].split("@")[0] for x in v[0][0]]
            if not any(k3.startswith(("lo", "hi")) for k3 in kinds3):
                pass  # not an interpolator input (e.g. shapesys bookkeeping)
            elif not (kinds3[0].startswith("lo") and kinds3[1].startswith("nom") and kinds3[2].startswith("hi")):
                ok = False
                ctx.violated(r6, init, f"self.{nm} slot order", f"the (down, nominal, up) slots handed to the interpolator are filled with {kinds3}: the up and down variations are exchanged or misplaced", expected="[lo, nominal, hi]", found=str(kinds3), node=init.node)
            else:
                ctx.holds(r6, f"{site}: self.{nm} slots", "(lo, nominal, hi)")
        if ok:
            ctx.holds(r5, f"{site}: self.{nm}", "tensor[i][j] holds the data of (modifier i of `modifiers`, sample j of pdfconfig.samples)")
        else:
            ctx.violated(r5, init, f"self.{nm}", "a modifier tensor is not laid out as [i-th modifier the parameters are selected for][j-th sample of pdfconfig.samples]: a modifier acts with another modifier's parameter or on another sample", expected="rows in `modifiers` order, columns in pdfconfig.samples order", found=str(v)[:160], node=init.node)
    if n_t == 0:
        ctx.unrecognised(r5, init, "mask", "no tensor built from builder_data found")
    # bin-index field over pdfconfig.channels x channel_nbins (structural: uses comprehension variables only)
    for n in ast.walk(init.node):
        if isinstance(n, ast.ListComp) and len(n.generators) == 2 and A.unparse(n.generators[0].iter) == "pdfconfig.channels" and isinstance(n.generators[1].iter, ast.Call) and A.call_attr(n.generators[1].iter) == "range":
            cv = A.unparse(n.generators[0].target)
            if f"pdfconfig.channel_nbins[{cv}]" in A.unparse(n.generators[1].iter) and A.unparse(n.elt) == A.unparse(n.generators[1].target):
                ctx.holds(r5, f"{site}: bin-index field", "over pdfconfig.channels x channel_nbins[c]")
            else:
                ctx.violated(r5, init, n, "the per-bin index field is not laid out over pdfconfig.channels with channel_nbins", found=A.short(n, 100), node=n)
    # builder registers requirements under the modifier name
    app = b.methods.get("append")
    regs = [(m, cc) for m in b.methods.values() for cc in A.calls_in(m.node) if A.call_attr(cc) == "setdefault" and "required_parsets" in (A.dotted(cc.func.value) or "")]
    if not regs:
        ctx.unrecognised(r7, b, b.name, "no required_parsets registration")
    for m, cc in regs:
        k = cc.args[0]
        kt = A.unparse(k)
        d = Deps(m.node)
        okk = "['name']" in kt
        if not okk and isinstance(k, ast.Name):
            for dv in d.defs.get(k.id, []):
                # <key of builder_data>.split('/')[1]  -> the name part of 'type/name'
                if isinstance(dv, ast.Subscript) and A.const_value(dv.slice) == 1 and isinstance(dv.value, ast.Call) and A.call_attr(dv.value) == "split":
                    okk = True
        if okk:
            ctx.holds(r7, f"{b.relpath}::{b.name}.{m.name}", "requirement registered under the modifier's name")
        else:
            ctx.violated(r7, m, cc, "the parameter requirement is not registered under the modifier's name: modifiers of the same name no longer share one parameter", expected="thismod['name']", found=kt, node=cc)


def _tags(v):
    out = []
    if isinstance(v, Poly):
        out += [a for a in v.atoms() if "@" in a]
    elif isinstance(v, (list, tuple)):
        for x in v:
            out += _tags(x)
    return out


def _access_fields(ctx, rid, reg):
    at = Poly.atom
    T, F_ = True, False
    channels = ["cz", "ca", "cm"]  # not sorted: the appliers follow pdfconfig.channels
    nb = {"cz": 1, "ca": 1, "cm": 2}
    samples = ["s1", "s2"]
    # global bins: cz:0 | ca:0 | cm:0,1
    masks = {
        "mZ": {"s1": [F_, F_, F_, F_], "s2": [T, F_, T, T]},  # non-contiguous, carried by the last sample only
        "mA": {"s1": [F_, T, F_, F_], "s2": [F_, T, F_, F_]},
    }
    sel = {"mZ": ["Z0", "Z1", "Z2"], "mA": ["A0"]}
    want_mask = {"mZ": ["Z0", "0", "Z1", "Z2"], "mA": ["0", "A0", "0", "0"]}
    # shapefactor shares the parameter of per-channel bin j between channels: index by position inside the channel
    sel_sf = {"mZ": ["Z0", "Z1"], "mA": ["A0"]}
    want_sf = {"mZ": ["Z0", "Z0", "Z0", "Z1"], "mA": ["A0", "A0", "A0", "0"]}
    for key in ("staterror", "shapesys", "shapefactor"):
        if key not in reg:
            ctx.unrecognised(rid, None, key, "bin-wise modifier missing from the registry")
            continue
        b, c = reg[key]
        init = c.methods["__init__"]
        mods = [("mZ", key), ("mA", key)]
        the_sel, want = (sel_sf, want_sf) if key == "shapefactor" else (sel, want_mask)
        for bs in (None, 2):
            rows = bs or 1
            bd = {f"{key}/{m}": {s_: {"data": {"mask": list(masks[m][s_]), "nom_data": [at(f"n@{m}@{s_}@{j}") for j in range(4)], "uncrt": [at(f"u@{m}@{s_}@{j}") for j in range(4)]}} for s_ in samples} for m, _ in mods}
            seen = {}

            def pv(a, k, seen=seen, rows=rows, the_sel=the_sel):
                seen["names"] = list(a[2])
                return Obj("PV", {"index_selection": [[[at(x) for x in the_sel[n]] for _ in range(rows)] for n in a[2]], "indices_concatenated": at("IDX")})

            ext = listnp.externals()
            ext.update({"ParamViewer": pv, "_precompute": lambda a, k: None, "subscribe": lambda a, k: PyFunc(lambda a2, k2: None, "subscriber")})
            cfg = Obj("pdfconfig", {"samples": list(samples), "channels": list(channels), "channel_nbins": {c_: Poly.const(n) for c_, n in nb.items()}, "npars": Poly.const(6), "par_map": Obj("PARMAP")})
            attrs = {}
            env = {"modifiers": list(mods), "pdfconfig": cfg, "builder_data": bd, "batch_size": None if bs is None else Poly.const(bs), "pyhf": Obj("pyhf", {"default_backend": Obj("default_backend")}), "events": Obj("events")}
            site = f"{c.relpath}::{c.name}.__init__ [interpreted, batch_size={bs}]"
            try:
                Interp(env, attrs, {}, methods={n: m.node for n, m in c.methods.items()}, cls_name=c.name, externals=ext).run(A.strip_docstring(init.node.body))
                acc = attrs.get("_access_field")
                got = [[[str(to_poly(x)) for x in row] for row in mod] for mod in acc]
                exp = [[list(want[m]) for _ in range(rows)] for m in seen.get("names", [])]
                if seen.get("names") == ["mZ", "mA"] and got == exp:
                    ctx.holds(rid, site, f"access field {got[0][0]} / {got[1][0]} x {rows} row(s)")
                else:
                    ctx.violated(rid, init, f"{c.name} access field [batch_size={bs}]", "the access field does not send each bin a bin-wise modifier acts on to that modifier's own parameter for the bin" + (" (position of the bin inside its channel)" if key == "shapefactor" else " (k-th masked bin -> k-th parameter; the modifier's bins need not be contiguous)"), expected=str(exp), found=str(got))
            except FragmentFault as e:
                ctx.violated(rid, init, f"{c.name}.__init__ [batch_size={bs}]", f"on a well-formed configuration the code indexes outside its own tensors: {e}")
            except (Undecided, KeyError, TypeError, ValueError, IndexError, AttributeError) as e:
                ctx.unrecognised(rid, init, f"{c.name}.__init__ [batch_size={bs}]", f"not interpretable: {type(e).__name__}: {e}")


def _apply_end_to_end(ctx, rid, reg):
    repo = ctx.repo
    at, c = Poly.atom, Poly.const
    T, F_ = True, False
    samples, channels, nb = ["s1", "s2"], ["cz", "ca", "cm"], {"cz": 1, "ca": 1, "cm": 2}
    chan_pos = [0, 0, 0, 1]  # position of each global bin inside its channel
    masks_all = {
        "mZ": {"s1": [F_, F_, F_, F_], "s2": [T, F_, T, T]},
        "mA": {"s1": [F_, T, F_, F_], "s2": [F_, T, F_, F_]},
    }

    def sl(s_, e_):
        return Obj("slice", {"start": c(s_), "stop": c(e_)})

    for key in ("normfactor", "lumi", "staterror", "shapesys", "shapefactor"):
        if key not in reg:
            ctx.unrecognised(rid, None, key, "applier missing from the registry")
            continue
        b, cl = reg[key]
        mods = ["mZ"] if key == "lumi" else ["mZ", "mA"]  # the schema admits a single luminosity parameter
        masks = {m: masks_all[m] for m in mods}
        union = {m: [any(masks[m][s_][j] for s_ in samples) for j in range(4)] for m in mods}
        if key in ("staterror", "shapesys"):
            ncomp = {m: sum(union[m]) for m in mods}
            comp = {m: [sum(union[m][:j]) if union[m][j] else None for j in range(4)] for m in mods}
        elif key == "shapefactor":
            ncomp = {m: max(chan_pos[j] for j in range(4) if union[m][j]) + 1 for m in mods}
            comp = {m: [chan_pos[j] for j in range(4)] for m in mods}
        else:
            ncomp = {m: 1 for m in mods}
            comp = {m: [0] * 4 for m in mods}
        # two parameter layouts: two unrelated parameters first and the modifiers after them in REVERSE listing order; and the
        # modifiers' parameters at the very START of the vector (parameter index 0 is a real parameter of the modifier)
        for layout in ("unrelated parameters first", "modifier parameters from index 0"):
            start, pm = {}, {}
            off = 2 if layout == "unrelated parameters first" else 0
            if off:
                pm["other"] = {"slice": sl(0, 2)}
            for m in reversed(mods):
                start[m] = off
                pm[m] = {"slice": sl(off, off + ncomp[m])}
                off += ncomp[m]
            if "other" not in pm:
                pm["other"] = {"slice": sl(off, off + 2)}
                off += 2
            npars = off
            for bs in (None, 2):
                rows = bs or 1
                site = f"{cl.relpath}::{cl.name} end to end [batch_size={bs}, {layout}]"
                try:
                    w = viewers.world(repo)
                    w.add_class(cl)
                    bd = {f"{key}/{m}": {s_: {"data": {"mask": list(masks[m][s_]), "nom_data": [at(f"n{j}") for j in range(4)], "uncrt": [at(f"u{j}") for j in range(4)]}} for s_ in samples} for m in mods}
                    cfg = Obj("pdfconfig", {"samples": list(samples), "channels": list(channels), "channel_nbins": {k_: c(v_) for k_, v_ in nb.items()}, "npars": c(npars), "par_map": pm, "par_order": list(pm)})
                    _config_methods(w, cfg, pm)
                    inst = w.new(cl, [[(m, key) for m in mods], cfg, bd], {"batch_size": None if bs is None else c(bs)})
                    pars = [at(f"p{j}") for j in range(npars)] if bs is None else [[at(f"p{r}_{j}") for j in range(npars)] for r in range(rows)]
                    out = w.call_method(inst, "apply", [pars])
                    got = [[[[str(to_poly(x)) for x in row] for row in smp] for smp in mod] for mod in out]
                    pname = (lambda r, j: f"p{j}") if bs is None else (lambda r, j: f"p{r}_{j}")
                    want = [[[[pname(r, start[m] + comp[m][j]) if masks[m][s_][j] else "1" for j in range(4)] for r in range(rows)] for s_ in samples] for m in mods]
                    if got == want:
                        ctx.holds(rid, site, f"{len(mods)} x 2 x {rows} x 4 cells: own parameter where declared, 1 elsewhere")
                    else:
                        bad = next(((mi, si, r, j) for mi in range(len(want)) for si in range(2) for r in range(rows) for j in range(4) if mi >= len(got) or si >= len(got[mi]) or r >= len(got[mi][si]) or j >= len(got[mi][si][r]) or got[mi][si][r][j] != want[mi][si][r][j]), None)
                        mi, si, r, j = bad
                        try:
                            g_ = got[mi][si][r][j]
                        except IndexError:
                            g_ = "<missing>"
                        ctx.violated(rid, cl.methods["apply"], f"{cl.name} factor [batch_size={bs}]", f"the factor of modifier {mods[mi]} on sample {samples[si]}, batch row {r}, global bin {j} is {g_}; the rate formula wants {want[mi][si][r][j]} (own parameter component where the sample declares the modifier, 1 elsewhere)", expected=str(want), found=str(got))
                except FragmentFault as e:
                    ctx.violated(rid, cl, f"{cl.name} end to end [batch_size={bs}]", f"on a well-formed configuration the code indexes outside its own tensors: {e}")
                except (Undecided, KeyError, TypeError, ValueError, IndexError, AttributeError) as e:
                    ctx.unrecognised(rid, cl, f"{cl.name} end to end [batch_size={bs}]", f"not interpretable: {type(e).__name__}: {e}")


def _build_end_to_end(ctx, rid, reg):
    repo = ctx.repo
    at, c = Poly.atom, Poly.const
    f = repo.func(PDF, "_nominal_and_modifiers_from_spec")
    nbc = repo.cls(PDF, "_nominal_builder")
    ctx.touch(f)
    for m_ in nbc.methods.values():
        ctx.touch(m_)
    nbins = {"cz": 1, "ca": 1, "cm": 2}
    order_c, order_s = ["ca", "cm", "cz"], ["s1", "s2"]

    def mod(name, typ, data=None):
        return {"name": name, "type": typ, "data": data}

    spec = {"channels": [
        {"name": "cz", "samples": [{"name": "s2", "data": [at("z_s2_0")], "modifiers": [mod("mu", "normfactor"), mod("st", "staterror", [at("ust_z0")]), mod("ns", "normsys", {"hi": at("HI3"), "lo": at("LO3")})]}]},  # s2 carries `ns` in a SECOND channel with other factors
        {"name": "ca", "samples": [
            {"name": "s1", "data": [at("a_s1_0")], "modifiers": [mod("ns", "normsys", {"hi": at("HI"), "lo": at("LO")}), mod("mu", "normfactor"), mod("hs", "histosys", {"hi_data": [at("ah0")], "lo_data": [at("al0")]})]},  # s1 carries `hs` in two channels
            {"name": "s2", "data": [at("a_s2_0")], "modifiers": [mod("ss", "shapesys", [at("uss_a0")])]}]},
        {"name": "cm", "samples": [
            {"name": "s1", "data": [at("m_s1_0"), at("m_s1_1")], "modifiers": [mod("hs", "histosys", {"hi_data": [at("h0"), at("h1")], "lo_data": [at("l0"), at("l1")]}), mod("lumi", "lumi")]},
            {"name": "s2", "data": [at("m_s2_0"), at("m_s2_1")], "modifiers": [mod("st", "staterror", [at("ust_m0"), at("ust_m1")]), mod("sf", "shapefactor"), mod("ns", "normsys", {"hi": at("HI2"), "lo": c(1)})]}]},  # a ONE-SIDED variation (lo exactly 1): declared all the same
    ]}
    mods = sorted({(m["name"], m["type"]) for ch in spec["channels"] for sm in ch["samples"] for m in sm["modifiers"]})
    rec = {"appliers": {}}
    ext = listnp.externals()
    ext.update({
        "subscribe": lambda a, k: PyFunc(lambda a2, k2: None, "subscriber"), "get_backend": (lambda tl_: (lambda a, k: (tl_, None)))(_tensorlib_obj()),
        "required_parset": lambda a, k: {"required": True},
        **param_stubs(repo, rec),
    })
    w = World(ext, region=AutoRegion(), module_env={"pyhf": Obj("pyhf", {"default_backend": Obj("default_backend")}), "events": Obj("events"), "exceptions": Obj("exceptions")})
    w.add_class(nbc)
    mset = {}
    for key, (b, cl) in sorted(reg.items()):
        w.add_class(b)
        mset[key] = (PyFunc(lambda a, k, b=b: w.new(b, a, k), b.name), PyFunc(lambda a, k, key=key: (rec["appliers"].__setitem__(key, (a, k)) or Obj(f"applier_{key}")), cl.name))
    # ONE settings object given to both models of this process (a caller describing two models with the same non-default codes)
    settings = {"normsys": {"interpcode": "code1"}, "histosys": {"interpcode": "code0"}}
    settings_before = {k_: dict(v_) for k_, v_ in settings.items()}
    cfg = Obj("config", {"channels": list(order_c), "samples": list(order_s), "channel_nbins": {k_: c(v_) for k_, v_ in nbins.items()}, "modifiers": list(mods), "modifier_settings": settings, **config_recorders(rec)})
    site = f"{PDF}::_nominal_and_modifiers_from_spec [interpreted]"
    # HISTORY: another model is built first in the same process -- same channel, sample and modifier NAMES, other bin counts,
    # other data, other placement of the modifiers; nothing of it may show in the model under test
    warm = {"channels": [
        {"name": "cm", "samples": [{"name": "s1", "data": [at("w_m_s1_0")], "modifiers": [mod("hs", "histosys", {"hi_data": [at("wh0")], "lo_data": [at("wl0")]}), mod("st", "staterror", [at("w_ust_m0")])]}]},
        {"name": "ca", "samples": [
            {"name": "s2", "data": [at("w_a_s2_0"), at("w_a_s2_1"), at("w_a_s2_2")], "modifiers": [mod("ns", "normsys", {"hi": at("WHI"), "lo": at("WLO")}), mod("ss", "shapesys", [at("wu0"), at("wu1"), at("wu2")]), mod("sf", "shapefactor"), mod("mu", "normfactor"), mod("lumi", "lumi")]},
            {"name": "s1", "data": [at("w_a_s1_0"), at("w_a_s1_1"), at("w_a_s1_2")], "modifiers": [mod("mu", "normfactor")]}]},
    ]}
    warm_mods = sorted({(m["name"], m["type"]) for ch in warm["channels"] for sm in ch["samples"] for m in sm["modifiers"]})
    warm_cfg = Obj("config", {"channels": ["ca", "cm"], "samples": ["s1", "s2"], "channel_nbins": {"ca": c(3), "cm": c(1)}, "modifiers": list(warm_mods), "modifier_settings": settings})
    try:
        w.call_func(f, [], build_args(f, mset, warm_cfg, warm, Obj("WARM_BATCH")))
    except (FragmentFault, Undecided, KeyError, TypeError, ValueError, IndexError, AttributeError) as e:
        ctx.unrecognised(rid, f, "_nominal_and_modifiers_from_spec (first model of the process)", f"not interpretable: {type(e).__name__}: {e}")
        return
    rec["appliers"].clear()
    rec.pop("finalize_args", None)
    try:
        out = w.call_func(f, [], build_args(f, mset, cfg, spec, Obj("BATCH")))
    except FragmentFault as e:
        ctx.violated(rid, f, "_nominal_and_modifiers_from_spec", f"on a well-formed configuration the code indexes outside its own tensors: {e}")
    except (Undecided, KeyError, TypeError, ValueError, IndexError, AttributeError) as e:
        ctx.unrecognised(rid, f, "_nominal_and_modifiers_from_spec", f"not interpretable: {type(e).__name__}: {e}")
        return

    def s_(v):
        if isinstance(v, (list, tuple)):
            return [s_(x) for x in v]
        if isinstance(v, bool):
            return v
        return str(to_poly(v))

    def cell(ch, sm):
        for c_ in spec["channels"]:
            if c_["name"] == ch:
                for x in c_["samples"]:
                    if x["name"] == sm:
                        return x
        return None

    def declared(ch, sm, name, typ):
        x = cell(ch, sm)
        return next((m for m in (x["modifiers"] if x else []) if m["name"] == name and m["type"] == typ), None)

    def nominal(ch, sm):
        x = cell(ch, sm)
        return s_(x["data"]) if x else ["0"] * nbins[ch]

    # nominal rates
    want_nom = [[[[v for ch in order_c for v in nominal(ch, sm)]] for sm in order_s]]
    got_nom = s_(out[1]) if isinstance(out, (tuple, list)) and len(out) == 2 else None
    if got_nom == want_nom:
        ctx.holds(rid, f"{site} nominal rates", f"(1, {len(order_s)}, 1, 4) in config order, zeros where a sample is absent")
    else:
        ctx.violated(rid, nbc.methods["finalize"], "nominal rates", "the nominal rate tensor is not (1, samples, 1, bins) with channels in the order the configuration reports and zeros where a sample is absent from a channel", expected=str(want_nom), found=str(got_nom))
    # per type
    for key, (b, cl) in sorted(reg.items()):
        a_k = rec["appliers"].get(key)
        if a_k is None:
            ctx.violated(rid, f, f"applier {key}", f"no {key} applier is constructed")
            continue
        a, k = a_k
        mine = [x for x in mods if x[1] == key]
        ok_args = [tuple(x) for x in (k.get("modifiers") or [])] == mine and k.get("pdfconfig") is cfg and getattr(k.get("batch_size"), "name", None) == "BATCH" and k.get("interpcode") == settings_before.get(key, {}).get("interpcode")
        bd = k.get("builder_data") or {}
        if not ok_args:
            ctx.violated(rid, f, f"applier arguments [{key}]", "the applier is not constructed from (its own type's modifiers in config order, the configuration, THIS build's batch size and the interpolation code of THIS build's settings -- two models are built in one process from one settings object)", expected=f"modifiers={mine}", found=f"modifiers={k.get('modifiers')} batch_size={k.get('batch_size')}")
        problems = []
        for name, typ in mine:
            per_sample = bd.get(f"{typ}/{name}")
            if per_sample is None:
                problems.append(f"no builder data for {typ}/{name}")
                continue
            for sm in order_s:
                d = (per_sample.get(sm) or {}).get("data") or {}
                want = {"mask": [bool(declared(ch, sm, name, typ)) for ch in order_c for _ in range(nbins[ch])]}
                if typ == "histosys":
                    for fld in ("hi_data", "lo_data"):
                        want[fld] = [v for ch in order_c for v in (s_(declared(ch, sm, name, typ)["data"][fld]) if declared(ch, sm, name, typ) else nominal(ch, sm))]
                    want["nom_data"] = [v for ch in order_c for v in nominal(ch, sm)]
                elif typ == "normsys":
                    for fld in ("hi", "lo"):
                        want[fld] = [v for ch in order_c for v in ([s_(declared(ch, sm, name, typ)["data"][fld])] * nbins[ch] if declared(ch, sm, name, typ) else ["1"] * nbins[ch])]
                elif typ in ("shapesys", "staterror"):
                    want["uncrt"] = [v for ch in order_c for v in (s_(declared(ch, sm, name, typ)["data"]) if declared(ch, sm, name, typ) else ["0"] * nbins[ch])]
                    want["nom_data"] = [v for ch in order_c for v in nominal(ch, sm)]
                for fld, wv in want.items():
                    gv = s_(d.get(fld)) if fld in d else None
                    if gv != wv:
                        problems.append(f"{typ}/{name} sample {sm} field {fld}: {gv}, expected {wv}")
        if problems:
            ctx.violated(rid, b.methods.get("append") or b, f"builder data [{key}]", "the builder tensors do not follow config.channels x config.samples with a cell masked in exactly where the sample declares the modifier and neutral data elsewhere: " + problems[0], expected="see message", found=f"{len(problems)} field(s) differ")
        elif ok_args:
            ctx.holds(rid, f"{site} {key}", f"{len(mine)} modifier(s) x {len(order_s)} samples x 4 bins: masks and data as declared; applier arguments in their roles")
    if settings != settings_before:
        ctx.violated(rid, f, "the caller's modifier_settings object", "building a model rewrites the settings object the caller passed (an entry removed or added): the next model described with the same object is built with other interpolation codes / another batch size than its caller asked for", expected=str(settings_before), found=str(settings))
    else:
        ctx.holds(rid, f"{site} modifier settings", "the caller's settings object is unchanged after two builds; each applier got this build's interpolation code and batch size")
    fr = rec.get("finalize_reqs")
    names = sorted({n for n, _ in mods})
    if isinstance(fr, dict) and sorted(fr) == names:
        ctx.holds(rid, f"{site} parameter requirements", f"one requirement list per parameter name {names}")
    else:
        ctx.violated(rid, f, "parameter requirements", "the parameter requirements handed on are not keyed by exactly the declared modifier names", expected=str(names), found=str(sorted(fr) if isinstance(fr, dict) else rec.get("finalize_args")))
    marks = rec.get("param_marks") or {}
    sp, sa = rec.get("set_parameters"), rec.get("set_auxinfo")
    if sp is not None or sa is not None:
        got_p = (sp[0] + list(sp[1].values()))[:1] if sp else []
        bound = {}
        if sa:
            for nm_, v_ in list(zip(("auxdata", "auxdata_order"), sa[0])) + list(sa[1].items()):
                bound[nm_] = v_
        if got_p and got_p[0] is marks.get("sets") and bound.get("auxdata") is marks.get("aux") and bound.get("auxdata_order") is marks.get("order"):
            ctx.holds(rid, f"{site} parameter sets and auxiliary data", "what _create_parameters_from_spec returns reaches config.set_parameters / set_auxinfo(auxdata, auxdata_order) in its own role")
        else:
            ctx.violated(rid, f, "config.set_auxinfo(...)", "the parameter sets, the auxiliary data and their order returned by _create_parameters_from_spec do not reach the configuration in their own roles (unpacked in another order than they are returned): the constraint terms read another parameter's auxiliary data", expected="set_parameters(<sets>); set_auxinfo(<auxiliary data>, <order>)", found=f"set_parameters{[getattr(x, 'name', x) for x in got_p]}, set_auxinfo({ {k_: [str(y) for y in v_] if isinstance(v_, list) else v_ for k_, v_ in bound.items()} })")


def _apply_interpolating(ctx, rid, reg):
    """normsys / histosys end to end: constructor (real ParamViewer and real interpolator), _precompute, apply."""
    from fractions import Fraction as F_
    from ..alg import same_value
    from .c03 import pairs, slow_kernel
    repo = ctx.repo
    at, c = Poly.atom, Poly.const
    T, Fl = True, False
    prs = {str(k): (f, s_) for k, f, s_, _ in pairs(repo)}
    samples = ["s1", "s2"]
    masks = {"mZ": {"s1": [Fl, Fl, Fl, Fl], "s2": [T, Fl, T, T]}, "mA": {"s1": [Fl, T, Fl, Fl], "s2": [Fl, T, Fl, Fl]}}

    def sl(a_, b_):
        return Obj("slice", {"start": c(a_), "stop": c(b_)})

    start = {"mA": 2, "mZ": 3}
    pm = {"other": {"slice": sl(0, 2)}, "mA": {"slice": sl(2, 3)}, "mZ": {"slice": sl(3, 4)}}
    for key, neutral in (("normsys", "1"), ("histosys", "0")):
        if key not in reg:
            ctx.unrecognised(rid, None, key, "applier missing from the registry")
            continue
        b, cl = reg[key]
        init = cl.methods["__init__"]
        codes = []
        for n in ast.walk(init.node):
            if isinstance(n, ast.Assert) and isinstance(n.test, ast.Compare) and isinstance(n.test.comparators[0], (ast.List, ast.Tuple)):
                codes = [A.const_value(x) for x in n.test.comparators[0].elts]
        if not codes:
            ctx.unrecognised(rid, init, f"{cl.name} accepted codes", "no `assert self.interpcode in [...]` found")
            continue
        for code in codes:
            pr = prs.get(code.replace("code", ""))
            if pr is None:
                ctx.unrecognised(rid, init, f"{cl.name} [{code}]", "accepted interpolation code is not in interpolators.get")
                continue
            fast, slow = pr
            km = slow_kernel(slow)
            for bs in (None, 2):
                rows = bs or 1
                site = f"{cl.relpath}::{cl.name} end to end [{code}, batch_size={bs}]"
                region = AutoRegion()
                try:
                    w = viewers.world(repo)
                    w.region = region
                    w.add_class(cl).add_class(slow)
                    iattrs = {}
                    for k2, (f2, _s2) in prs.items():
                        w.add_class(f2)
                        iattrs[f2.name] = PyFunc(lambda a_, kw_, f2=f2: w.new(f2, a_, kw_), f2.name)
                    w.module_env["interpolators"] = Obj("interpolators", iattrs)
                    w.module_env["math"] = Obj("math")

                    def data(m, s_):
                        d = {"mask": list(masks[m][s_]), "nom_data": [at(f"n_{m}_{s_}_{j}") for j in range(4)]}
                        if key == "normsys":
                            d["lo"], d["hi"], d["nom_data"] = [at(f"lo_{m}_{s_}")] * 4, [at(f"hi_{m}_{s_}")] * 4, [c(1)] * 4
                        else:
                            d["lo_data"], d["hi_data"] = [at(f"lo_{m}_{s_}_{j}") for j in range(4)], [at(f"hi_{m}_{s_}_{j}") for j in range(4)]
                        return d

                    bd = {f"{key}/{m}": {s_: {"data": data(m, s_)} for s_ in samples} for m in ("mZ", "mA")}
                    cfg = Obj("pdfconfig", {"samples": list(samples), "channels": ["c"], "channel_nbins": {"c": c(4)}, "npars": c(4), "par_map": pm, "par_order": ["other", "mA", "mZ"]})
                    _config_methods(w, cfg, pm)
                    inst = w.new(cl, [[("mZ", key), ("mA", key)], cfg, bd], {"interpcode": code, "batch_size": None if bs is None else c(bs)})
                    pname = (lambda r, j: f"p{j}") if bs is None else (lambda r, j: f"p{r}_{j}")
                    vals = {(0, 2): F_(1, 2), (0, 3): F_(-3, 2), (1, 2): F_(-5, 2), (1, 3): F_(2)}
                    for (r, j), v in vals.items():
                        if r < rows:
                            region[pname(r, j)] = v
                    pinned = {k_: v_ for k_, v_ in region.items() if k_.startswith("p")}
                    pars = [at(pname(0, j)) for j in range(4)] if bs is None else [[at(pname(r, j)) for j in range(4)] for r in range(rows)]
                    out = w.call_method(inst, "apply", [listnp.wrap(pars)])
                    ref = w.new(slow, [[]], {})
                    bad = None
                    for mi, m in enumerate(("mZ", "mA")):
                        for si, s_ in enumerate(samples):
                            for r in range(rows):
                                for j in range(4):
                                    got = out[mi][si][r][j]
                                    if masks[m][s_][j]:
                                        d = bd[f"{key}/{m}"][s_]["data"]
                                        lo_, nom_, hi_ = (d["lo"][j], d["nom_data"][j], d["hi"][j]) if key == "normsys" else (d["lo_data"][j], d["nom_data"][j], d["hi_data"][j])
                                        want = w.call_method(ref, km.node.name, [lo_, nom_, hi_, at(pname(r, start[m]))])
                                    else:
                                        want = Poly.const(int(neutral))
                                    if same_value(got, want, pinned=pinned) is not True and bad is None:
                                        bad = (m, s_, r, j, str(to_poly(got))[:140], str(to_poly(want))[:140])
                    if listnp._shape(out) != (2, 2, rows, 4):
                        ctx.violated(rid, cl.methods["apply"], f"{cl.name} result shape [{code}, batch_size={bs}]", "the modification tensor is not (modifiers, samples, batch rows, bins)", expected=str((2, 2, rows, 4)), found=str(listnp._shape(out)))
                    elif bad:
                        ctx.violated(rid, cl.methods["apply"], f"{cl.name} cell [{code}, batch_size={bs}]", f"the {'factor' if key == 'normsys' else 'shift'} of modifier {bad[0]} on sample {bad[1]}, batch row {bad[2]}, bin {bad[3]} is not the interpolation of that cell's own variations at the modifier's own parameter (neutral element {neutral} where the sample does not declare it)", expected=bad[5], found=bad[4])
                    else:
                        ctx.holds(rid, site, f"2 x 2 x {rows} x 4 cells: scalar reference of the cell's own data at the modifier's own parameter, {neutral} elsewhere")
                except FragmentFault as e:
                    ctx.violated(rid, cl, f"{cl.name} end to end [{code}, batch_size={bs}]", f"on a well-formed configuration the code indexes outside its own tensors: {e}")
                except (Undecided, KeyError, TypeError, ValueError, IndexError, AttributeError) as e:
                    ctx.unrecognised(rid, cl, f"{cl.name} end to end [{code}, batch_size={bs}]", f"not interpretable: {type(e).__name__}: {e}")


def _rate_end_to_end(ctx, rid):
    import itertools as _it
    from ..alg import NotHandled
    repo = ctx.repo
    mm = repo.cls(PDF, "_MainModel")
    at, c = Poly.atom, Poly.const
    nS, nB = 2, 3
    appliers = {"fa": ("multiplication", 2), "fb": ("multiplication", 2), "da": ("addition", 1), "none": ("multiplication", 0)}
    for bs, clipS, clipB, by_sample in _it.product((None, 2), (None, "CS"), (None, "CB"), (False, True)):
        if by_sample and clipB:
            continue
        rows = bs or 1
        lab = f"batch_size={bs} clip_sample={clipS} clip_bin={clipB} by_sample={by_sample}"

        tags0 = ["p0"] if bs is None else ["p0", "p1"]

        def cell(k, m, s_, r, b_, tags=None):
            # every applier cell depends on the parameter row it was computed from (the row's first parameter names it)
            return at(f"{k}{m}_s{s_}_r{r}_b{b_}@{(tags or tags0)[r]}")

        def apply(recv, a, k):
            if not (isinstance(recv, Obj) and recv.name in appliers):
                raise NotHandled()
            n = appliers[recv.name][1]
            if n == 0:
                return None
            pars_ = a[0]
            tags = [str(to_poly(pars_[0]))] if bs is None else [str(to_poly(row_[0])) for row_ in pars_]
            return listnp.T([[[[cell(recv.name, m, s_, r, b_, tags) for b_ in range(nB)] for r in range(rows)] for s_ in range(nS)] for m in range(n)])

        try:
            w = viewers.world(repo, {".apply": apply})
            w.module_env["log"] = Obj("log")
            w.module_env["prob"] = Obj("prob", {"Poisson": PyFunc(lambda a, k: Obj("Poisson", {"rate": a[0]}, closed=True), "Poisson"), "Independent": PyFunc(lambda a, k: Obj("Independent", {"pdf": a[0]}, closed=True), "Independent")}, closed=True)
            w.add_class(mm)
            mods = {k: Obj(k, {"op_code": op, "name": k}) for k, (op, n) in appliers.items()}
            nominal = listnp.T([[[[at(f"nom_s{s_}_b{b_}") for b_ in range(nB)]] for s_ in range(nS)]])
            # the main model is reached the way users reach it: through Model.__init__ (configuration, builder pipeline
            # and constraint model are stand-ins; the clipping options travel through the real constructor wiring)
            mdl = repo.cls(PDF, "Model")
            w.add_class(mdl)
            cfg_obj = Obj("config", {"nmaindata": c(nS * nB), "nauxdata": c(0)})
            cm_obj = Obj("constraint_model")
            w.base.update({
                "_ModelConfig": lambda a, k: cfg_obj,
                "_nominal_and_modifiers_from_spec": lambda a, k: (mods, nominal),
                "_ConstraintModel": lambda a, k: cm_obj,
                "_tensorviewer_from_sizes": lambda a, k: Obj("fullpdf_tv"),
                ".has_pdf": lambda recv, a, k: False if recv is cm_obj else _not_handled(),
            })
            w.ext = None
            w.module_env.update({"histfactory_set": Obj("histfactory_set"), "schema": Obj("schema")})
            model = w.new(mdl, [{"channels": []}], {"batch_size": None if bs is None else c(bs), "validate": False, "clip_sample_data": None if clipS is None else at(clipS), "clip_bin_data": None if clipB is None else at(clipB)})
            inst = model.attrs.get("main_model")
            if not isinstance(inst, Obj) or getattr(inst, "cls", None) is not mm:
                raise Undecided("Model.__init__ does not store a _MainModel as main_model")
            pars = listnp.T([at("p0")]) if bs is None else listnp.T([[at("p0")], [at("p1")]])
            out = w.call_method(inst, "expected_data", [pars], {"return_by_sample": by_sample})

            def by_s(s_, r, b_):
                v = Poly.const(1)
                for k in ("fa", "fb"):
                    for m in range(2):
                        v = v * cell(k, m, s_, r, b_)
                v = v * (at(f"nom_s{s_}_b{b_}") + cell("da", 0, s_, r, b_))
                return fn("max", v, at(clipS)) if clipS else v

            if by_sample:
                want = [[[by_s(s_, r, b_) for b_ in range(nB)] for s_ in range(nS)] for r in range(rows)]
            else:
                want = []
                for r in range(rows):
                    row = []
                    for b_ in range(nB):
                        v = by_s(0, r, b_) + by_s(1, r, b_)
                        row.append(fn("max", v, at(clipB)) if clipB else v)
                    want.append(row)
            if bs is None:
                want = want[0]
            g_, w_ = _strs(out), _strs(want)
            if g_ == w_ and not by_sample and "make_pdf" in mm.methods:
                # HISTORY: the main pdf built twice from ONE parameter buffer whose content was replaced in place in between
                first_pdf = w.call_method(inst, "make_pdf", [pars])
                if bs is None:
                    pars[0] = at("p0_new")
                else:
                    pars[0][0], pars[1][0] = at("p0_new"), at("p1_new")
                rate_now = _strs(w.call_method(inst, "expected_data", [pars], {"return_by_sample": False}))
                second_pdf = w.call_method(inst, "make_pdf", [pars])
                rate_of = lambda pdf_: _strs(pdf_.attrs["pdf"].attrs["rate"]) if isinstance(pdf_, Obj) and isinstance(pdf_.attrs.get("pdf"), Obj) else None
                if rate_of(first_pdf) != w_ or rate_of(second_pdf) != rate_now:
                    ctx.violated(rid, mm.methods["make_pdf"], f"main pdf [{lab}]", "the Poisson pdf of the main model is not built from the expected rates at the parameters it is given NOW: a second make_pdf with the same parameter buffer, refilled in place, hands out the pdf of the earlier content (logpdf, mainlogpdf and expected data then belong to the previous point)", expected=str(rate_now)[:160], found=str(rate_of(second_pdf))[:160])
                    continue
            if g_ == w_:
                ctx.holds(rid, f"{PDF}::_MainModel.expected_data [{lab}]", f"shape {listnp._shape(out)}; rate formula cell by cell")
            else:
                ctx.violated(rid, mm.methods["expected_data"], f"expected rates [{lab}]", "the expected rates are not sum over samples of (product of all multiplicative cells) x (nominal + sum of all additive cells) with the requested clipping, bin by bin and row by row", expected=str(w_)[:600], found=str(g_)[:600])
        except FragmentFault as e:
            ctx.violated(rid, mm, f"_MainModel [{lab}]", f"on a well-formed configuration the code indexes outside its own tensors: {e}")
        except (Undecided, KeyError, TypeError, ValueError, IndexError, AttributeError) as e:
            ctx.unrecognised(rid, mm, f"_MainModel [{lab}]", f"not interpretable: {type(e).__name__}: {e}")


def _not_handled():
    from ..alg import NotHandled
    raise NotHandled()


def _strs(v):
    if isinstance(v, (list, tuple)):
        return [_strs(x) for x in v]
    return str(to_poly(v))


def _config_methods(w, cfg, pm):
    """The configuration object's accessors appliers may use (par_slice, param_set) answered from the symbolic par_map."""
    from ..alg import NotHandled

    def par_slice(recv, a, k):
        if recv is not cfg:
            raise NotHandled()
        return pm[a[0]]["slice"]

    def param_set(recv, a, k):
        if recv is not cfg:
            raise NotHandled()
        return pm[a[0]].get("paramset", Obj(f"paramset_{a[0]}"))

    w.base[".par_slice"] = par_slice
    w.base[".param_set"] = param_set
    w.ext = None


def build_args(f, modifier_set, config, spec, batch_size):
    """keyword actuals for _nominal_and_modifiers_from_spec by parameter NAME (the order of a private function's parameters is
    whatever its definition and its one call site say today); positional in the pinned order if the names are gone too"""
    names = [a.arg for a in f.node.args.args]
    vals = {"modifier_set": modifier_set, "config": config, "spec": spec, "batch_size": batch_size}
    if set(names) == set(vals):
        return dict(vals)
    return dict(zip(names, (modifier_set, config, spec, batch_size)))

def param_stubs(repo, rec):
    """Recorders for the two private helpers _nominal_and_modifiers_from_spec composes, bound the way the helpers are DEFINED
    today: the requirement table is whichever argument is the name-keyed dict, and the stand-in for
    _create_parameters_from_spec returns (parameter sets, auxiliary data, their order) in the order the real function returns
    them (found by interpreting it once on three sets, a and c constrained) -- a signature changed at the definition and at
    every call site alike is the same program."""
    order = ["sets", "aux", "order"]
    try:
        cps = repo.func(PDF, "_create_parameters_from_spec")
        ctor = lambda nm, con: PyFunc(lambda a, k: Obj(f"ps_{nm}", {"constrained": con, "auxdata": [Poly.atom(f"AUX_{nm}")]}), f"ctor_{nm}")
        pm = Obj("pyhf.parameters", {"T_a": ctor("a", True), "T_b": ctor("b", False), "T_c": ctor("c", True)})
        reqs = {n: {"paramset_type": f"T_{n}"} for n in "abc"}
        prm = [a_.arg for a_ in cps.node.args.args]
        out = Interp({prm[0] if prm else "_reqs": reqs, "pyhf": Obj("pyhf", {"parameters": pm})}, {}, {}).run(A.strip_docstring(cps.node.body))
        roles = []
        for x in out:
            roles.append("sets" if isinstance(x, dict) else ("order" if isinstance(x, (list, tuple)) and all(isinstance(y, str) for y in x) and x else "aux"))
        if sorted(roles) == sorted(order):
            order = roles
    except Exception:  # the composition check below then uses today's order; the function itself is judged by C02.R1
        pass
    marks = {"sets": Obj("paramobjs"), "aux": [Poly.atom("AUXDATA_MARK")], "order": ["ORDER_MARK"]}
    rec["param_marks"] = marks

    def finalize(a, k):
        vals = list(a) + list(k.values())
        rec["finalize_args"] = vals
        rec["finalize_reqs"] = next((x for x in vals if isinstance(x, dict)), None)
        return {"REQ": True}

    return {"_finalize_parameters_specs": finalize, "_create_parameters_from_spec": lambda a, k: tuple(marks[r_] for r_ in order)}


def config_recorders(rec):
    """set_parameters / set_auxinfo of the configuration stand-in: what the pipeline stores there"""
    return {"set_parameters": PyFunc(lambda a, k: rec.__setitem__("set_parameters", (list(a), dict(k))), "set_parameters"),
            "set_auxinfo": PyFunc(lambda a, k: rec.__setitem__("set_auxinfo", (list(a), dict(k))), "set_auxinfo")}


def pipeline_world(repo, reg, rec):
    """World in which _nominal_and_modifiers_from_spec runs with the real nominal builder and the real modifier
    builders; appliers, parameter finalisation and paramset creation are recorders."""
    nbc = repo.cls(PDF, "_nominal_builder")
    ext = listnp.externals()
    ext.update({
        "subscribe": lambda a, k: PyFunc(lambda a2, k2: None, "subscriber"), "get_backend": (lambda tl_: (lambda a, k: (tl_, None)))(_tensorlib_obj()),
        "required_parset": lambda a, k: {"required": True},
        **param_stubs(repo, rec),
    })
    w = World(ext, region=AutoRegion(), module_env={"pyhf": Obj("pyhf", {"default_backend": Obj("default_backend")}), "events": Obj("events"), "exceptions": Obj("exceptions")})
    w.add_class(nbc)
    mset = {}
    rec.setdefault("appliers", {})
    for key, (b, cl) in sorted(reg.items()):
        w.add_class(b)
        mset[key] = (PyFunc(lambda a, k, b=b: w.new(b, a, k), b.name), PyFunc(lambda a, k, key=key: (rec["appliers"].__setitem__(key, (a, k)) or Obj(f"applier_{key}")), cl.name))
    return w, mset


def _fresh_defaults(ctx, rid, repo):
    """Two default-constructed model configurations in one process share nothing a user can reach and alter."""
    from ..alg import Obj, Poly, RaisedInFragment, Undecided
    from ..objmodel import Instance, World
    mc = repo.cls(PDF, "_ModelConfig")
    mix = repo.cls("src/pyhf/mixins.py", "_ChannelSummaryMixin")
    init = mc.methods.get("__init__")
    if init is None:
        ctx.unrecognised(rid, mc, "_ModelConfig.__init__", "not found")
        return
    ctx.touch(init)
    at = Poly.atom

    def spec():
        return {"channels": [{"name": "SR", "samples": [{"name": "bkg", "data": [at("b0"), at("b1")], "modifiers": [{"name": "sys", "type": "normsys", "data": None}, {"name": "sys", "type": "histosys", "data": None}]}]}]}

    def poison(v, seen):
        if id(v) in seen:
            return
        seen.add(id(v))
        if isinstance(v, dict):
            for x in list(v.values()):
                poison(x, seen)
            for k in list(v):
                if isinstance(v[k], str):
                    v[k] = "<altered>"
            v["<altered>"] = "<altered>"
        elif isinstance(v, list):
            for x in v:
                poison(x, seen)
            v.append("<altered>")
        elif isinstance(v, set):
            v.add("<altered>")

    def containers(v, acc):
        if isinstance(v, (dict, list, set)) and id(v) not in acc:
            acc[id(v)] = v
            for x in (v.values() if isinstance(v, dict) else v):
                containers(x, acc)
        return acc

    def has_poison(v):
        if isinstance(v, str):
            return v == "<altered>"
        if isinstance(v, dict):
            return any(has_poison(k) or has_poison(x) for k, x in v.items())
        if isinstance(v, (list, tuple, set)):
            return any(has_poison(x) for x in v)
        return False

    want = {"normsys": {"interpcode": "code4"}, "histosys": {"interpcode": "code4p"}}
    try:
        w = World({"__strict__": True}, module_env={"log": Obj("log"), "exceptions": Obj("exceptions")})
        w.add_class(mix).add_class(mc)
        first = Instance(mc)
        w.call_method(first, "__init__", [spec()], {})
        s1 = first.attrs.get("modifier_settings")
        if s1 != want:
            ctx.violated(rid, init, "default modifier settings", "a configuration built without modifier_settings does not carry the documented default interpolation codes", expected=str(want), found=str(s1)[:200])
            return
        ctx.holds(rid, f"{PDF}::_ModelConfig.__init__ [first model, defaults]", str(want))
        owned = {}
        for v in first.attrs.values():
            containers(v, owned)
        seen = set()
        for v in list(first.attrs.values()):
            poison(v, seen)
        second = Instance(mc)
        w.call_method(second, "__init__", [spec()], {})
        s2 = second.attrs.get("modifier_settings")
        shared = [k for k, v in second.attrs.items() if any(id(x) in owned for x in containers(v, {}).values())]
        if s2 != want or has_poison(s2):
            ctx.violated(rid, init, "default modifier settings of a second model", "after the settings object of an earlier model was altered in place, a model built WITHOUT modifier_settings no longer uses the documented default interpolation codes: the default is one shared object handed out to every configuration", expected=str(want), found=str(s2)[:200])
        elif shared:
            ctx.violated(rid, init, f"second configuration shares `{shared[0]}` with the first", f"attribute `{shared[0]}` of a default-constructed configuration is (or contains) the very container the previous configuration holds: altering one model's configuration changes the other's", expected="containers created per configuration", found=f"shared: {shared}")
        else:
            ctx.holds(rid, f"{PDF}::_ModelConfig.__init__ [second model after the first one's containers were altered]", "defaults intact, no shared container")
        mine = {"normsys": {"interpcode": "code1"}, "histosys": {"interpcode": "code0"}}
        third = Instance(mc)
        w.call_method(third, "__init__", [spec()], {"modifier_settings": mine})
        if third.attrs.get("modifier_settings") == {"normsys": {"interpcode": "code1"}, "histosys": {"interpcode": "code0"}}:
            ctx.holds(rid, f"{PDF}::_ModelConfig.__init__ [explicit modifier_settings]", "arrive as given")
        else:
            ctx.violated(rid, init, "explicit modifier settings", "modifier_settings passed by the caller are not what the configuration reports", expected=str(mine), found=str(third.attrs.get("modifier_settings"))[:200])
    except RaisedInFragment as e:
        ctx.violated(rid, init, "_ModelConfig.__init__", f"raises {e.exc_name} on a well-formed specification")
    except (Undecided, KeyError, TypeError, ValueError, IndexError, AttributeError) as e:
        ctx.unrecognised(rid, init, "_ModelConfig.__init__", f"not interpretable: {type(e).__name__}: {e}")


def _model_point_history(ctx, rid):
    """Nothing the model remembers about a parameter point may be keyed on the parameter ARRAY's identity."""
    from ..alg import NotHandled, RaisedInFragment
    repo = ctx.repo
    mdl = repo.cls(PDF, "Model")
    for m_ in mdl.methods.values():
        ctx.touch(m_)
    at, c = Poly.atom, Poly.const
    errs = (Undecided, KeyError, TypeError, ValueError, IndexError, AttributeError)

    def snap(x):
        if isinstance(x, list):
            return ",".join(str(to_poly(v)) for v in x)
        return getattr(x, "name", str(x))

    try:
        ext = {"__strict__": True, "__elementwise__": True}
        w = World(ext, module_env={"log": Obj("log"), "exceptions": Obj("exceptions"), "histfactory_set": Obj("histfactory_set"), "schema": Obj("schema"), "copy": Obj("copy")})
        tl = _tensorlib_obj()
        cfg_obj = Obj("config", {"nmaindata": c(2), "nauxdata": c(1), "npars": c(2), "auxdata": [at("aux0")]})

        def part_make_pdf(recv, a, k):
            if isinstance(recv, Obj) and recv.name in ("MAIN_MODEL", "CONSTRAINT_MODEL"):
                return Obj(f"pdf_of_{recv.name}<{snap(a[0])}>", {"at": snap(a[0]), "part": recv.name}, closed=True)
            raise NotHandled()

        def simultaneous(a, k):
            return Obj("SIMULTANEOUS", {"parts": list(a[0])}, closed=True)

        def getitem(base, idx):
            if isinstance(base, Obj) and base.name == "SIMULTANEOUS":
                return base.attrs["parts"][int(to_poly(idx).const_value())]
            raise NotHandled()

        def expected_data(recv, a, k):
            if isinstance(recv, Obj) and recv.name == "SIMULTANEOUS":
                return Obj("EXPECTED<" + "|".join(p_.attrs["at"] for p_ in recv.attrs["parts"]) + ">", {}, closed=True)
            if isinstance(recv, Obj) and "at" in recv.attrs:
                return Obj(f"EXPECTED<{recv.attrs['at']}>", {}, closed=True)
            raise NotHandled()

        def log_prob(recv, a, k):
            if isinstance(recv, Obj) and recv.name == "SIMULTANEOUS":
                return Obj("LOGPROB<" + "|".join(p_.attrs["at"] for p_ in recv.attrs["parts"]) + f";{snap(a[0])}>", {"shape": (c(1),)}, closed=True)
            if isinstance(recv, Obj) and "at" in recv.attrs:
                return Obj(f"LOGPROB<{recv.attrs['at']};{snap(a[0])}>", {}, closed=True)
            raise NotHandled()

        main, cons = Obj("MAIN_MODEL", {"nominal_rates": Obj("nominal", {"shape": (c(1), c(1), c(1), c(2))})}), Obj("CONSTRAINT_MODEL")
        w.base.update({
            "_ModelConfig": lambda a, k: cfg_obj, "_nominal_and_modifiers_from_spec": lambda a, k: ({}, Obj("nominal")), "_MainModel": lambda a, k: main, "_ConstraintModel": lambda a, k: cons,
            "_tensorviewer_from_sizes": lambda a, k: Obj("fullpdf_tv"), ".has_pdf": lambda recv, a, k: True if recv in (main, cons) else _not_handled(),
            ".make_pdf": part_make_pdf, "Simultaneous": simultaneous, ".expected_data": expected_data, ".log_prob": log_prob,
            "get_backend": lambda a, k: (tl, None), "astensor": lambda a, k: a[0], "reshape": lambda a, k: a[0], ".tolist": lambda recv, a, k: recv if isinstance(recv, list) else _not_handled(),
        })
        w.module_env["prob"] = Obj("prob")
        w.add_class(mdl)
        model = w.new(mdl, [{"channels": []}], {"validate": False})
        world_getitem = w.externals()["__getitem__"]
        w.externals()["__getitem__"] = lambda b_, i_: getitem(b_, i_) if isinstance(b_, Obj) and b_.name == "SIMULTANEOUS" else world_getitem(b_, i_)
    except errs as e:
        ctx.unrecognised(rid, mdl, "Model over stand-in parts", f"not constructible: {type(e).__name__}: {e}")
        return
    from ..listnp import T as _T
    for mname, args_of in (("expected_actualdata", lambda buf: [buf]), ("expected_data", lambda buf: [buf]), ("mainlogpdf", lambda buf: [[at("m0"), at("m1")], buf]),
                           ("constraint_logpdf", lambda buf: [[at("a0")], buf]), ("logpdf", lambda buf: [buf, _T([at("m0"), at("m1"), at("a0")])])):
        if mname not in mdl.methods:
            continue
        site = f"{PDF}::Model.{mname} [same parameter buffer, new content]"
        try:
            buf = _T([at("q0"), at("q1")])
            first = w.call_method(model, mname, args_of(buf))
            buf[:] = [at("r0"), at("r1")]
            second = w.call_method(model, mname, args_of(buf))
            f_, s_ = snap(first), snap(second)
            if "q0" not in f_:
                ctx.unrecognised(rid, mdl.methods[mname], mname, f"the first result does not mention the parameter point ({f_[:80]})")
            elif "q0" in s_ or "r0" not in s_:
                ctx.violated(rid, mdl.methods[mname], f"Model.{mname} after the parameter array was updated in place", f"`{mname}` evaluated a second time with the same parameter array, now holding other values, returns the result of the EARLIER values: something is remembered per array object (astensor does not copy an array of the backend's own type), so the reported rates / densities are not determined by the parameter values", expected="built from (r0, r1)", found=s_[:160])
            else:
                ctx.holds(rid, site, s_[:100])
        except RaisedInFragment as e:
            ctx.violated(rid, mdl.methods[mname], f"Model.{mname}", f"raises {e.exc_name} on well-formed inputs")
        except errs as e:
            ctx.unrecognised(rid, mdl.methods[mname], mname, f"not interpretable: {type(e).__name__}: {e}")
