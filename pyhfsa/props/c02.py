"""C02 -- the log-likelihood is the HistFactory template (structural necessary conditions).

  R1 RUNOFF/PAIR aux-data/parameter pairing: auxdata and auxdata_order grow under the same guard;
                 both constraint classes advance the aux offset exactly once on every path of the
                 loop body (before the `continue` that skips foreign constraint types) and iterate
                 the parameter sets in auxdata order
  R2 TABLE       constraint-type literals assigned in paramsets.py == those filtered on in constraints.py
  R3 ROLE        Normal(loc=gathered parameters, scale=sigmas); Poisson(rate = gathered parameters * factors);
                 the data side is gather(auxdata, <indices collected in the same loop>)
  R4 ORDER       main pdf first, constraint second; viewer sizes [nmaindata, nauxdata]; index 0/1 used
                 consistently; gaussian before poisson in indices and in make_pdf
  R5 DEP         joint log-density = sum of all terms (1, 2, 3 terms; batched or not); bins reduced over
                 the last axis only; constituents zipped with their own data slice
  R6 ALG         pdf == exp(logpdf); twice_nll == -2 logpdf (with C05)
  R7 ALG         shapesys: factor == nominal^2 / uncertainty^2 on valid bins, auxdata == factors, invalid
                 bins fixed with factor 1; staterror: sigma == sqrt(sum_samples (unc / sum_{masked samples} nominal)^2)
  R8 DEP         user overrides win over defaults in reduce_paramsets_requirements
"""

from __future__ import annotations

import ast
from fractions import Fraction

from .. import astutil as A
from .. import runoff
from ..alg import NotHandled, FragmentFault, Interp, Obj, Poly, PyFunc, Undecided, fn, same_value, to_poly
from ..alg import tensorlib_obj as _tensorlib_obj
from .. import listnp
from ..dep import Deps

EXPLANATION = (
    "Constraint pairing is decided on the CFG of the two constraint constructors (every path through one loop "
    "iteration advances the aux-data offset exactly once by the parameter-set size, the window is taken before the "
    "advance, loops run in auxdata order); constraint constructor argument roles, main|aux ordering, the joint "
    "log-density (sum of 1/2/3 terms, batched or not), pdf = exp(logpdf) and the shapesys width formula are decided "
    "by abstract interpretation with opaque atoms; the staterror quadrature formula, type-literal agreement and "
    "override precedence are structural. NOT decided: numeric values of the log-density, correctness of backend "
    "primitives (C04), 'appear verbatim' of overrides numerically."
)
ASSUMPTIONS = ["tensorlib.gather/stack/product/sum semantics of pyhfsa.alg", "probability.Normal(loc, scale), Poisson(rate), Independent(pdf)"]
PDF, CON, PROB = "src/pyhf/pdf.py", "src/pyhf/constraints.py", "src/pyhf/probability.py"
PS, PU = "src/pyhf/parameters/paramsets.py", "src/pyhf/parameters/utils.py"


# C02.R1 knows the offset bookkeeping as ONE loop in each constructor; R3 (the constant tables of both constraint classes on four
# interleaved parameter sets) and R9 (the constraint model end to end) decide the same clause from what the constructors compute.
DEFER = [(["C02.R1"], ["C02.R3", "C02.R9"], "src/pyhf/constraints.py"), (["C02.R2"], ["C02.R3", "C02.R9"]), (["C02.R4"], ["C02.R9"], "_ConstraintModel")]
# R3 has dataflow instances (`self._normal_data` derives from the windows collected in the pairing loop ...) next to interpreted ones (the
# constant tables of both constraint classes on four interleaved parameter sets): the former know one way of writing the constructor
DEFER_WITHIN = [("C02.R3", lambda site, detail: "does not derive from" in detail or "is not the tensor form" in detail or "pairing loop" in detail, lambda site: "[interpreted" in site or "tables [" in site, ["C02.R9"])]  # the instance in pdf.py (auxdata and its order grow under one guard) keeps its own verdict


def run(ctx):
    repo = ctx.repo
    r1 = ctx.rule("C02.R1", "RUNOFF/PAIR: auxdata and auxdata_order are extended under the same `constrained` guard; in both constraint classes the aux offset advances by parset.n_parameters exactly once on every path of the loop body, the window is taken before the advance, and the loop iterates the parameter sets in auxdata order", "RUNOFF", floor=6)
    r2 = ctx.rule("C02.R2", "TABLE: pdf_type literals assigned by the parameter-set classes == literals the constraint classes select and skip on == {normal, poisson}", "TABLE", floor=3)
    r3 = ctx.rule("C02.R3", "ROLE: gaussian term = Normal(gather(pars, access_field), sigmas) evaluated on gather(auxdata, normal_data); poisson term = Poisson(gather(pars, access_field) * factors) on gather(auxdata, poisson_data); sigmas/factors/data indices come from the same loop that pairs them", "ROLE", floor=8)
    r4 = ctx.rule("C02.R4", "ORDER: Model.make_pdf = [main, constraint]; viewer sizes [nmaindata, nauxdata]; expected_actualdata/mainlogpdf use index 0, expected_auxdata/constraint_logpdf index 1; constraint model: gaussian before poisson in indices and in make_pdf", "ORDER", floor=8)
    r5 = ctx.rule("C02.R5", "DEP: Simultaneous._joint_logpdf == sum of all terms for 1, 2, 3 terms, batched or not; Independent.log_prob sums over the last axis only; Simultaneous.log_prob pairs constituents with tv.split(value) in order", "DEP", floor=8)
    r6 = ctx.rule("C02.R6", "ALG: Model.pdf == exp(Model.logpdf)", "ALG", floor=1)
    r7 = ctx.rule("C02.R7", "ALG: shapesys required_parset: factors == auxdata == nominal^2/uncertainty^2 on valid bins, 1 and fixed on invalid bins; staterror finalize: sigma = sqrt(sum over samples of (uncertainty / sum of masked-sample nominals)^2)", "ALG", floor=5)
    r8 = ctx.rule("C02.R8", "DEP: the merged parameter setting is user_config.get(key, default)", "DEP", floor=2)

    # ---------------------------------------------------------------- R1
    cps = repo.func(PDF, "_create_parameters_from_spec")
    ctx.touch(cps)
    try:
        def ctor(name, constrained):
            return PyFunc(lambda a, k: Obj(f"ps_{name}", {"constrained": constrained, "auxdata": [Poly.atom(f"AUX_{name}0"), Poly.atom(f"AUX_{name}1")]}), f"ctor_{name}")
        params_mod = Obj("pyhf.parameters", {"T_a": ctor("a", True), "T_b": ctor("b", False), "T_c": ctor("c", True)})
        reqs = {"a": {"paramset_type": "T_a"}, "b": {"paramset_type": "T_b"}, "c": {"paramset_type": "T_c"}}
        out = Interp({(cps.node.args.args[0].arg if cps.node.args.args else "_reqs"): reqs, "pyhf": Obj("pyhf", {"parameters": params_mod})}, {}, {}).run(A.strip_docstring(cps.node.body))
        # the three results by what they ARE (that the caller unpacks them in the order they are returned is C01.R11's composition check)
        parts = list(out) if isinstance(out, (tuple, list)) else []
        sets = next((x for x in parts if isinstance(x, dict)), None)
        order = next((x for x in parts if isinstance(x, (list, tuple)) and x and all(isinstance(y, str) for y in x)), [])
        aux = next((x for x in parts if isinstance(x, (list, tuple)) and x is not order and not isinstance(x, dict)), [])
        okk = len(parts) == 3 and isinstance(sets, dict) and list(sets) == ["a", "b", "c"] and [str(to_poly(x)) for x in aux] == ["AUX_a0", "AUX_a1", "AUX_c0", "AUX_c1"] and list(order) == ["a", "c"]
        if okk:
            ctx.holds(r1, f"{PDF}::_create_parameters_from_spec", "returns (sets, auxdata, auxdata_order); auxdata and order grow together for constrained sets only, in requirement order")
        else:
            ctx.violated(r1, cps, "_create_parameters_from_spec", "auxiliary data and their order list are not built together from the constrained parameter sets (an auxiliary datum is paired with another parameter's constraint)",
                         expected="({a,b,c}, [AUX_a*, AUX_c*], ['a','c'])", found=f"({list(sets) if isinstance(sets, dict) else sets}, {[str(x) for x in aux] if isinstance(aux, list) else aux}, {order})")
    except (Undecided, TypeError, ValueError) as e:
        ctx.unrecognised(r1, cps, "_create_parameters_from_spec", f"not interpretable: {e}")
    classes = {"normal": repo.cls(CON, "gaussian_constraint_combined"), "poisson": repo.cls(CON, "poisson_constraint_combined")}
    for kind, c in classes.items():
        init = c.methods["__init__"]
        for m in c.methods.values():
            ctx.touch(m)
        loops = runoff.find_offset_loops(init.node)
        if not loops:
            ctx.unrecognised(r1, init, "offset loop", "no loop advancing an aux-data offset found")
            continue
        for loop, var in loops:
            res = runoff.analyse(loop, var)
            site = f"{CON}::{c.name}.__init__: loop over {A.short(loop.iter, 30)} [{var}]"
            tname = A.unparse(loop.target)
            if res["ok"] and res["width"] == [f"{tname}.n_parameters"]:
                ctx.holds(r1, site, f"{res['paths']} path(s) per iteration, one advance each by {res['width'][0]}")
            elif res["ok"]:
                ctx.violated(r1, init, f"{var} advance", "the aux offset is not advanced by the size of the parameter set", expected="parset.n_parameters", found=str(res["width"]), node=loop)
            else:
                ctx.violated(r1, init, f"{var} in loop over {A.short(loop.iter, 30)}", f"aux-data window bookkeeping: {res['why']} -- constraint terms after a skipped parameter set read another parameter's auxiliary data", expected="exactly one advance by parset.n_parameters on every path (also the `continue` path)", node=loop)
            # loop iterates parsets in auxdata order
            it = A.unparse(loop.iter)
            src = None
            for n in ast.walk(init.node):
                if isinstance(n, ast.Assign) and any(A.unparse(t) == it for t in n.targets):
                    src = n.value
            ok_order = src is not None and isinstance(src, ast.ListComp) and "auxdata_order" in A.unparse(src.generators[0].iter) and A.call_attr(src.elt) == "param_set"
            if ok_order:
                ctx.holds(r1, f"{CON}::{c.name}.__init__", f"{it} = [param_set(name) for name in auxdata_order]")
            else:
                ctx.violated(r1, init, it, "the constraint loop does not run over the parameter sets in auxdata order", expected="[pdfconfig.param_set(c) for c in pdfconfig.auxdata_order]", found=A.short(src, 80) if src is not None else "?", node=loop)
            # window is over data_indices = range(len(auxdata))
            di = [n for n in ast.walk(init.node) if isinstance(n, ast.Assign) and any(A.dotted(t) == "self.data_indices" for t in n.targets)]
            if di and "auxdata" in A.unparse(di[0].value) and "range" in A.unparse(di[0].value):
                ctx.holds(r1, f"{CON}::{c.name}.__init__", "window over range(len(auxdata))")
            else:
                ctx.violated(r1, init, "self.data_indices", "the aux window is not taken over range(len(pdfconfig.auxdata))", node=init.node)

    # ---------------------------------------------------------------- R2
    assigned = set()
    psm = repo.module(PS)
    ctx.touch_file(PS)
    for c in psm.classes.values():
        for m in c.methods.values():
            for n in ast.walk(m.node):
                if isinstance(n, ast.Assign) and any(A.dotted(t) == "self.pdf_type" for t in n.targets) and isinstance(A.const_value(n.value), str):
                    assigned.add(A.const_value(n.value))
        for st in c.node.body:  # or a class attribute: every instance reads the same constant
            if isinstance(st, (ast.Assign, ast.AnnAssign)) and st.value is not None and isinstance(A.const_value(st.value), str) and any(isinstance(t, ast.Name) and t.id == "pdf_type" for t in (st.targets if isinstance(st, ast.Assign) else [st.target])):
                assigned.add(A.const_value(st.value))
    used = {}
    for kind, c in classes.items():
        lits = set()
        for n in ast.walk(c.methods["__init__"].node):
            if isinstance(n, ast.Compare) and "pdf_type" in A.unparse(n.left) and isinstance(A.const_value(n.comparators[0]), str):
                lits.add(A.const_value(n.comparators[0]))
        used[kind] = lits
    if assigned == {"normal", "poisson"}:
        ctx.holds(r2, f"{PS}", f"pdf_type literals {sorted(assigned)}")
    else:
        ctx.violated(r2, (PS, "<module>"), "pdf_type", "constraint type literals of the parameter sets changed", expected="{'normal','poisson'}", found=str(sorted(assigned)))
    for kind, lits in used.items():
        if lits == {kind}:
            ctx.holds(r2, f"{CON}::{classes[kind].name}", f"selects and skips on {kind!r} only")
        else:
            ctx.violated(r2, classes[kind].methods["__init__"], "pdf_type comparison", f"the {kind} constraint class selects parameters with one literal and skips with another ({sorted(lits)}): offsets and selections disagree", expected=f"{{{kind!r}}}", found=str(sorted(lits)))

    # ---------------------------------------------------------------- R3
    def ext3(rec):
        return {"Normal": lambda a, k: Obj(f"Normal[{to_poly(a[0])};{to_poly(a[1])}]"), "Poisson": lambda a, k: Obj(f"Poisson[{to_poly(a[0])}]"),
                "Independent": lambda a, k: Obj(f"Indep[{a[0].name}]")}
    for kind, c in classes.items():
        mp, lg = c.methods["make_pdf"], c.methods["logpdf"]
        attrs = {"batch_size": None, "param_viewer": Obj("pv", {"index_selection": [Poly.const(1)]}), "access_field": Poly.atom("ACCESS"), "sigmas": Poly.atom("SIGMAS"), "batched_factors": Poly.atom("FACTORS"),
                 "normal_data": Poly.atom("NDATA"), "poisson_data": Poly.atom("PDATA")}
        try:
            v = Interp({"pars": Poly.atom("PARS"), "prob": Obj("prob")}, attrs, {}, cls_name=c.name, externals=ext3(None)).run(A.strip_docstring(mp.node.body))
            g = "gather<PARS;ACCESS>"
            want = f"Indep[Normal[{g};SIGMAS]]" if kind == "normal" else f"Indep[Poisson[FACTORS*{g}]]"
            if getattr(v, "name", None) == want:
                ctx.holds(r3, f"{CON}::{c.name}.make_pdf", want)
            else:
                ctx.violated(r3, mp, "constraint pdf", "the constraint term is not built from (gathered parameters, widths) in their roles" + (" (Normal(loc=parameters, scale=sigmas))" if kind == "normal" else " (Poisson(rate = parameters * factors))"), expected=want, found=str(getattr(v, "name", v)))
            made = []
            methods = {"make_pdf": mp.node}
            it = Interp({"auxdata": Poly.atom("AUX"), "pars": Poly.atom("PARS"), "prob": Obj("prob")}, attrs, {}, cls_name=c.name, methods=methods, externals=ext3(None))
            lv = to_poly(it.run(A.strip_docstring(lg.node.body)))
            dname = "NDATA" if kind == "normal" else "PDATA"
            wantl = fn("log_prob", Poly.atom(want), fn("gather", Poly.atom("AUX"), Poly.atom(dname)))
            if lv == wantl:
                ctx.holds(r3, f"{CON}::{c.name}.logpdf", f"log_prob(gather(auxdata, {dname.lower()}))")
            else:
                ctx.violated(r3, lg, "constraint logpdf", "the constraint log-density is not evaluated on the auxiliary data gathered with this constraint's own data indices", expected=str(wantl), found=str(lv))
        except Undecided as e:
            ctx.unrecognised(r3, mp, "make_pdf/logpdf", f"not interpretable: {e}")
        # provenance of sigmas / factors / data indices inside __init__ and _precompute
        init, pre = c.methods["__init__"], c.methods.get("_precompute")
        d = Deps(init.node)
        wants = [("self._normal_data", "thisauxdata"), ("self._sigmas", "sigmas")] if kind == "normal" else [("self._poisson_data", "thisauxdata"), ("self._batched_factors", "factors")]
        for attr, src in wants:
            roots = d.closure().get(attr, set())
            if any(src in r for r in roots) or any(src in A.unparse(x) for x in d.defs.get(attr, [])) or _dep_text(d, attr, src):
                ctx.holds(r3, f"{CON}::{c.name}.__init__: {attr}", f"derives from the loop's `{src}`")
            else:
                ctx.violated(r3, init, attr, f"`{attr}` does not derive from the `{src}` values collected in the pairing loop", node=init.node)
        if pre is not None:
            dp = Deps(pre.node)
            pairs = [("self.sigmas", "self._sigmas"), ("self.normal_data", "self._normal_data"), ("self.access_field", "self._access_field")] if kind == "normal" else [("self.poisson_data", "self._poisson_data"), ("self.batched_factors", "self._batched_factors"), ("self.access_field", "self._access_field")]
            for a, b in pairs:
                if b in dp.closure().get(a, set()):
                    ctx.holds(r3, f"{CON}::{c.name}._precompute: {a} <- {b}")
                else:
                    ctx.violated(r3, pre, a, f"`{a}` is not the tensor form of `{b}`", node=pre.node)

    # the distribution classes themselves: the backend distribution receives the constructor's arguments in their
    # roles and expected_data() is the mean (what Asimov data and toys are built from)
    for pcls, pargs, ctor, want_pdf, want_mean in (("Poisson", ["rate"], "poisson_dist", "poisson_dist<RATE>", "RATE"), ("Normal", ["loc", "scale"], "normal_dist", "normal_dist<LOC;SCALE>", "LOC")):
        pc = repo.cls(PROB, pcls)
        for m_ in pc.methods.values():
            ctx.touch(m_)
        try:
            pattrs = {}
            penv = {a_: Poly.atom(a_.upper()) for a_ in pargs}
            pext = {"get_backend": (lambda tl_: (lambda a, k: (tl_, None)))(_tensorlib_obj()), ctor: lambda a, k, ctor=ctor: Obj(str(fn(ctor, *[to_poly(x) for x in a], *[to_poly(v_) for _, v_ in sorted(k.items())])))}
            Interp(penv, pattrs, {}, cls_name=pcls, externals=pext).run(A.strip_docstring(pc.methods["__init__"].node.body))
            mean = Interp({}, pattrs, {}, cls_name=pcls, externals=pext).run(A.strip_docstring(pc.methods["expected_data"].node.body))
            got_pdf = getattr(pattrs.get("_pdf"), "name", str(pattrs.get("_pdf")))
            if got_pdf == want_pdf and str(to_poly(mean)) == want_mean:
                ctx.holds(r3, f"{PROB}::{pcls}", f"_pdf = {want_pdf}; expected_data() = {want_mean}")
            else:
                ctx.violated(r3, pc.methods["__init__"], f"{pcls} roles", f"pyhf.probability.{pcls} does not hand its arguments to the backend distribution in their roles, or its expected_data() is not the mean", expected=f"_pdf={want_pdf}, mean={want_mean}", found=f"_pdf={got_pdf}, mean={mean}")
        except (Undecided, KeyError, TypeError) as e:
            ctx.unrecognised(r3, pc, f"{pcls}", f"not interpretable: {e}")

    # main model: Poisson(observed | expected rates), evaluated on the main data
    mmc = repo.cls(PDF, "_MainModel")
    try:
        ext = ext3(None)
        ext["expected_data"] = lambda a, k: Poly.atom(f"RATES<{to_poly(a[0])}>")
        v = Interp({"pars": Poly.atom("PARS"), "prob": Obj("prob")}, {}, {}, cls_name="_MainModel", externals=ext).run(A.strip_docstring(mmc.methods["make_pdf"].node.body))
        if getattr(v, "name", None) == "Indep[Poisson[RATES<PARS>]]":
            ctx.holds(r3, f"{PDF}::_MainModel.make_pdf", "Independent(Poisson(expected_data(pars)))")
        else:
            ctx.violated(r3, mmc.methods["make_pdf"], "main pdf", "the main term is not a product of Poisson(n_b | expected rate_b(pars))", expected="Indep[Poisson[RATES<PARS>]]", found=str(getattr(v, "name", v)))
        lgm = mmc.methods["logpdf"]
        lv = Interp({"maindata": Poly.atom("MAIN"), "pars": Poly.atom("PARS")}, {}, {}, cls_name="_MainModel", externals={"make_pdf": lambda a, k: Obj(f"PDF<{to_poly(a[0])}>")}).run(A.strip_docstring(lgm.node.body))
        if to_poly(lv) == fn("log_prob", Poly.atom("PDF<PARS>"), Poly.atom("MAIN")):
            ctx.holds(r3, f"{PDF}::_MainModel.logpdf", "make_pdf(pars).log_prob(maindata)")
        else:
            ctx.violated(r3, lgm, "main logpdf", "the main log-density is not make_pdf(pars).log_prob(maindata)", found=str(lv))
        ml = repo.method(PDF, "Model", "logpdf")
        calls = [c for c in A.calls_in(ml.node) if A.call_attr(c) == "log_prob"]
        okm = calls and isinstance(calls[0].func.value, ast.Call) and A.call_attr(calls[0].func.value) == "make_pdf" and A.dotted(calls[0].func.value.args[0]) == "pars" and A.dotted(calls[0].args[0]) == "data"
        if okm:
            ctx.holds(r3, f"{PDF}::Model.logpdf", "make_pdf(pars).log_prob(data)")
        else:
            ctx.violated(r3, ml, "Model.logpdf", "the full log-density is not make_pdf(pars).log_prob(data) (parameters and data exchanged or another pdf evaluated)", node=ml.node)
    except (Undecided, IndexError) as e:
        ctx.unrecognised(r3, mmc, "_MainModel", f"not interpretable: {e}")

    # ---------------------------------------------------------------- R4
    model = repo.cls(PDF, "Model")
    cm = repo.cls(PDF, "_ConstraintModel")
    for m in list(model.methods.values()) + list(cm.methods.values()):
        ctx.touch(m)
    try:
        made = []
        ext = {"Simultaneous": lambda a, k: (made.append(a) or Obj("SIM")), ".make_pdf": lambda recv, a, k: Obj(f"make_pdf<{recv.name};{to_poly(a[0])}>")}
        attrs = {"main_model": Obj("MAIN"), "constraint_model": Obj("CONSTR"), "fullpdf_tv": Obj("TV"), "batch_size": None}
        Interp({"pars": Poly.atom("PARS"), "prob": Obj("prob")}, attrs, {}, cls_name="Model", externals=ext).run(A.strip_docstring(model.methods["make_pdf"].node.body))
        objs = [getattr(x, "name", str(x)) for x in made[0][0]]
        if objs == ["make_pdf<MAIN;PARS>", "make_pdf<CONSTR;PARS>"] and getattr(made[0][1], "name", "") == "TV":
            ctx.holds(r4, f"{PDF}::Model.make_pdf", "[main pdf, constraint pdf] with fullpdf_tv")
        else:
            ctx.violated(r4, model.methods["make_pdf"], "pdfobjs order", "the full pdf does not list the main pdf first and the constraint pdf second (data are split main|aux)", expected="[main, constraint]", found=str(objs))
    except (Undecided, IndexError) as e:
        ctx.unrecognised(r4, model.methods["make_pdf"], "make_pdf", str(e))
    init = model.methods["__init__"]
    tvc = [c for c in A.calls_in(init.node) if A.call_attr(c) == "_tensorviewer_from_sizes"]
    lname = A.dotted(tvc[0].args[0]) if tvc and tvc[0].args else None
    szs = [A.dotted(c.args[0]) for c in A.calls_in(init.node) if A.call_attr(c) == "append" and lname and A.dotted(c.func.value) == lname and c.args]
    if szs == ["self.config.nmaindata", "self.config.nauxdata"]:
        ctx.holds(r4, f"{PDF}::Model.__init__", "viewer sizes [nmaindata, nauxdata]")
    else:
        ctx.violated(r4, init, "sizes", "the main|aux viewer is not sized [nmaindata, nauxdata] in that order", found=str(szs), node=init.node)
    for mname, idx in (("expected_actualdata", 0), ("mainlogpdf", 0), ("expected_auxdata", 1), ("constraint_logpdf", 1), ("expected_data", 0)):  # expected_data: the arm without auxiliary data
        m = model.methods[mname]
        subs = [A.const_value(n.slice) for n in ast.walk(m.node) if isinstance(n, ast.Subscript) and isinstance(n.value, ast.Call) and A.call_attr(n.value) == "make_pdf"]
        if subs == [idx]:
            ctx.holds(r4, f"{PDF}::Model.{mname}", f"uses constituent [{idx}]")
        else:
            ctx.violated(r4, m, f"make_pdf(pars)[...]", f"{mname} does not address constituent {idx} of the full pdf ({'main' if idx == 0 else 'constraint'})", expected=str([idx]), found=str(subs), node=m.node)
    ci = cm.methods["__init__"]
    try:
        rec = {}
        G = Obj("G", {"_normal_data": Poly.atom("NDATA"), "batch_size": None})
        Pn = Obj("P", {"_poisson_data": Poly.atom("PDATA"), "batch_size": None})
        ext = {"gaussian_constraint_combined": lambda a, k: G, "poisson_constraint_combined": lambda a, k: Pn, "ParamViewer": lambda a, k: Obj("PV"),
               ".has_pdf": lambda recv, a, k: True, "has_pdf": lambda a, k: True, "_TensorViewer": lambda a, k: (rec.__setitem__("tv", a) or Obj("CTV"))}
        Interp({"config": Obj("config", {"npars": Poly.const(3), "par_map": Obj("pm"), "auxdata_order": ["x"]}), "batch_size": None}, {}, {}, cls_name="_ConstraintModel", externals=ext).run(A.strip_docstring(ci.node.body))
        got = [str(to_poly(x)) for x in rec["tv"][0]]
        if got == ["NDATA", "PDATA"]:
            ctx.holds(r4, f"{PDF}::_ConstraintModel.__init__", "indices [gaussian data, poisson data]")
        else:
            ctx.violated(r4, ci, "indices", "constraint data indices are not [gaussian, poisson]", found=str(got), node=ci.node)
    except (Undecided, KeyError) as e:
        ctx.unrecognised(r4, ci, "_ConstraintModel.__init__", f"not interpretable: {e}")
    cmp_ = cm.methods["make_pdf"]
    try:
        rec = {}
        ext = {".make_pdf": lambda recv, a, k: Obj(f"pdf[{recv.name}]"), "Simultaneous": lambda a, k: (rec.__setitem__("sim", a) or Obj("SIM"))}
        Interp({"pars": Poly.atom("PARS"), "prob": Obj("prob")}, {"constraints_gaussian": Obj("G"), "constraints_poisson": Obj("P"), "constraints_tv": Obj("CTV"), "batch_size": None}, {}, cls_name="_ConstraintModel", externals=ext).run(A.strip_docstring(cmp_.node.body))
        got = [getattr(x, "name", str(x)) for x in rec["sim"][0]]
        if got == ["pdf[G]", "pdf[P]"] and getattr(rec["sim"][1], "name", "") == "CTV":
            ctx.holds(r4, f"{PDF}::_ConstraintModel.make_pdf", "pdfobjs [gaussian, poisson] (same order as the indices), split with constraints_tv")
        else:
            ctx.violated(r4, cmp_, "pdfobjs", "constraint pdfs are not appended in the order of their data indices (gaussian, poisson)", found=str(got), node=cmp_.node)
    except (Undecided, KeyError) as e:
        ctx.unrecognised(r4, cmp_, "_ConstraintModel.make_pdf", f"not interpretable: {e}")

    # ---------------------------------------------------------------- R5
    sim = repo.cls(PROB, "Simultaneous")
    jl = sim.methods["_joint_logpdf"]
    for m in sim.methods.values():
        ctx.touch(m)
    for nterms in (1, 2, 3):
        for batch in (None, Poly.const(2)):
            terms = [Poly.atom(f"t{i}") for i in range(nterms)]
            lab = f"{nterms} term(s), batch={'None' if batch is None else 2}"
            try:
                v = to_poly(Interp({"terms": list(terms), "batch_size": batch}, {}, {}).run(A.strip_docstring(jl.node.body)))
                want = Poly()
                for t in terms:
                    want = want + t
                if v == want:
                    ctx.holds(r5, f"{PROB}::Simultaneous._joint_logpdf [{lab}]", str(want))
                else:
                    ctx.violated(r5, jl, f"_joint_logpdf [{lab}]", "the joint log-density is not the sum of all constituent log-densities", expected=str(want), found=str(v))
            except Undecided as e:
                ctx.unrecognised(r5, jl, f"_joint_logpdf [{lab}]", str(e))
    for c in A.calls_in(jl.node):
        if A.call_attr(c) == "sum":
            ax = {k.arg: A.const_value(k.value) for k in c.keywords}.get("axis", "absent")
            if ax == 0:
                ctx.holds(r5, f"{PROB}::Simultaneous._joint_logpdf: {A.short(c, 40)}", "sum over the stacked-terms axis")
            else:
                ctx.violated(r5, jl, c, "stacked log-density terms are not reduced over axis 0 only", expected="axis=0", found=f"axis={ax}", node=c)
    ind = repo.cls(PROB, "Independent").methods["log_prob"]
    ctx.touch(ind)
    sums = [c for c in A.calls_in(ind.node) if A.call_attr(c) == "sum"]
    if len(sums) == 1 and {k.arg: A.const_value(k.value) for k in sums[0].keywords}.get("axis") == -1:
        ctx.holds(r5, f"{PROB}::Independent.log_prob", "sum over bins (last axis) only")
    else:
        ctx.violated(r5, ind, "sum(..., axis=-1)", "bin log-probabilities are not summed over the last axis only", node=sums[0] if sums else ind.node)
    lp = sim.methods["log_prob"]
    try:
        rec = {}
        ext = {".split": lambda recv, a, k: [Poly.atom("D1"), Poly.atom("D2")], "_joint_logpdf": lambda a, k: (rec.__setitem__("j", (a, k)) or Poly.atom("JOINT"))}
        out = Interp({"value": Poly.atom("VALUE"), "self": [Obj("P1"), Obj("P2")], "Simultaneous": Obj("Simultaneous")}, {"tv": Obj("TV"), "batch_size": None, "_pdfobjs": [Obj("P1"), Obj("P2")]}, {}, cls_name="Simultaneous", externals=ext).run(A.strip_docstring(lp.node.body))
        got = [str(to_poly(x)) for x in rec["j"][0][0]]
        if got == ["log_prob<P1;D1>", "log_prob<P2;D2>"] and str(to_poly(out)) == "JOINT":
            ctx.holds(r5, f"{PROB}::Simultaneous.log_prob", "joint of [p_i.log_prob(split_i)] in constituent order")
        else:
            ctx.violated(r5, lp, "Simultaneous.log_prob", "constituent pdfs are not paired with their own slice of the data, or the joint of all of them is not returned", expected="_joint_logpdf([P1.log_prob(D1), P2.log_prob(D2)])", found=str(got))
    except (Undecided, KeyError, IndexError) as e:
        ctx.unrecognised(r5, lp, "Simultaneous.log_prob", f"not interpretable: {e}")

    # ---------------------------------------------------------------- R6
    pdfm = model.methods["pdf"]
    try:
        v = to_poly(Interp({"pars": Poly.atom("PARS"), "data": Poly.atom("DATA")}, {}, {}, cls_name="Model", externals={"logpdf": lambda a, k: Poly.atom("LOGPDF<" + ";".join(str(to_poly(x)) for x in a) + ">")}).run(A.strip_docstring(pdfm.node.body)))
        want = fn("exp", Poly.atom("LOGPDF<PARS;DATA>"))
        if v == want:
            ctx.holds(r6, f"{PDF}::Model.pdf", "exp(logpdf(pars, data))")
        else:
            ctx.violated(r6, pdfm, "Model.pdf", "the density is not the exponential of the log-density at the same (pars, data)", expected=str(want), found=str(v))
    except Undecided as e:
        ctx.unrecognised(r6, pdfm, "pdf", str(e))

    # ---------------------------------------------------------------- R7
    sh = repo.func("src/pyhf/modifiers/shapesys.py", "required_parset")
    ctx.touch(sh)
    nv = [Poly.atom("n0"), Poly.atom("n1")]
    uv = [Poly.atom("u0"), Poly.atom("u1")]
    for reg, lab in (({"n0": 5, "n1": 5, "u0": 1, "u1": 1}, "all bins valid"), ({"n0": 5, "n1": 0, "u0": 1, "u1": 1}, "bin 1 has zero yield"), ({"n0": 5, "n1": 5, "u0": 0, "u1": 1}, "bin 0 has zero uncertainty")):
        try:
            out = Interp({"sample_data": list(nv), "modifier_data": list(uv)}, {}, {k: Fraction(v) for k, v in reg.items()}).run(A.strip_docstring(sh.node.body))
            fac = [to_poly(x) for x in out["factors"]]
            aux = [to_poly(x) for x in out["auxdata"]]
            fixed = list(out["fixed"])
            valid = [reg[f"n{i}"] > 0 and reg[f"u{i}"] > 0 for i in range(2)]
            want = [(nv[i] ** 2) / (uv[i] ** 2) if valid[i] else Poly.const(1) for i in range(2)]
            if fac == want and aux == want and fixed == [not v for v in valid] and to_poly(out["n_parameters"]) == Poly.const(2) and out["paramset_type"] == "constrained_by_poisson":
                ctx.holds(r7, f"shapesys.required_parset [{lab}]", f"factors = auxdata = {[str(w) for w in want]}, fixed = {fixed}")
            else:
                ctx.violated(r7, sh, f"shapesys widths [{lab}]", "the Poisson constraint of shapesys does not use tau_b = (nominal_b / uncertainty_b)^2 as both rate factor and auxiliary datum (invalid bins: factor 1, fixed)", expected=f"{[str(w) for w in want]}, fixed={[not v for v in valid]}", found=f"factors={[str(x) for x in fac]} auxdata={[str(x) for x in aux]} fixed={fixed}")
        except (Undecided, KeyError, TypeError) as e:
            ctx.unrecognised(r7, sh, "shapesys.required_parset", f"not interpretable: {e}")
    _staterror(ctx, r7, repo)
    _staterror_widths(ctx, r7, repo)
    _constraint_tables(ctx, r3, repo)
    r9 = ctx.rule("C02.R9", "TEMPLATE: _ConstraintModel built and evaluated END TO END (real combined constraints, ParamViewer, _TensorViewer, probability classes; list tensors; backend log-densities as opaque atoms) on five parameter sets whose parameter order differs from the auxiliary-data order and whose Gaussian and Poisson sets alternate: logpdf(aux, pars) is exactly one Normal(aux_k | theta_k, sigma_k or 1) per Gaussian component plus one Poisson(aux_k | theta_k * factor_k) per Poisson component, each pairing the parameter component with the auxiliary datum at the position the configuration assigns to it -- unbatched and for 2 batch rows", "TEMPLATE", floor=2)
    _constraint_template(ctx, r9, repo)

    # ---------------------------------------------------------------- R8
    red = repo.func(PU, "reduce_paramsets_requirements")
    ctx.touch(red)
    try:
        req = {"p": [{"paramset_type": "unconstrained", "n_parameters": Poly.const(1), "is_scalar": True, "inits": (Poly.atom("DEFAULT_INIT"),), "bounds": ((Poly.const(0), Poly.const(10)),), "fixed": False}]}
        for user, want, lab in (({"p": {"inits": [Poly.atom("USER_INIT")]}}, "USER_INIT", "override given"), ({}, "DEFAULT_INIT", "no override")):
            out = Interp({"paramsets_requirements": {k: [dict(x) for x in v] for k, v in req.items()}, "paramsets_user_configs": user, "exceptions": Obj("exc")}, {}, {}).run(A.strip_docstring(red.node.body))
            got = [str(to_poly(x)) for x in out["p"]["inits"]]
            bnd = out["p"]["bounds"]
            if got == [want] and isinstance(out["p"]["inits"], list) and [tuple(str(to_poly(y)) for y in b) for b in bnd] == [("0", "10")] and out["p"]["name"] == "p":
                ctx.holds(r8, f"{PU}::reduce_paramsets_requirements [{lab}]", f"inits = [{want}], bounds default")
            else:
                ctx.violated(r8, red, f"merged setting [{lab}]", "a per-parameter setting given in the measurement does not take precedence over the modifier's default (or the default is lost when no override is given)", expected=f"inits=[{want}]", found=f"inits={got}")
    except (Undecided, KeyError, TypeError) as e:
        ctx.unrecognised(r8, red, "reduce_paramsets_requirements", f"not interpretable: {e}")


def _dep_text(d, attr, src):
    seen = set()
    todo = [attr]
    while todo:
        a = todo.pop()
        if a in seen:
            continue
        seen.add(a)
        for x in d.defs.get(a, []):
            if src in A.unparse(x):
                return True
        todo += list(d.direct.get(a, ()))
    return False


def _staterror_auxdata_after_override(repo, requirement):
    """auxdata of the real constrained_by_normal set built from (requirement merged with an `inits` override); None if the chain
    is not interpretable"""
    from ..objmodel import World
    PS_, PU_ = "src/pyhf/parameters/paramsets.py", "src/pyhf/parameters/utils.py"
    try:
        red = repo.func(PU_, "reduce_paramsets_requirements")
        merged = Interp({"paramsets_requirements": {"stat": [dict(requirement)]}, "paramsets_user_configs": {"stat": {"inits": [Poly.atom("POSTFIT0"), Poly.atom("POSTFIT1")]}}, "exceptions": Obj("exceptions")}, {}, {}).run(A.strip_docstring(red.node.body))["stat"]
        psm = repo.module(PS_)
        w = World({"__strict__": True}, module_env={"pyhf": Obj("pyhf"), "exceptions": Obj("exceptions")})
        for c_ in psm.classes.values():
            w.add_class(c_)
        kw = {k_: v_ for k_, v_ in merged.items() if k_ != "paramset_type"}
        pset = w.new(psm.classes[merged["paramset_type"]], [], kw)
        aux = pset.attrs.get("auxdata")
        return [str(to_poly(x)) for x in aux] if isinstance(aux, (list, tuple)) else None
    except Exception:  # noqa: BLE001 -- any failure: the structural reading below stands alone
        return None


def _staterror(ctx, rid, repo):
    rel = "src/pyhf/modifiers/staterror.py"
    fin = repo.method(rel, "staterror_builder", "finalize")
    ctx.touch(fin)
    # the width formula itself is decided by interpretation (_staterror_widths); here only what the builder asks for
    rp = repo.func(rel, "required_parset")
    ctx.touch(rp)
    try:
        # s0 stands for a very precisely known bin (relative MC uncertainty 1e-6), s1 for an ordinary one
        out = Interp({"sigmas": [Poly.atom("s0"), Poly.atom("s1")], "fixed": [False, True]}, {}, {"s0": Fraction(1, 10 ** 6), "s1": Fraction(1, 20)}).run(A.strip_docstring(rp.node.body))
        # the nominal auxiliary measurement of each gamma is 1 -- decided on what the PARAMETER SET ends up with when the measurement
        # overrides the initial values (requirement -> merge with the override -> the real parameter-set class), wherever the 1 is declared
        aux_final = _staterror_auxdata_after_override(repo, out)
        if aux_final is not None and aux_final != ["1", "1"]:
            ctx.violated(rid, rp, "staterror auxiliary data", "the auxiliary data of a staterror parameter are not the nominal 1 per bin once the measurement overrides the parameter's initial values (post-fit values, say): the constraint is then centred on the override", expected="['1', '1']", found=str(aux_final))
            return
        if "auxdata" not in out and aux_final == ["1", "1"]:
            out = dict(out, auxdata=(Poly.const(1), Poly.const(1)))  # declared elsewhere along the chain, with the same outcome
        if [str(to_poly(x)) for x in out["sigmas"]] == ["s0", "s1"] and [to_poly(x) for x in out["auxdata"]] == [Poly.const(1)] * 2 and [to_poly(x) for x in out["inits"]] == [Poly.const(1)] * 2 and out["paramset_type"] == "constrained_by_normal" and list(out["fixed"]) == [False, True]:
            ctx.holds(rid, f"{rel}::required_parset", "Gaussian(aux = 1 | gamma, sigma_b), one component per bin")
        else:
            ctx.violated(rid, rp, "staterror required_parset", "staterror does not request Gaussian(1 | gamma, sigma_b) per bin", found=str({k: str(v) for k, v in out.items()}))
    except (Undecided, KeyError, TypeError) as e:
        ctx.unrecognised(rid, rp, "required_parset", str(e))


def _staterror_widths(ctx, rid, repo):
    """staterror_builder INTERPRETED end to end (append for every (channel, sample, modifier) cell, then finalize) on
    two channels (c1: 2 bins, c2: 1 bin) and four samples: m acts on c1 of A, B and D (A has a ZERO nominal in bin 1,
    D lists all-zero uncertainties), z acts on c2 of A only and y on c2 of D only (zero uncertainty) while B -- which carries m -- is present
    in c2 without z; C carries nothing.  The widths requested must be delta_b of the template."""
    from ..alg import AutoRegion, RaisedInFragment
    from ..objmodel import World
    rel = "src/pyhf/modifiers/staterror.py"
    bcls = repo.cls(rel, "staterror_builder")
    fin = bcls.methods["finalize"]
    at = Poly.atom
    zero = Poly()
    nbins = {"c1": 2, "c2": 1}
    nominal = {("c1", "A"): [at("nA0"), zero], ("c1", "B"): [at("nB0"), at("nB1")], ("c1", "C"): [at("nC0"), at("nC1")], ("c1", "D"): [at("nD0"), at("nD1")],
               ("c2", "A"): [at("nA2")], ("c2", "B"): [at("nB2")], ("c2", "C"): [at("nC2")], ("c2", "D"): [at("nD2")]}
    declared = {("c1", "A", "m"): [at("uA0"), at("uA1")], ("c1", "B", "m"): [at("uB0"), at("uB1")], ("c1", "D", "m"): [zero, zero], ("c2", "A", "z"): [at("uA2")], ("c2", "D", "y"): [zero]}
    region = AutoRegion()
    got = {}
    ext = listnp.externals(interp_truth=lambda v: to_poly(v).evalf(region) != 0)
    ext["required_parset"] = lambda a, k: {"sigmas": a[0], "fixed": a[1]}
    site = f"{rel}::staterror_builder append+finalize [interpreted: 2 modifiers x 4 samples x 2 channels]"
    try:
        w = World(ext, region=region, module_env={"pyhf": Obj("pyhf", {"default_backend": Obj("default_backend")}), "exceptions": Obj("exceptions")})
        w.add_class(bcls)
        cfg = Obj("config", {"channel_nbins": {k_: Poly.const(v_) for k_, v_ in nbins.items()}, "channels": ["c1", "c2"], "samples": ["A", "B", "C", "D"]})
        inst = w.new(bcls, [cfg], {})
        for ch in ("c1", "c2"):
            for sm in ("A", "B", "C", "D"):
                samp = {"name": sm, "data": list(nominal[(ch, sm)])}
                for mod in ("m", "y", "z"):
                    d_ = declared.get((ch, sm, mod))
                    thismod = None if d_ is None else {"name": mod, "type": "staterror", "data": list(d_)}
                    w.call_method(inst, "append", [f"staterror/{mod}", ch, sm, thismod, samp])
        w.call_method(inst, "finalize", [])
        got = inst.attrs.get("required_parsets", {})
        s0 = at("nA0") + at("nB0") + at("nD0")
        s1 = at("nB1") + at("nD1")
        want_m = [fn("sqrt", (at("uA0") / s0) ** 2 + (at("uB0") / s0) ** 2), fn("sqrt", (at("uA1") / s1) ** 2 + (at("uB1") / s1) ** 2)]
        pm = got.get("m", [None])[0]
        pz = got.get("y", [None])[0]
        pz2 = got.get("z", [None])[0]
        if not (isinstance(pm, dict) and isinstance(pz, dict) and isinstance(pz2, dict)):
            ctx.violated(rid, fin, "required_parsets", "the builder does not request one parameter set per staterror modifier name", found=str(sorted(got)))
            return
        sig = list(pm["sigmas"]) + list(pz2["sigmas"])
        want_m = want_m + [fn("sqrt", (at("uA2") / at("nA2")) ** 2)]
        verdicts = [same_value(x, w_) for x, w_ in zip(sig, want_m)] if len(sig) == 3 else [False]
        if None in verdicts:
            ctx.unrecognised(rid, fin, "staterror widths", f"widths {[str(to_poly(x)) for x in sig]} not comparable with the template")
        elif all(verdicts) and list(pm["fixed"]) == [False, False] and list(pz2["fixed"]) == [False]:
            ctx.holds(rid, site, "delta_b = sqrt(sum over PARTICIPATING samples of uncertainty_sb^2) / (sum over participating samples of nominal_sb): a participating sample with zero nominal still contributes its uncertainty, one with all-zero uncertainties still contributes its nominal, samples that do not carry THIS modifier are excluded")
        else:
            ctx.violated(rid, fin, "staterror widths", "the staterror constraint width is not the quadrature-summed relative MC uncertainty of the samples participating in THAT modifier (checked with: a participating sample with zero nominal in a bin; a participating sample with all-zero uncertainties; a sample that carries another staterror but not this one; a sample carrying none)", expected=f"sigmas={[str(w_) for w_ in want_m]} fixed=[False, False]", found=f"sigmas={[str(to_poly(x)) for x in sig]} fixed={list(pm['fixed'])}")
        if [to_poly(x) for x in pz["sigmas"]] == [Poly.const(1)] and list(pz["fixed"]) == [True]:
            ctx.holds(rid, site, "a bin without MC uncertainty gets width 1 and a fixed parameter")
        else:
            ctx.violated(rid, fin, "staterror zero width", "a staterror bin with zero uncertainty is not held fixed with a unit width (or its width picks up samples that do not carry the modifier)", expected="sigmas=[1] fixed=[True]", found=f"sigmas={[str(to_poly(x)) for x in pz['sigmas']]} fixed={list(pz['fixed'])}")
    except RaisedInFragment as e:
        ctx.violated(rid, fin, "staterror builder", f"a well-formed specification is refused with {e.exc_name}")
    except FragmentFault as e:
        ctx.violated(rid, fin, "staterror builder", f"on a well-formed configuration the code indexes outside its own tensors: {e}")
    except (Undecided, KeyError, TypeError, ValueError, IndexError, AttributeError) as e:
        ctx.unrecognised(rid, fin, "staterror builder", f"not interpretable: {type(e).__name__}: {e}")


def _ps_attr(ps, name):
    """an attribute of a real parameter-set object, set by its constructor or defined by its class"""
    if name in ps.attrs:
        return ps.attrs[name]
    from ..objmodel import World
    return World({}).get_property(ps, name)


def real_paramsets(repo, spec):
    """{name: REAL parameter-set object} built by interpreting parameters/paramsets.py: spec maps name -> (class name, n, extra kwargs).
    What a set looks like when no widths are configured is the classes' own business."""
    from ..objmodel import World
    psm = repo.module("src/pyhf/parameters/paramsets.py")
    wp = World({"__strict__": True}, module_env={"pyhf": Obj("pyhf", {"default_backend": Obj("default_backend")}), "exceptions": Obj("exceptions")})
    for c_ in psm.classes.values():
        wp.add_class(c_)
    out = {}
    for name, (cls_, n, extra) in spec.items():
        out[name] = wp.new(psm.classes[cls_], [], {"name": name, "n_parameters": Poly.const(n), "inits": [Poly.const(1)] * n, "bounds": [(Poly.const(0), Poly.const(10))] * n, "fixed": False, "is_scalar": False, **extra})
        out[name].closed = True  # a finished object: reading an attribute its constructor did not set is an AttributeError
    return out


def _constraint_tables(ctx, rid, repo):
    """Interpret both combined-constraint constructors on a four-paramset configuration whose auxdata order is
    not alphabetical, whose Poisson sets have auxdata != factors (a measurement override) and whose Gaussian sets
    are one with explicit widths and one without: the constant tables (data indices, widths / rate factors, in
    batch form too) must be those of the configuration."""
    at = Poly.atom
    try:
        psets = real_paramsets(repo, {
            "zg": ("constrained_by_normal", 2, {"sigmas": [at("s0"), at("s1")], "auxdata": [at("xg0"), at("xg1")]}),
            "mp": ("constrained_by_poisson", 2, {"factors": [at("f0"), at("f1")], "auxdata": [at("a0"), at("a1")]}),
            "ag": ("constrained_by_normal", 1, {"auxdata": [at("xg2")]}),
            "bp": ("constrained_by_poisson", 1, {"factors": [at("f2")], "auxdata": [at("a2")]}),
        })
    except (Undecided, KeyError, TypeError, ValueError, IndexError, AttributeError) as e:
        ctx.unrecognised(rid, repo.module("src/pyhf/parameters/paramsets.py"), "parameter-set classes", f"not interpretable: {type(e).__name__}: {e}")
        return
    order = ["zg", "mp", "ag", "bp"]
    for cname, kind, want_names, want_data, tab_attr, want_tab in (
        ("gaussian_constraint_combined", "normal", ["zg", "ag"], [0, 1, 4], "sigmas", ["s0", "s1", "1"]),
        ("poisson_constraint_combined", "poisson", ["mp", "bp"], [2, 3, 5], "batched_factors", ["f0", "f1", "f2"]),
    ):
        c = repo.cls(CON, cname)
        init = c.methods["__init__"]
        for bs in (None, 2):
            seen = {}

            def viewer(a, k, seen=seen, bs=bs):
                seen["names"] = list(a[2])
                rows = bs or 1
                sel = {"zg": [at("i_zg0"), at("i_zg1")], "mp": [at("i_mp0"), at("i_mp1")], "ag": [at("i_ag0")], "bp": [at("i_bp0")]}
                return Obj("viewer", {"index_selection": [[list(sel[n]) for _ in range(rows)] for n in a[2]]})

            ext = listnp.externals()
            ext.update({
                "param_set": lambda a, k: psets[a[0]],
                "__getattr__": lambda o_, nm_: _ps_attr(o_, nm_) if hasattr(o_, "cls") else (_ for _ in ()).throw(NotHandled()),
                "ParamViewer": viewer,
                "subscribe": lambda a, k: PyFunc(lambda a2, k2: None, "subscriber"),
                "get_backend": (lambda tl_: (lambda a, k: (tl_, None)))(_tensorlib_obj()),
            })
            cfg = Obj("pdfconfig", {"auxdata": [at(f"aux{j}") for j in range(6)], "auxdata_order": list(order), "npars": Poly.const(6), "par_map": Obj("par_map")})
            attrs = {}
            site = f"{CON}::{cname}.__init__ [interpreted, batch_size={bs}]"
            try:
                it = Interp({"pdfconfig": cfg, "batch_size": None if bs is None else Poly.const(bs), "pyhf": Obj("pyhf", {"default_backend": Obj("default_backend")}), "events": Obj("events")}, attrs, {}, methods={n: m.node for n, m in c.methods.items()}, cls_name=cname, externals=ext)
                it.run(A.strip_docstring(init.node.body))
                data = attrs.get(f"{kind}_data")
                tab = attrs.get(tab_attr)
                acc = attrs.get("access_field")
                rows = bs or 1
                got_data = [int(to_poly(x).const_value()) for x in data]
                if tab_attr == "sigmas" and bs is None:
                    got_tab = [[str(to_poly(x)) for x in tab]]
                    want_rows = 1
                else:
                    got_tab = [[str(to_poly(x)) for x in row] for row in tab]
                    want_rows = rows
                want_acc = [[f"i_{n}{j}" for n in want_names for j in range(int(psets[n].attrs["n_parameters"].const_value()))] for _ in range(rows)]
                got_acc = [[str(to_poly(x)) for x in row] for row in acc]
                # a table kept as ONE row stands for every batch row (it broadcasts); what each row evaluates with is decided end to end (R9)
                ok = seen.get("names") == want_names and got_data == want_data and len(got_tab) in (1, want_rows) and all(r_ == want_tab for r_ in got_tab) and got_acc == want_acc
                if ok:
                    ctx.holds(rid, site, f"constrained names {want_names}; data indices {want_data}; {tab_attr} {want_tab} x {want_rows} row(s); parameter indices in the same order")
                else:
                    ctx.violated(rid, init, f"{cname} tables [batch_size={bs}]", f"the constant tables of the {kind} constraint do not pair each constrained parameter with its own auxiliary-data position and its own " + ("width (parset.sigmas, else 1)" if kind == "normal" else "rate factor (parset.factors, not the auxiliary data, which a measurement may override)"), expected=f"names={want_names} data={want_data} {tab_attr}={[want_tab] * want_rows} access={want_acc}", found=f"names={seen.get('names')} data={got_data} {tab_attr}={got_tab} access={got_acc}")
            except FragmentFault as e:
                ctx.violated(rid, init, f"{cname}.__init__ [batch_size={bs}]", f"on a well-formed configuration the code indexes outside its own tensors: {e}")
            except (Undecided, KeyError, TypeError, ValueError, IndexError, AttributeError) as e:
                ctx.unrecognised(rid, init, f"{cname}.__init__ [batch_size={bs}]", f"not interpretable: {type(e).__name__}: {e}")


def _constraint_template(ctx, rid, repo):
    from ..alg import NotHandled
    from . import viewers
    at, c = Poly.atom, Poly.const

    def sl(a_, b_):
        return Obj("slice", {"start": c(a_), "stop": c(b_)})

    def dist(kind):
        return lambda a, k: Obj(kind, {"args": list(a)})

    def log_prob(recv, a, k):
        if not (isinstance(recv, Obj) and recv.name in ("normal_dist", "poisson_dist")):
            raise NotHandled()

        def pick(p_, idx):
            # numpy broadcasting of a distribution parameter against the value: trailing axes aligned, length-1 axes repeated
            shp = listnp._shape(p_) if isinstance(p_, (list, tuple)) else ()
            if len(shp) > len(idx):
                raise Undecided("distribution parameter of higher rank than the value")
            for d, n_ in enumerate(shp):
                i_ = idx[len(idx) - len(shp) + d]
                if n_ != 1 and i_ >= n_:
                    raise FragmentFault(f"shape mismatch: parameter axis of length {n_} against value index {i_}")
                p_ = p_[0 if n_ == 1 else i_]
            return p_

        def rec(v, idx):
            if isinstance(v, (list, tuple)):
                return [rec(v[i], idx + (i,)) for i in range(len(v))]
            return fn(recv.name[:-5] + "_logpdf", to_poly(v), *[to_poly(pick(p_, idx)) for p_ in recv.attrs["args"]])

        return listnp.wrap(rec(a[0], ()))

    try:
        psets = real_paramsets(repo, {
            "g1": ("constrained_by_normal", 2, {"sigmas": [at("s0"), at("s1")], "auxdata": [at("ng0"), at("ng1")]}),
            "p1": ("constrained_by_poisson", 2, {"factors": [at("f0"), at("f1")], "auxdata": [at("np0"), at("np1")]}),
            "g2": ("constrained_by_normal", 1, {"auxdata": [at("ng2")]}),
            "p2": ("constrained_by_poisson", 1, {"factors": [at("f2")], "auxdata": [at("np2")]}),
        })
    except (Undecided, KeyError, TypeError, ValueError, IndexError, AttributeError) as e:
        ctx.unrecognised(rid, repo.module("src/pyhf/parameters/paramsets.py"), "parameter-set classes", f"not interpretable: {type(e).__name__}: {e}")
        return
    # two configurations with the SAME numbers of Gaussian / Poisson auxiliary data in different interleavings, built one
    # after the other in one world (module-level state of pdf.py / constraints.py shared): the second model must not
    # inherit anything from the first.  parameter order != auxiliary order in both.
    layouts = [
        ({"mu": (0, 1), "p1": (1, 3), "g1": (3, 5), "p2": (5, 6), "g2": (6, 7)}, ["g1", "p1", "g2", "p2"]),
        ({"g2": (0, 1), "mu": (1, 2), "g1": (2, 4), "p2": (4, 5), "p1": (5, 7)}, ["p1", "p2", "g1", "g2"]),
    ]
    cmc = repo.cls(PDF, "_ConstraintModel")
    for m_ in cmc.methods.values():
        ctx.touch(m_)
    for bs, li in ((None, 0), (None, 1), (2, 0), (2, 1)):
        slices, aux_order = layouts[li]
        site = f"{PDF}::_ConstraintModel end to end [batch_size={bs}, {'first' if li == 0 else 'second'} model of the process]"
        try:
            if li == 0:
                w = viewers.world(repo, {"normal_dist": dist("normal_dist"), "poisson_dist": dist("poisson_dist"), ".log_prob": log_prob, "param_set": lambda a, k: psets[a[0]]})
                w.add_class(cmc)
                for cn in ("gaussian_constraint_combined", "poisson_constraint_combined"):
                    w.add_class(repo.cls(CON, cn))
                pattrs = {}
                for cn in ("_SimpleDistributionMixin", "Poisson", "Normal", "Independent", "Simultaneous"):
                    k_ = repo.cls(PROB, cn)
                    w.add_class(k_)
                    pattrs[cn] = PyFunc(lambda a, kw, k_=k_, w=w: w.new(k_, a, kw), cn)
                w.module_env["prob"] = Obj("prob", pattrs)
                for rel_ in (PDF, CON, PROB):
                    w.load_globals(repo.module(rel_))
            cfg = Obj("config", {"npars": c(7), "par_map": {n: {"slice": sl(*se)} for n, se in slices.items()}, "auxdata": [at(f"nominal_aux{j}") for j in range(6)], "auxdata_order": list(aux_order)})
            cm = w.new(cmc, [cfg, None if bs is None else c(bs)], {})
            rows = bs or 1
            tname = (lambda r, j: f"theta{j}") if bs is None else (lambda r, j: f"theta{r}_{j}")
            xname = (lambda r, j: f"aux{j}") if bs is None else (lambda r, j: f"aux{r}_{j}")
            pars = listnp.T([at(tname(0, j)) for j in range(7)]) if bs is None else listnp.T([[at(tname(r, j)) for j in range(7)] for r in range(rows)])
            aux = listnp.T([at(xname(0, j)) for j in range(6)]) if bs is None else listnp.T([[at(xname(r, j)) for j in range(6)] for r in range(rows)])
            out = w.call_method(cm, "logpdf", [aux, pars])
            want = []
            for r in range(rows):
                tot, off = Poly(), 0
                for n in aux_order:
                    ps = psets[n]
                    ncomp = int(ps.attrs["n_parameters"].const_value())
                    for i in range(ncomp):
                        th, x = at(tname(r, slices[n][0] + i)), at(xname(r, off + i))
                        if _ps_attr(ps, "pdf_type") == "normal":
                            sig = ps.attrs["sigmas"][i] if "sigmas" in ps.attrs else c(1)
                            tot = tot + fn("normal_logpdf", x, th, sig)
                        else:
                            tot = tot + fn("poisson_logpdf", x, th * ps.attrs["factors"][i])
                    off += ncomp
                want.append(tot)
            got = [to_poly(out)] if bs is None else [to_poly(x) for x in out]
            if len(got) == len(want) and all(g_ == w_ for g_, w_ in zip(got, want)):
                ctx.holds(rid, site, f"{want[0]}")
            else:
                ctx.violated(rid, cmc.methods["logpdf"], f"constraint log-density [batch_size={bs}]" + ("" if li == 0 else " of a model built after another one with the same numbers of auxiliary data"), "the constraint log-density is not the HistFactory template: one Normal(aux_k | theta_k, width_k) per Gaussian-constrained component and one Poisson(aux_k | theta_k factor_k) per Poisson-constrained component, each parameter paired with the auxiliary datum at its own position", expected=str([str(x) for x in want]), found=str([str(x) for x in got]))
        except FragmentFault as e:
            ctx.violated(rid, cmc, f"_ConstraintModel end to end [batch_size={bs}, model {li + 1}]", f"on a well-formed configuration the code indexes outside its own tensors: {e}")
        except (Undecided, KeyError, TypeError, ValueError, IndexError, AttributeError) as e:
            ctx.unrecognised(rid, cmc, f"_ConstraintModel end to end [batch_size={bs}, model {li + 1}]", f"not interpretable: {type(e).__name__}: {e}")
