"""C12 -- the model configuration is a consistent partition and honours overrides.

  R1 RUNOFF  parameter slices, channel slices and viewer slices tile: offset advanced exactly once per
             iteration by the window width; parameter slices are registered in par_order
  R2 SIB     suggested_init/bounds/fixed and par_names iterate par_order and read the same paramset;
             one entry per component (scalar => 1 enforced by paramset.__init__)
  R3 EFFECT  copy-on-entry: Model uses only deepcopy(spec); Workspace rebinds spec = deepcopy(spec) before
             any use; Workspace.model/data/build never write into the workspace's or the model's own data
  R4 ORDINS  the three summary lists are re-assigned sorted(set(...)) before any other read; builders are
             driven by the sorted configuration lists, never by the listing order of the specification
  R5 ORDER   Workspace.data concatenates observations over model.config.channels (+ auxdata on request);
             Workspace.build slices data with channel_slices over config.channels
  R6 TABLE   Workspace.build writes every user-configurable parameter key the model reads
"""

from __future__ import annotations

import ast

from .. import astutil as A
from .. import runoff
from ..alg import Interp, Obj, Poly, RaisedInFragment, Undecided, to_poly
from ..cfg import CFG
from ..dep import Deps

EXPLANATION = (
    "Tiling is decided on the CFG of the three offset loops (one advance per iteration, window before advance, width "
    "= advance); the four suggestion methods are abstractly interpreted on a two-paramset configuration (scalar + "
    "2-component) and must yield 3 entries in par_order; copy-on-entry is a dominance rule (deepcopy of the caller's "
    "spec dominates every other use) plus a mutation-sink scan over Workspace.model/data/build; order-insensitivity "
    "is the rule that builder calls are driven only by the sorted summary lists and that those lists are "
    "sorted(set(...)) before any read; the build/read key table compares the keys Workspace.build writes with the "
    "user-configurable keys reduce_paramsets_requirements reads. NOT decided: 'appear verbatim' numerically, "
    "round-trip equality of models."
)
ASSUMPTIONS = ["copy.deepcopy yields a structure sharing nothing with its argument", "jsonpatch.JsonPatch.apply without in_place=True does not modify its argument"]
PDF, MIX, WS, PU, TC = "src/pyhf/pdf.py", "src/pyhf/mixins.py", "src/pyhf/workspace.py", "src/pyhf/parameters/utils.py", "src/pyhf/tensor/common.py"
MUTATORS = {"append", "extend", "insert", "remove", "pop", "clear", "sort", "reverse", "update", "setdefault", "popitem", "add", "discard"}
STRUCTURAL_KEYS = {"paramset_type", "n_parameters", "is_scalar"}


# R4 and R5 know ONE spelling of the ordering clauses (sorted(set(...)) assignments, loops over config.*, functools.reduce);
# R8 (channel summary), R9 (rebuild), R13 (Workspace.data) and R14 (builder pipeline) decide the same clauses from what the code computes.
# R6 reads the keys Workspace.build writes off ONE dict display inside build; R9 rebuilds every modifier type's parameter set through
# build and the requirement merge and compares what comes back, wherever the dict is written.
DEFER = [(["C12.R4"], ["C12.R8", "C12.R14"]), (["C12.R5"], ["C12.R9", "C12.R13"]), (["C12.R6"], ["C12.R9"])]


def _data_history(ctx, rid, repo):
    from ..alg import RaisedInFragment
    from ..objmodel import World, dict_base
    from .c16 import _deep, _isinstance_of_modelled_class
    at = Poly.atom
    wsc = repo.cls(WS, "Workspace")
    wd = wsc.methods["data"]
    try:
        mix = repo.cls(MIX, "_ChannelSummaryMixin")
        w = World({"__strict__": True, "deepcopy": lambda a, k: _deep(a[0]), "__isinstance__": _isinstance_of_modelled_class}, module_env={"log": Obj("log"), "schema": Obj("schema"), "exceptions": Obj("exceptions"), "copy": Obj("copy"), "jsonpatch": Obj("jsonpatch")})
        w.add_foreign_base("dict", dict_base())
        w.add_class(mix).add_class(wsc)
        for q, f_ in repo.module(WS).funcs.items():
            if "." not in q and q != "__dir__":
                w.add_func(f_)
        chan = lambda n, k: {"name": n, "samples": [{"name": "bkg", "data": [at(f"{n}_b{i}") for i in range(k)], "modifiers": []}]}
        spec = {"channels": [chan("zz", 2), chan("aa", 1), chan("mm", 2)],
                "observations": [{"name": "mm", "data": [at("m0"), at("m1")]}, {"name": "zz", "data": [at("z0"), at("z1")]}, {"name": "aa", "data": [at("a0")]}],
                "measurements": [{"name": "meas", "config": {"poi": "mu", "parameters": []}}], "version": "1.0.0"}
        ws = w.new(wsc, [spec], {"validate": False})
        aux = [at("aux0"), at("aux1")]
        # the model was made from this workspace with channel `mm` pruned away by a patch: ITS channels decide, not the workspace's
        model = Obj("model", {"config": Obj("config", {"channels": ["aa", "zz"], "auxdata": aux})})
        main = ["a0", "z0", "z1"]
        plan = [("first call (auxiliary data included by default)", {}, main + ["aux0", "aux1"]), ("second call, same arguments", {}, main + ["aux0", "aux1"]), ("third call, include_auxdata=False", {"include_auxdata": False}, main)]
        bad = None
        for lab, kw, want in plan:
            out = w.call_method(ws, "data", [model], dict(kw))
            got = [str(to_poly(x)) for x in out] if isinstance(out, (list, tuple)) else repr(out)
            stored = {k: [str(to_poly(x)) for x in v] for k, v in (ws.attrs.get("observations") or {}).items()}
            if got != want:
                bad = f"{lab}: the data vector is {got}, the model's channels (aa, zz; the workspace also has mm) and its auxiliary data give {want}"
                break
            if stored != {"mm": ["m0", "m1"], "zz": ["z0", "z1"], "aa": ["a0"]} or [str(x) for x in aux] != ["aux0", "aux1"]:
                bad = f"{lab}: the call changed what the workspace / the model store (observations now {stored}, auxiliary data {[str(x) for x in aux]}): the accumulator is not a fresh list"
                break
        if bad:
            ctx.violated(rid, wd, "Workspace.data history", f"Workspace.data does not hand out the observations in the model's order (or is not repeatable): {bad}", expected="observations of config.channels in that order (+ config.auxdata iff requested), stores untouched", found=bad)
        else:
            ctx.holds(rid, f"{WS}::Workspace.data [3 calls, observations listed mm, zz, aa; model channels aa, zz]", "model order, auxiliary data iff requested, stores untouched")
    except RaisedInFragment as e:
        ctx.violated(rid, wd, "Workspace.data history", f"Workspace.data raises {e.exc_name} for a model whose channels all have observations")
    except (Undecided, KeyError, TypeError, ValueError, IndexError, AttributeError) as e:
        ctx.unrecognised(rid, wd, "Workspace.data history", f"not interpretable: {type(e).__name__}: {e}")


def _viewer_from_sizes_interpreted(ctx, rid, f):
    """_tensorviewer_from_sizes([2, 3, 1]) must hand the viewer the index ranges [0,1], [2,3,4], [5] in that order"""
    rec = []

    def viewer(a, k):
        rec.append((a, k))
        return Obj("viewer")

    ext = {"_TensorViewer": viewer, "slice": lambda a, k: Obj("slice", {"start": to_poly(a[0]) if len(a) > 1 else Poly(), "stop": to_poly(a[1] if len(a) > 1 else a[0])})}
    env = {"pyhf": Obj("pyhf", {"default_backend": Obj("tensorlib")}), "default_backend": Obj("tensorlib")}
    try:
        names = ["m", "n", "o"]
        Interp(env, {}, {}, externals=ext).call_function(f.node, [[Poly.const(2), Poly.const(3), Poly.const(1)], names, None], {})
        got = None
        if len(rec) == 1:
            a, k = rec[0]
            idx = a[0] if a else k.get("indices")
            got = [[int(to_poly(x).const_value()) for x in part] for part in idx]
            nm = k.get("names", a[2] if len(a) > 2 else None)
            bs = k.get("batch_size", a[1] if len(a) > 1 else None)
        if got == [[0, 1], [2, 3, 4], [5]] and nm is names and bs is None:
            ctx.holds(rid, f"{f.relpath}::{f.qualname} [sizes 2, 3, 1]", "index ranges [0,1] [2,3,4] [5], names and batch size handed on (interpreted)")
        else:
            ctx.violated(rid, f, "_tensorviewer_from_sizes", "the viewer built from sizes [2, 3, 1] does not get the consecutive index ranges [0,1], [2,3,4], [5] (with the names and batch size it was given)", expected="[[0, 1], [2, 3, 4], [5]]", found=str(got))
    except (Undecided, KeyError, TypeError, ValueError, IndexError, AttributeError) as e:
        ctx.unrecognised(rid, f, "_tensorviewer_from_sizes", f"no offset loop found and not interpretable: {type(e).__name__}: {e}")


def run(ctx):
    repo = ctx.repo
    r1 = ctx.rule("C12.R1", "RUNOFF: _create_and_register_paramsets, the channel-slice loop of the mixin and _tensorviewer_from_sizes advance their offset exactly once per iteration by the width of the slice just taken; parameter names are appended to par_order in the same iteration", "RUNOFF", floor=4)
    r2 = ctx.rule("C12.R2", "SIB: suggested_init, suggested_bounds, suggested_fixed and par_names yield one entry per parameter component in par_order (interpreted on {scalar a, 2-component b}); paramset.__init__ refuses scalar sets with n != 1", "SIB", floor=5)
    r3 = ctx.rule("C12.R3", "EFFECT: Model.__init__ and Workspace.__init__ deep-copy the caller's spec before any other use; Workspace.model/data/build do not mutate the workspace payload, the model spec or the model configuration", "EFFECT", floor=6)
    r4 = ctx.rule("C12.R4", "ORDINS: channels/samples/modifiers summaries are sorted(set(...)) before any read other than append; builder.append is driven by config.channels x config.samples x config.modifiers; the spec lists are only used for name-keyed, order-independent registration", "ORDINS", floor=6)
    r5 = ctx.rule("C12.R5", "ORDER: Workspace.data reduces observations over model.config.channels into a fresh accumulator and appends config.auxdata iff requested; Workspace.build slices with channel_slices[k] for k in config.channels", "ORDER", floor=4)
    r6 = ctx.rule("C12.R6", "TABLE: Workspace.build writes every user-configurable key that reduce_paramsets_requirements reads (inits, bounds, fixed, auxdata, sigmas, factors)", "TABLE", floor=3)
    r7 = ctx.rule("C12.R7", "OVERRIDE: interpreting reduce_paramsets_requirements on a two-component constrained set, a value given by the user for inits / bounds / fixed / auxdata / sigmas / factors is the merged value VERBATIM (also when it is falsy: fixed = False over a default that fixes a component) and every key the user does not give keeps the modifier's default", "OVERRIDE", floor=8)
    _overrides(ctx, r7, repo)
    r8 = ctx.rule("C12.R8", "SUMMARY (interpreted): _ChannelSummaryMixin.__init__ on three channels listed out of order (3, 1 and 2 bins) with repeated sample and modifier names: channels, samples and (name, type) pairs come out sorted and unique; channel_nbins and channel_slices are keyed in sorted channel order and the slices tile [0, 6) in THAT order", "SUMMARY", floor=1)
    _summary_interpreted(ctx, r8, repo)
    r9 = ctx.rule("C12.R9", "REBUILD (interpreted): for each of the seven modifier types: the requirement its module declares -> the merged settings -> the parameter-set object (real classes) -> what Workspace.build writes for it -> merged again with that as the measurement's configuration: the second merge is accepted (build emits no setting the modifier does not use) and gives back the same inits, bounds, fixed flag and constraint settings; observations are cut with the configuration's channel slices in channel order", "REBUILD", floor=7)
    _rebuild_interpreted(ctx, r9, repo)
    r11 = ctx.rule("C12.R11", "ACCESSORS (interpreted): _ModelConfig.__init__ + set_parameters with real parameter-set objects registered in a NON-alphabetical order (a scalar free set, a 2-component Gaussian set with mixed fixed flags, a 3-component Poisson set, a scalar fixed set), then every accessor: par_order, par_slice / param_set per name, npars, suggested_init / bounds / fixed (the concatenation of each set's own values in parameter order), par_names (name, or name[i] from 0), and set_poi -> poi_index = the first component of the named set; a multi-component or undeclared POI is refused", "ACCESSORS", floor=8)
    _config_accessors(ctx, r11, repo)
    r10 = ctx.rule("C12.R10", "SETTINGS-HISTORY: a parameter set's suggested fixed flags read after they were assigned (the documented way of changing a model's defaults: a bool, a list, a bool again, in any order, with reads in between) are what was assigned last, one entry per component; inits, bounds, auxdata, sigmas / factors given to the constructor are reported verbatim whatever the fixed flags", "HISTORY", floor=6)
    _paramset_history(ctx, r10, repo)
    r12 = ctx.rule("C12.R12", "MODEL-HISTORY (interpreted, engine shared with C16.R7 / C20.R8): Workspace.model() called five times on ONE real Workspace object (default POI, a POI override, default, POI-less, default) with Model as a recorder: each call hands Model the workspace's channels, the measurement's parameter settings and the POI THAT call asks for, and leaves the workspace's stored document unchanged", "HISTORY", floor=1)
    from .c16 import model_history
    model_history(ctx, r12, repo)
    r13 = ctx.rule("C12.R13", "DATA-HISTORY (interpreted): Workspace.data on a real Workspace object whose observations are listed in another order than the model's channels, called three times (with auxiliary data, again, without): each result is the observations of the model's channels in the MODEL's order followed by the model's auxiliary data iff requested; the stored observations and the model's auxiliary data are unchanged afterwards (a fresh accumulator per call)", "HISTORY", floor=1)
    _data_history(ctx, r13, repo)
    r14 = ctx.rule("C12.R14", "BUILD (interpreted, engine shared with C01.R11 / C03.R9 / C10.R6): _nominal_and_modifiers_from_spec with the real builders on a specification whose channels, samples and modifiers are listed OUT of order: the tensors are laid out in the configuration's sorted order", "SHARED", floor=1)
    from .c01 import _build_end_to_end, registry
    _build_end_to_end(ctx, r14, registry(repo))

    # ------------------------------------------------------------ R1
    sites = [(PDF, "_ModelConfig._create_and_register_paramsets"), (MIX, "_ChannelSummaryMixin.__init__"), (TC, "_tensorviewer_from_sizes")]
    for rel, q in sites:
        f = repo.func(rel, q)
        ctx.touch(f)
        loops = runoff.find_offset_loops(f.node)
        if not loops:
            # the bookkeeping is written without an explicit running offset (itertools.accumulate, a helper ...): what it computes decides
            if q == "_tensorviewer_from_sizes":
                _viewer_from_sizes_interpreted(ctx, r1, f)
            elif q == "_ChannelSummaryMixin.__init__" and ctx.rules["C12.R8"].instances and all(i[1] == "HOLDS" for i in ctx.rules["C12.R8"].instances):
                ctx.holds(r1, f"{rel}::{q}", "no explicit offset loop; the channel slices tile [0, total) in sorted channel order (interpreted, C12.R8)")
            elif q == "_ModelConfig._create_and_register_paramsets":
                pass  # interpreted just below
            else:
                ctx.unrecognised(r1, f, q, "no offset loop found")
            continue
        for loop, var in loops:
            res = runoff.analyse(loop, var)
            site = f"{rel}::{q} [{var}]"
            if res["ok"] and res.get("uses", 0) >= 1:
                ctx.holds(r1, site, f"{res['paths']} path(s), one advance by {res['width'][0]}, window taken first")
            elif res["ok"]:
                ctx.violated(r1, f, f"{var} window", f"`{var}` is advanced but no slice [{var}, {var}+n) is taken in the loop", node=loop)
            else:
                ctx.violated(r1, f, f"{var} in loop over {A.short(loop.iter, 30)}", f"slices do not tile: {res['why']}", expected="one advance per iteration by the width of the slice taken", node=loop)
    cr = repo.func(PDF, "_ModelConfig._create_and_register_paramsets")
    try:
        pa_, pb_ = Obj("PA", {"n_parameters": Poly.const(1)}), Obj("PB", {"n_parameters": Poly.const(2)})
        attrs = {"_par_order": [], "par_map": {}}
        ext = {"slice": lambda a, k: ("slice", int(to_poly(a[0]).const_value()), int(to_poly(a[1]).const_value()))}
        Interp({"required_paramsets": {"a": pa_, "b": pb_}, "log": Obj("log")}, attrs, {}, cls_name="_ModelConfig", externals=ext).run(A.strip_docstring(cr.node.body))
        pmv = attrs["par_map"]
        ok = attrs["_par_order"] == ["a", "b"] and list(pmv) == ["a", "b"] and pmv["a"]["slice"] == ("slice", 0, 1) and pmv["b"]["slice"] == ("slice", 1, 3) and pmv["a"]["paramset"] is pa_ and pmv["b"]["paramset"] is pb_
        if ok:
            ctx.holds(r1, f"{PDF}::_create_and_register_paramsets", "par_order [a, b]; par_map[a] = slice(0,1)/PA, par_map[b] = slice(1,3)/PB (interpreted)")
        else:
            ctx.violated(r1, cr, "par_order / par_map registration", "the slice, the paramset and the name registered in one iteration do not belong together (or the slices do not tile)", expected="a: slice(0,1), b: slice(1,3)", found=str({k: v.get("slice") for k, v in pmv.items()}) + f" order={attrs['_par_order']}")
    except (Undecided, KeyError, TypeError) as e:
        ctx.unrecognised(r1, cr, "_create_and_register_paramsets", f"not interpretable: {e}")

    # ------------------------------------------------------------ R2
    cfgc = repo.cls(PDF, "_ModelConfig")
    pa = Obj("pa", {"suggested_init": [Poly.atom("ia")], "suggested_bounds": [(Poly.const(0), Poly.const(1))], "suggested_fixed": [False], "is_scalar": True, "n_parameters": Poly.const(1)})
    pb = Obj("pb", {"suggested_init": [Poly.atom("ib0"), Poly.atom("ib1")], "suggested_bounds": [(Poly.const(0), Poly.const(2)), (Poly.const(0), Poly.const(3))], "suggested_fixed": [True, False], "is_scalar": False, "n_parameters": Poly.const(2)})
    par_map = {"a": {"paramset": pa, "slice": Obj("sa")}, "b": {"paramset": pb, "slice": Obj("sb")}}
    attrs = {"par_order": ["a", "b"], "_par_order": ["a", "b"], "par_map": par_map}
    methods = {k: v.node for k, v in cfgc.methods.items()}
    expect = {
        "suggested_init": lambda v: [str(to_poly(x)) for x in v] == ["ia", "ib0", "ib1"],
        "suggested_bounds": lambda v: [tuple(str(to_poly(y)) for y in b) for b in v] == [("0", "1"), ("0", "2"), ("0", "3")],
        "suggested_fixed": lambda v: list(v) == [False, True, False],
        "par_names": lambda v: len(v) == 3 and v[0] == "a",
    }
    for mname, pred in expect.items():
        m = cfgc.methods.get(mname)
        if m is None:
            ctx.violated(r2, cfgc, mname, f"_ModelConfig.{mname} vanished")
            continue
        ctx.touch(m)
        try:
            v = Interp({}, dict(attrs), {}, cls_name="_ModelConfig", methods=methods).run(A.strip_docstring(m.node.body))
            if pred(v):
                ctx.holds(r2, f"{PDF}::_ModelConfig.{mname}", f"3 entries in par_order: {[str(x) for x in v]}")
            else:
                ctx.violated(r2, m, mname, f"{mname} does not yield exactly one entry per parameter component in par_order", expected="entries of a then b0, b1", found=str([str(x) for x in v]))
        except Undecided as e:
            ctx.unrecognised(r2, m, mname, f"not interpretable: {e}")
    ps_init = repo.method("src/pyhf/parameters/paramsets.py", "paramset", "__init__")
    ctx.touch(ps_init)
    okp = any(isinstance(n, ast.If) and "is_scalar" in A.unparse(n.test) and "n_parameters" in A.unparse(n.test) and any(isinstance(x, ast.Raise) for x in n.body) for n in ast.walk(ps_init.node))
    if okp:
        ctx.holds(r2, "src/pyhf/parameters/paramsets.py::paramset.__init__", "scalar with n_parameters != 1 is refused")
    else:
        ctx.violated(r2, ps_init, "scalar/size invariant", "a scalar parameter set with more than one component is accepted: par_names would have fewer entries than the parameter vector", node=ps_init.node)

    # ------------------------------------------------------------ R3
    mi = repo.method(PDF, "Model", "__init__")
    wi = repo.method(WS, "Workspace", "__init__")
    for f in (mi, wi):
        ctx.touch(f)
        _copy_on_entry(ctx, r3, f)
    for mname in ("model", "data", "build", "get_measurement"):
        m = repo.method(WS, "Workspace", mname)
        ctx.touch(m)
        _no_mutation(ctx, r3, m)

    # ------------------------------------------------------------ R4
    mx = repo.method(MIX, "_ChannelSummaryMixin", "__init__")
    ctx.touch(mx)
    for attr in ("_channels", "_samples", "_modifiers"):
        full = f"self.{attr}"
        events = []
        for n in A.walk_ordered(mx.node, into_defs=False):
            if isinstance(n, ast.Assign) and any(A.dotted(t) == full for t in n.targets):
                events.append(("assign", n))
            elif isinstance(n, ast.AnnAssign) and A.dotted(n.target) == full:
                events.append(("init", n))
            elif isinstance(n, ast.Call) and A.call_attr(n) == "append" and A.dotted(n.func.value) == full:
                events.append(("append", n))
            elif isinstance(n, ast.Attribute) and isinstance(n.ctx, ast.Load) and A.dotted(n) == full:
                events.append(("read", n))
        # reads that are the receiver of append or inside the sorting assignment itself are fine
        sorted_assign = [n for k, n in events if k == "assign" and _is_sorted_set(n.value, full)]
        if not sorted_assign:
            ctx.violated(r4, mx, full, f"`{full}` is never re-assigned sorted(set(...)): its order is the listing order of the specification (or the hash order of a set)", expected=f"{full} = sorted(set({full}))", node=mx.node)
            continue
        sa = sorted_assign[0]
        bad = None
        for k, n in events:
            if k == "read" and n.lineno < sa.lineno:
                par_ok = any(n is c.func.value for kk, c in events if kk == "append")
                if not par_ok:
                    bad = n
        if bad is not None:
            ctx.violated(r4, mx, bad, f"`{full}` is read before it is sorted", node=bad)
        else:
            ctx.holds(r4, f"{MIX}::_ChannelSummaryMixin.__init__: {full}", "append-only, then sorted(set(...)) before any other read")
    # channel_nbins rebuilt in sorted order / slices loop iterates the sorted list
    sl_loops = [n for n in ast.walk(mx.node) if isinstance(n, ast.For) and "_channel_slices" in A.unparse(n)]
    if sl_loops and A.unparse(sl_loops[0].iter) == "self._channels" and sl_loops[0].lineno > max([n.lineno for n in ast.walk(mx.node) if isinstance(n, ast.Assign) and any(A.dotted(t) == "self._channels" for t in n.targets)] or [10 ** 9]):
        ctx.holds(r4, f"{MIX}::_ChannelSummaryMixin.__init__", "channel slices built over the sorted channel list")
    else:
        ctx.violated(r4, mx, "channel slice loop", "channel slices are not built over the sorted channel list the configuration reports", node=mx.node)
    nm = repo.func(PDF, "_nominal_and_modifiers_from_spec")
    ctx.touch(nm)
    pmn = A.parent_map(nm.node)
    builder_vars = set()
    for n in ast.walk(nm.node):
        if isinstance(n, ast.Assign):
            v = n.value
            if (isinstance(v, ast.Call) and A.call_attr(v) == "_nominal_builder") or (isinstance(v, ast.DictComp) and "modifier_set" in A.unparse(v.generators[0].iter) and isinstance(v.value, ast.Call)):
                builder_vars |= set(A.assigned_names(n.targets[0]))
    appends = [c for c in A.calls_in(nm.node) if A.call_attr(c) == "append" and isinstance(c.func.value, (ast.Subscript, ast.Name)) and ((A.dotted(c.func.value) in builder_vars) or (isinstance(c.func.value, ast.Subscript) and A.dotted(c.func.value.value) in builder_vars))]
    if len(appends) < 2:
        ctx.unrecognised(r4, nm, "builder.append", "builder append calls not found")
    for c in appends:
        loops = []
        cur = pmn.get(c)
        while cur is not None:
            if isinstance(cur, ast.For):
                loops.append(A.unparse(cur.iter))
            cur = pmn.get(cur)
        okl = all(it in ("config.channels", "config.samples", "config.modifiers") for it in loops) and loops
        if okl:
            ctx.holds(r4, f"{PDF}::_nominal_and_modifiers_from_spec: {A.short(c, 50)}", f"driven by {loops}")
        else:
            ctx.violated(r4, nm, c, f"builder data are appended in a loop over {loops}: the tensor layout follows the listing order of the specification instead of the sorted configuration order", expected="loops over config.channels / config.samples / config.modifiers", node=c)
    # spec loops: only name-keyed registration
    for loop in [n for n in ast.walk(nm.node) if isinstance(n, ast.For) and "spec[" in A.unparse(n.iter)]:
        effects = []
        for st in ast.walk(loop):
            if isinstance(st, ast.Call) and A.call_attr(st) in ("append", "extend", "insert") and not isinstance(pmn.get(st), ast.Expr) is False:
                tgt = A.unparse(st.func.value)
                effects.append(tgt)
        lists = [e for e in effects if e not in ("",)]
        if lists:
            ctx.violated(r4, nm, loop, f"the loop over {A.short(loop.iter, 30)} appends to {lists}: an order-dependent effect on caller-ordered input", node=loop)
        else:
            ctx.holds(r4, f"{PDF}::_nominal_and_modifiers_from_spec: loop over {A.short(loop.iter, 30)}", "only dict/set registration keyed by names")

    # ------------------------------------------------------------ R5
    wd = repo.method(WS, "Workspace", "data")
    red = [c for c in A.calls_in(wd.node) if A.call_attr(c) == "reduce"]
    if not red:
        ctx.unrecognised(r5, wd, "data", "no functools.reduce accumulation found")
    else:
        c = red[0]
        gen = c.args[1] if len(c.args) > 1 else None
        init = c.args[2] if len(c.args) > 2 else None
        if isinstance(gen, (ast.GeneratorExp, ast.ListComp)) and A.unparse(gen.generators[0].iter) == "model.config.channels" and "self.observations" in A.unparse(gen.elt):
            ctx.holds(r5, f"{WS}::Workspace.data", "observations concatenated over model.config.channels")
        else:
            ctx.violated(r5, wd, c, "observed data are not concatenated in the model's channel order", expected="(self.observations[c] for c in model.config.channels)", node=c)
        if init is not None and isinstance(init, ast.List) and not init.elts:
            ctx.holds(r5, f"{WS}::Workspace.data", "fresh accumulator []")
        else:
            ctx.violated(r3, wd, c, "operator.iadd accumulates into the first channel's observation list (no fresh initial accumulator): calling data() grows the workspace's own observations", expected="functools.reduce(operator.iadd, ..., [])", node=c)
    aux = [n for n in ast.walk(wd.node) if isinstance(n, ast.If) and "include_auxdata" in A.unparse(n.test)]
    acc = {nm for n in ast.walk(wd.node) if isinstance(n, ast.Assign) and any(A.call_attr(c) == "reduce" for c in A.calls_in(n.value)) for nm in A.assigned_names(n.targets[0])}
    if aux and any(isinstance(s, ast.AugAssign) and "model.config.auxdata" in A.unparse(s.value) and A.unparse(s.target) in acc for s in aux[0].body):
        ctx.holds(r5, f"{WS}::Workspace.data", "auxdata appended iff include_auxdata")
    else:
        ctx.violated(r5, wd, "include_auxdata", "auxiliary data are not appended (exactly) when requested", node=wd.node)
    wb = repo.method(WS, "Workspace", "build")
    okb = False
    for n in ast.walk(wb.node):
        if isinstance(n, ast.ListComp) and A.unparse(n.generators[0].iter) == "model.config.channels":
            k = A.unparse(n.generators[0].target)
            if f"model.config.channel_slices[{k}]" in A.unparse(n.elt) and f"'name': {k}" in A.unparse(n.elt):
                okb = True
    if okb:
        ctx.holds(r5, f"{WS}::Workspace.build", "observations[k] = data[channel_slices[k]] for k in config.channels")
    else:
        ctx.violated(r5, wb, "observations", "build does not cut the data vector with the model's channel slices", node=wb.node)

    # ------------------------------------------------------------ R6
    redf = repo.func(PU, "reduce_paramsets_requirements")
    ctx.touch(redf)
    keys = None
    for n in repo.walk_with_tables(redf):  # a local list or a module-level tuple of key names
        if isinstance(n, (ast.List, ast.Tuple)) and len(n.elts) >= 5 and all(isinstance(A.const_value(e), str) for e in n.elts) and "inits" in [A.const_value(e) for e in n.elts]:
            keys = [A.const_value(e) for e in n.elts]
    if keys is None:
        ctx.unrecognised(r6, redf, "paramset_keys", "list of parameter keys not found")
    else:
        configurable = [k for k in keys if k not in STRUCTURAL_KEYS]
        written = set()
        for n in ast.walk(wb.node):
            if isinstance(n, ast.Dict) and any(A.const_value(k) == "inits" for k in n.keys if k is not None):
                for k in n.keys:
                    if k is not None and isinstance(A.const_value(k), str):
                        written.add(A.const_value(k))
                # **{key: ... for key in ('auxdata', ...)} style
                for k, v in zip(n.keys, n.values):
                    if k is None:
                        for c in ast.walk(v):
                            cv = A.const_value(c) if isinstance(c, (ast.Tuple, ast.List, ast.Constant)) else None
                            if isinstance(cv, str):
                                written.add(cv)
                            elif isinstance(cv, (tuple, list)):
                                written |= {x for x in cv if isinstance(x, str)}
        for k in configurable:
            if k in written:
                ctx.holds(r6, f"{WS}::Workspace.build writes `{k}`")
            else:
                ctx.violated(r6, wb, f"parameters[...]['{k}']", f"Workspace.build does not write the per-parameter setting `{k}` that the model reads back: rebuilding a workspace from a model loses it ({'a model with a luminosity modifier cannot be rebuilt at all' if k in ('auxdata', 'sigmas') else 'overrides are silently lost'})", expected=f"'{k}' written when the parameter set defines it", found=f"keys written: {sorted(written)}", node=wb.node)


def _is_sorted_set(v, full):
    txt = A.unparse(v).replace(" ", "")
    return txt.startswith("sorted(") and "set(" in txt and full in txt


def _copy_on_entry(ctx, rid, f):
    """The first statement touching parameter `spec` must be `<x> = copy.deepcopy(spec)`; afterwards the bare parameter
    is not used unless it was rebound to the copy."""
    g = CFG.build(f.node.body)
    dom = g.dominators()
    copies = []
    for n in ast.walk(f.node):
        if isinstance(n, ast.Assign) and isinstance(n.value, ast.Call) and (A.call_name(n.value) or "").endswith("deepcopy") and n.value.args and A.dotted(n.value.args[0]) == "spec":
            copies.append(n)
    site = f"{f.relpath}::{f.qualname}"
    if not copies:
        ctx.violated(rid, f, "copy.deepcopy(spec)", "the caller's specification is used without a deep copy: later normalisation/validation steps can modify the caller's object", expected="spec = copy.deepcopy(spec) on entry", node=f.node)
        return
    cp = copies[0]
    rebinds = any(isinstance(t, ast.Name) and t.id == "spec" for t in cp.targets)
    pm = A.parent_map(f.node)
    bad = []
    for n in A.walk_ordered(f.node, into_defs=False):
        if isinstance(n, ast.Name) and n.id == "spec" and isinstance(n.ctx, ast.Load):
            st = A.stmt_of(n, pm)
            if st is cp:
                continue
            if rebinds and g.dominates(cp, st, dom):
                continue
            if not rebinds and g.dominates(cp, st, dom):
                bad.append((n, "used after the copy was made (the copy must be used instead)"))
            else:
                bad.append((n, "used before / without the deep copy"))
    if bad:
        n, why = bad[0]
        ctx.violated(rid, f, A.stmt_of(n, pm), f"the caller's `spec` object is {why}", expected="only the deep copy is used", node=n)
    else:
        ctx.holds(rid, site, f"`{A.short(cp, 50)}` dominates every use of the specification")


def _no_mutation(ctx, rid, m):
    """No mutation sink whose receiver derives from self[...] / self.attr payload, model.spec, model.config.*"""
    d = Deps(m.node)
    site = f"{m.relpath}::{m.qualname}"
    owned_roots = ("self", "model", "workspace")
    fresh = set()
    for n in ast.walk(m.node):
        if isinstance(n, ast.Assign) and len(n.targets) == 1 and isinstance(n.targets[0], ast.Name):
            v = n.value
            if isinstance(v, (ast.Dict, ast.List, ast.ListComp, ast.DictComp)) or (isinstance(v, ast.Call) and (A.call_name(v) or "").split(".")[-1] in ("deepcopy", "dict", "list", "reduce", "apply")):
                fresh.add(n.targets[0].id)
    # containers made here whose ELEMENTS are still the caller's objects (a dict literal of self[...] values):
    # fresh at the top level only
    shallow = set()
    for n in ast.walk(m.node):
        if isinstance(n, ast.Assign) and len(n.targets) == 1 and isinstance(n.targets[0], ast.Name) and isinstance(n.value, (ast.Dict, ast.List, ast.ListComp, ast.DictComp, ast.Tuple)):
            inner = set()
            for x in ast.walk(n.value):
                if isinstance(x, ast.Call) and (A.call_name(x) or "").split(".")[-1] == "deepcopy":
                    continue
                if isinstance(x, ast.Name):
                    inner.add(x.id)
            if any(r in owned_roots for r in inner) or any(r in owned_roots for r in d.roots_of(n.value)):
                shallow.add(n.targets[0].id)
    bad = []
    for n in ast.walk(m.node):
        # deep in-place operations (jsonpatch.apply(doc, in_place=True) and the like) write into everything reachable
        if isinstance(n, ast.Call) and any(k.arg in ("in_place", "inplace") and A.const_value(k.value) is True for k in n.keywords) and n.args:
            tgt = n.args[0]
            head0 = (A.dotted(tgt) or A.unparse(tgt)).split(".")[0].split("[")[0]
            if head0 in owned_roots or head0 in shallow or (head0 not in fresh and any(r in owned_roots for r in d.roots_of(tgt))):
                bad.append(n)
                continue
    for n in ast.walk(m.node):
        recv = None
        what = None
        if isinstance(n, ast.Call) and isinstance(n.func, ast.Attribute) and n.func.attr in MUTATORS:
            recv, what = n.func.value, n
        elif isinstance(n, (ast.Assign, ast.AugAssign)):
            for t in (n.targets if isinstance(n, ast.Assign) else [n.target]):
                if isinstance(t, ast.Subscript):
                    recv, what = t.value, n
                elif isinstance(n, ast.AugAssign) and isinstance(t, (ast.Attribute,)):
                    recv, what = t, n
                elif isinstance(n, ast.AugAssign) and isinstance(t, ast.Name) and t.id not in fresh:
                    recv, what = t, n
        if recv is None:
            continue
        base = A.dotted(recv) or A.unparse(recv)
        head = base.split(".")[0].split("[")[0]
        if head in fresh:
            continue
        if head in owned_roots or any(r in owned_roots for r in d.roots_of(recv) if r not in fresh and r == head):
            # config_kwargs.setdefault etc. are own kwargs: allowed
            bad.append(what)
    if bad:
        ctx.violated(rid, m, bad[0], f"`{A.short(bad[0], 70)}` writes into data owned by the workspace / model passed in", expected="work on fresh copies", node=bad[0])
    else:
        ctx.holds(rid, site, "no write into self/model-owned data")


def _overrides(ctx, rid, repo):
    rel = "src/pyhf/parameters/utils.py"
    red = repo.func(rel, "reduce_paramsets_requirements")
    ctx.touch(red)
    at = Poly.atom

    def default_req():
        return {"paramset_type": "constrained_by_poisson", "n_parameters": Poly.const(2), "is_scalar": False,
                "inits": (at("DI0"), at("DI1")), "bounds": ((at("DL0"), at("DH0")), (at("DL1"), at("DH1"))),
                "auxdata": (at("DA0"), at("DA1")), "factors": (at("DF0"), at("DF1")), "fixed": (False, True)}

    def show(v):
        if isinstance(v, (list, tuple)):
            return [show(x) for x in v]
        if isinstance(v, (bool, str)) or v is None:
            return v
        return str(to_poly(v))

    cases = [
        ("inits", [at("UI0"), at("UI1")]), ("bounds", [[at("UL0"), at("UH0")], [at("UL1"), at("UH1")]]),
        ("auxdata", [at("UA0"), at("UA1")]), ("factors", [at("UF0"), at("UF1")]),
        ("fixed", True), ("fixed", False), ("inits", [Poly(), Poly()]), (None, None),
    ]
    for key, uval in cases:
        user = {} if key is None else {"q": {key: uval}}
        lab = "no override" if key is None else f"{key} = {show(uval)}"
        site = f"{rel}::reduce_paramsets_requirements [{lab}]"
        try:
            out = Interp({"paramsets_requirements": {"q": [default_req(), default_req()]}, "paramsets_user_configs": user, "exceptions": Obj("exc")}, {}, {}).run(A.strip_docstring(red.node.body))
            got = out["q"]
            want = {k: (list(v) if isinstance(v, tuple) else v) for k, v in default_req().items()}
            if key is not None:
                want[key] = uval
            bad = [k for k in ("inits", "bounds", "auxdata", "factors", "fixed", "n_parameters", "paramset_type") if show(got.get(k)) != show(want[k])]
            if not bad and got.get("name") == "q":
                ctx.holds(rid, site, "user value verbatim, other keys at their defaults")
            else:
                k0 = bad[0] if bad else "name"
                ctx.violated(rid, red, f"merged settings [{lab}]", "a per-parameter setting given in the measurement is not the merged value verbatim (a falsy value such as fixed = False must win over the default too), or a key that was not overridden lost its default", expected=f"{k0} = {show(want.get(k0))}", found=f"{k0} = {show(got.get(k0))}")
        except RaisedInFragment as e:
            ctx.violated(rid, red, f"merged settings [{lab}]", f"a parameter that two modifiers require with EQUAL requirements (one name shared by a normsys and a histosys, say) and a well-formed override is refused with {e.exc_name}: the parameter must be created once, from the common requirement and the override")
        except (Undecided, KeyError, TypeError, ValueError, AttributeError) as e:
            ctx.unrecognised(rid, red, f"reduce_paramsets_requirements [{lab}]", f"not interpretable: {type(e).__name__}: {e}")


def _summary_interpreted(ctx, rid, repo):
    from ..objmodel import Instance, World
    mc = repo.cls(MIX, "_ChannelSummaryMixin")
    at = Poly.atom

    def smp(name, n, mods):
        return {"name": name, "data": [at(f"{name}{j}") for j in range(n)], "modifiers": [{"name": a_, "type": t_, "data": None} for a_, t_ in mods]}

    channels = [
        {"name": "SR", "samples": [smp("sig", 3, [("mu", "normfactor"), ("sys", "normsys")]), smp("bkg", 3, [("sys", "normsys"), ("sys", "histosys")])]},
        {"name": "CR", "samples": [smp("bkg", 1, [("sys", "normsys"), ("lumi", "lumi")])]},
        {"name": "VR", "samples": [smp("bkg", 2, [("alt", "shapefactor")]), smp("aux", 2, [])]},
    ]
    try:
        w = World({"__strict__": True}, module_env={"log": Obj("log")})
        w.add_class(mc)
        inst = Instance(mc)
        w.call_method(inst, "__init__", [], {"channels": channels})
        a = inst.attrs
        sl = a.get("_channel_slices") or {}

        def bounds(v):
            if isinstance(v, slice):
                return (v.start, v.stop)
            if isinstance(v, Obj):
                return (v.attrs.get("start"), v.attrs.get("stop"))
            return (None, None)

        got = {
            "channels": list(a.get("_channels") or []), "samples": list(a.get("_samples") or []), "modifiers": [tuple(x) for x in (a.get("_modifiers") or [])],
            "channel_nbins": [(k, int(to_poly(v).const_value())) for k, v in (a.get("_channel_nbins") or {}).items()],
            "channel_slices": [(k, tuple(int(to_poly(x).const_value()) for x in bounds(v))) for k, v in sl.items()],
        }
        want = {
            "channels": ["CR", "SR", "VR"], "samples": ["aux", "bkg", "sig"],
            "modifiers": [("alt", "shapefactor"), ("lumi", "lumi"), ("mu", "normfactor"), ("sys", "histosys"), ("sys", "normsys")],
            "channel_nbins": [("CR", 1), ("SR", 3), ("VR", 2)], "channel_slices": [("CR", (0, 1)), ("SR", (1, 4)), ("VR", (4, 6))],
        }
        bad = [k for k in want if got[k] != want[k]]
        if bad:
            ctx.violated(rid, mc.methods["__init__"], f"channel summary: {bad[0]}", f"the `{bad[0]}` the configuration reports are not sorted / unique / tiling the main data in the reported channel order (the data vector is laid out in sorted channel order whatever the listing order)", expected=str(want[bad[0]]), found=str(got[bad[0]]))
        else:
            ctx.holds(rid, f"{MIX}::_ChannelSummaryMixin.__init__ [interpreted]", str(want["channel_slices"]))
    except (Undecided, KeyError, TypeError, ValueError, IndexError, AttributeError) as e:
        ctx.unrecognised(rid, mc, "_ChannelSummaryMixin.__init__", f"not interpretable: {type(e).__name__}: {e}")


def _rebuild_interpreted(ctx, rid, repo):
    from ..alg import AutoRegion, NotHandled, PyFunc, RaisedInFragment, same_value
    from ..objmodel import Instance, World
    from .c01 import registry
    at, c = Poly.atom, Poly.const
    PS = "src/pyhf/parameters/paramsets.py"
    PU_ = "src/pyhf/parameters/utils.py"
    red = repo.func(PU_, "reduce_paramsets_requirements")
    wsc = repo.cls(WS, "Workspace")
    build = wsc.methods["build"]
    reg = registry(repo)
    errs = (Undecided, KeyError, TypeError, ValueError, IndexError, AttributeError)

    def show(v):
        if isinstance(v, (list, tuple)):
            return [show(x) for x in v]
        if isinstance(v, dict):
            return {k: show(x) for k, x in v.items()}
        if v is None or isinstance(v, (bool, str)):
            return v
        return str(to_poly(v))

    for typ, (b, _c) in sorted(reg.items()):
        rp = b.module.funcs.get("required_parset")
        if rp is None:
            ctx.unrecognised(rid, b, typ, "module has no required_parset")
            continue
        ctx.touch(rp)
        site = f"{rp.relpath}::required_parset -> Workspace.build -> merge [{typ}]"
        try:
            params = A.params_of(rp.node)
            args = [[False, False] if pn == "fixed" else [at(f"{typ}_{pn}0"), at(f"{typ}_{pn}1")] for pn in params]
            region = AutoRegion()
            req = Interp(dict(zip(params, args)), {}, region).run(A.strip_docstring(rp.node.body))
            if not isinstance(req, dict):
                raise Undecided("required_parset does not return a dict")
            needs = {k: v for k, v in req.items() if v is None}
            n = int(to_poly(req["n_parameters"]).const_value())
            # the measurement overrides every constraint setting this modifier type HAS (auxdata, sigmas, factors, inits), not only the
            # ones it requires: an override the rebuilt workspace does not carry silently falls back to the modifier's default
            over = [k for k in req if k in needs or k in ("inits", "auxdata", "sigmas", "factors")]
            user0 = {"p": {k: ([[at(f"U_{k}_lo"), at(f"U_{k}_hi")]] * n if k == "bounds" else [at(f"U_{k}{j}") for j in range(n)]) for k in over}}

            def merge(user):
                return Interp({"paramsets_requirements": {"p": [dict(req)]}, "paramsets_user_configs": user, "exceptions": Obj("exceptions")}, {}, region).run(A.strip_docstring(red.node.body))["p"]

            m1 = merge(user0)
            w = World({"__strict__": True, "cls": lambda a_, k_: a_[0]}, region=region, module_env={"schema": Obj("schema", {"version": "1.0.0"}), "copy": None, "pyhf": Obj("pyhf")})
            w.module_env.pop("copy")
            for cn, cls_ in repo.module(PS).classes.items():
                w.add_class(cls_)
            w.add_class(wsc)
            pcls = repo.module(PS).classes.get(m1["paramset_type"])
            if pcls is None:
                raise Undecided(f"unknown paramset type {m1['paramset_type']}")
            pobj = w.new(pcls, [], {k: v for k, v in m1.items() if k != "paramset_type"})
            cfg = Obj("config", {"poi_name": "p", "par_map": {"p": {"paramset": pobj, "slice": Obj("slice", {"start": c(0), "stop": c(n), "step": None})}}, "channels": ["ca", "cb"],
                                 "channel_slices": {"cb": Obj("slice", {"start": c(1), "stop": c(3), "step": None}), "ca": Obj("slice", {"start": c(0), "stop": c(1), "step": None})}})
            model = Obj("model", {"config": cfg, "spec": {"channels": [{"name": "cb", "samples": []}, {"name": "ca", "samples": []}]}})
            out = w.call_func(build, [Obj("cls"), model, [at("d0"), at("d1"), at("d2")]], {"name": "meas"})
            pcfg = [p_ for p_ in out["measurements"][0]["config"]["parameters"] if p_.get("name") == "p"]
            if len(pcfg) != 1:
                raise Undecided("build does not write exactly one entry for the parameter")
            obs = {o_["name"]: show(o_["data"]) for o_ in out["observations"]}
            if obs != {"ca": ["d0"], "cb": ["d1", "d2"]} or [o_["name"] for o_ in out["observations"]] != ["ca", "cb"]:
                ctx.violated(rid, build, f"observations written by build [{typ}]", "the data vector is not cut into the channels with the configuration's own slices, in the configuration's channel order", expected="{'ca': ['d0'], 'cb': ['d1', 'd2']}", found=str(obs))
                continue
            user1 = {"p": {k: v for k, v in pcfg[0].items() if k != "name"}}
            m2 = merge(user1)
            diff = []
            for k in ("inits", "bounds", "auxdata", "sigmas", "factors"):
                a_, b_ = m1.get(k), m2.get(k)
                if isinstance(a_, set) or isinstance(b_, set) or a_ is None or b_ is None:
                    if (a_ is None or isinstance(a_, set)) != (b_ is None or isinstance(b_, set)):
                        diff.append(k)
                    continue
                fa, fb = [x for row in a_ for x in (row if isinstance(row, (list, tuple)) else [row])], [x for row in b_ for x in (row if isinstance(row, (list, tuple)) else [row])]
                if len(fa) != len(fb) or not all(same_value(x, y) is True for x, y in zip(fa, fb)):
                    diff.append(k)
            f1 = m1.get("fixed")
            f2 = m2.get("fixed")
            norm = lambda f_: [f_] * n if isinstance(f_, bool) else list(f_)
            if norm(f1) != norm(f2):
                diff.append("fixed")
            if diff:
                ctx.violated(rid, build, f"rebuild [{typ}]", f"the settings Workspace.build writes for a {typ} parameter do not reproduce the parameter when the workspace is turned into a model again: {diff[0]} differs", expected=str(show(m1.get(diff[0]))), found=str(show(m2.get(diff[0]))))
            else:
                ctx.holds(rid, site, f"build writes {sorted(user1['p'])}; merged again: same inits / bounds / fixed / constraint settings")
        except RaisedInFragment as e:
            ctx.violated(rid, build, f"rebuild [{typ}]", f"the measurement Workspace.build writes for a {typ} parameter is refused when the workspace is turned into a model again ({e.exc_name}): build emits a setting this modifier type does not use, or omits one it requires")
        except errs as e:
            ctx.unrecognised(rid, build, f"rebuild [{typ}]", f"not interpretable: {type(e).__name__}: {e}")


def _paramset_history(ctx, rid, repo):
    from ..alg import RaisedInFragment
    from ..objmodel import Instance, World
    PS = "src/pyhf/parameters/paramsets.py"
    mod = repo.module(PS)
    base = repo.cls(PS, "paramset")
    getter = base.methods.get("suggested_fixed")
    setter = mod.funcs.get("paramset.suggested_fixed#2")
    if getter is None or setter is None:
        ctx.unrecognised(rid, base, "paramset.suggested_fixed", "getter / setter not found")
        return
    ctx.touch(getter)
    ctx.touch(setter)
    errs = (Undecided, KeyError, TypeError, ValueError, IndexError, AttributeError)
    at = Poly.atom
    for cname, extra in (("unconstrained", {}), ("constrained_by_normal", {"auxdata": [at("a0"), at("a1"), at("a2")]}), ("constrained_by_poisson", {"auxdata": [at("a0"), at("a1"), at("a2")], "factors": [at("f0"), at("f1"), at("f2")]})):
        cls = mod.classes.get(cname)
        if cls is None:
            continue
        try:
            w = World({"__strict__": True}, module_env={"pyhf": Obj("pyhf")})
            for c_ in mod.classes.values():
                w.add_class(c_)
            inst = w.new(cls, [], {"name": "p", "n_parameters": Poly.const(3), "inits": [at("i0"), at("i1"), at("i2")], "bounds": [(at("l"), at("h"))] * 3, "fixed": False, "is_scalar": False, **extra})

            # what the constructor is given is what the set reports, whatever the fixed flags are
            for fixed_given in (False, True, [True, False, True]):
                more = dict(extra)
                if cname == "constrained_by_normal":
                    more["sigmas"] = [at("sg0"), at("sg1"), at("sg2")]
                probe = w.new(cls, [], {"name": "p", "n_parameters": Poly.const(3), "inits": [at("i0"), at("i1"), at("i2")], "bounds": [(at("l0"), at("h0")), (at("l1"), at("h1")), (at("l2"), at("h2"))], "fixed": fixed_given if isinstance(fixed_given, bool) else list(fixed_given), "is_scalar": False, **more})
                want_attrs = {"suggested_init": ["i0", "i1", "i2"], "suggested_bounds": [["l0", "h0"], ["l1", "h1"], ["l2", "h2"]]}
                for k_, v_ in more.items():
                    want_attrs[k_] = [str(to_poly(x)) for x in v_]
                for k_, wv in want_attrs.items():
                    gv = probe.attrs.get(k_)
                    gs = [[str(to_poly(y)) for y in x] if isinstance(x, (list, tuple)) else str(to_poly(x)) for x in gv] if isinstance(gv, (list, tuple)) else gv
                    if gs != wv:
                        ctx.violated(rid, cls.methods.get("__init__") or cls, f"{cname}(fixed={fixed_given}).{k_}", f"a {cname} parameter set constructed with {k_} = {wv} and fixed = {fixed_given} reports {gs}: the setting does not arrive verbatim (here it depends on the fixed flags), so the constraint term is built with another value than the measurement configured", expected=str(wv), found=str(gs))
                        break
                else:
                    continue
                break
            else:
                ctx.holds(rid, f"{PS}::{cname}(...) [fixed False / True / mixed]", "inits, bounds and constraint settings reported as given")

            def read():
                v = w.get_property(inst, "suggested_fixed")
                return list(v) if isinstance(v, (list, tuple)) else v

            def assign(value):
                env = {"self": inst, "value": value}
                from ..alg import Interp
                Interp(env, inst.attrs, {}, methods={n: m.node for n, m in w.methods_of(cls).items()}, cls_name=cls.name, externals=w.externals()).run(A.strip_docstring(setter.node.body))

            steps = [("as constructed (fixed=False)", None, [False, False, False]), ("after = True", True, [True, True, True]), ("after = [True, False, True]", [True, False, True], [True, False, True]),
                     ("after = False", False, [False, False, False]), ("after = [False, False, True]", [False, False, True], [False, False, True]), ("after = True again", True, [True, True, True])]
            problems = []
            for lab, value, want in steps:
                if value is not None:
                    assign(value if isinstance(value, bool) else list(value))
                got = read()
                if got != want:
                    problems.append(f"{lab}: reads {got}, assigned {want}")
            if problems:
                ctx.violated(rid, getter, f"{cname}.suggested_fixed across assignments", f"the fixed flags a {cname} parameter set reports are not the ones assigned last: {problems[0]} -- a fit with default arguments then holds the wrong parameters constant", expected="what was assigned last, one entry per component", found=f"{len(problems)} deviation(s)")
            else:
                ctx.holds(rid, f"{PS}::{cname}.suggested_fixed [6 assignments with reads in between]", "always what was assigned last")
        except RaisedInFragment as e:
            ctx.violated(rid, getter, f"{cname}.suggested_fixed", f"raises {e.exc_name}")
        except errs as e:
            ctx.unrecognised(rid, getter, f"{cname}.suggested_fixed", f"not interpretable: {type(e).__name__}: {e}")


def _config_accessors(ctx, rid, repo):
    from ..alg import RaisedInFragment
    from ..objmodel import Instance, World
    PS = "src/pyhf/parameters/paramsets.py"
    psm = repo.module(PS)
    mc = repo.cls(PDF, "_ModelConfig")
    mix = repo.cls(MIX, "_ChannelSummaryMixin")
    for m_ in mc.methods.values():
        ctx.touch(m_)
    at = Poly.atom
    errs = (Undecided, KeyError, TypeError, ValueError, IndexError, AttributeError)
    try:
        w = World({"__strict__": True}, module_env={"log": Obj("log"), "exceptions": Obj("exceptions"), "pyhf": Obj("pyhf"), "functools": Obj("functools"), "operator": Obj("operator")})
        w.add_class(mix).add_class(mc)
        for c_ in psm.classes.values():
            w.add_class(c_)

        def pset(cls, name, n, fixed, **extra):
            return w.new(psm.classes[cls], [], {"name": name, "n_parameters": Poly.const(n), "inits": [at(f"{name}_i{j}") for j in range(n)], "bounds": [(at(f"{name}_l{j}"), at(f"{name}_h{j}")) for j in range(n)], "fixed": fixed, "is_scalar": n == 1 and cls == "unconstrained", **extra})

        sets = [("zeta", pset("unconstrained", "zeta", 1, False)),
                ("beta", pset("constrained_by_normal", "beta", 2, [False, True], auxdata=[at("ba0"), at("ba1")])),
                ("mu", pset("unconstrained", "mu", 1, True)),
                ("alpha", pset("constrained_by_poisson", "alpha", 3, False, auxdata=[at("aa0"), at("aa1"), at("aa2")], factors=[at("af0"), at("af1"), at("af2")]))]
        spec = {"channels": [{"name": "c", "samples": [{"name": "s", "data": [at("d0")], "modifiers": [{"name": n_, "type": "normfactor", "data": None} for n_, _ in sets]}]}]}
        cfg = Instance(mc)
        w.call_method(cfg, "__init__", [spec], {})
        w.call_method(cfg, "set_parameters", [{n_: p_ for n_, p_ in sets}])
    except RaisedInFragment as e:
        ctx.violated(rid, mc, "_ModelConfig set up", f"raises {e.exc_name} on well-formed parameter sets")
        return
    except errs as e:
        ctx.unrecognised(rid, mc, "_ModelConfig set up", f"not interpretable: {type(e).__name__}: {e}")
        return
    order = [n_ for n_, _ in sets]
    sizes = {"zeta": 1, "beta": 2, "mu": 1, "alpha": 3}
    starts, pos = {}, 0
    for n_ in order:
        starts[n_] = pos
        pos += sizes[n_]

    def s_(v):
        if isinstance(v, (list, tuple)):
            return [s_(x) for x in v]
        return v if isinstance(v, (bool, str)) or v is None else str(to_poly(v))

    def sl(v):
        if isinstance(v, slice):
            return (v.start, v.stop)
        if isinstance(v, Obj):
            return tuple(int(to_poly(v.attrs.get(k_)).const_value()) for k_ in ("start", "stop"))
        return None

    def judge(label, got, want, where):
        if got == want:
            ctx.holds(rid, f"{PDF}::_ModelConfig.{label}", str(want)[:120])
        else:
            ctx.violated(rid, mc.methods.get(where) or mc, f"_ModelConfig.{label}", f"`{label}` of a configuration whose parameter sets were registered as {order} (sizes {[sizes[n_] for n_ in order]}) is not what the sets themselves say, in parameter order", expected=str(want)[:300], found=str(got)[:300])

    def call(name, *a):
        return w.call_method(cfg, name, list(a))

    try:
        judge("par_order", list(w.get_property(cfg, "par_order")), order, "par_order")
        judge("npars", int(to_poly(cfg.attrs.get("npars")).const_value()), pos, "set_parameters")
        judge("par_slice(name)", {n_: sl(call("par_slice", n_)) for n_ in order}, {n_: (starts[n_], starts[n_] + sizes[n_]) for n_ in order}, "par_slice")
        judge("param_set(name)", {n_: call("param_set", n_) is p_ for n_, p_ in sets}, {n_: True for n_ in order}, "param_set")
        judge("suggested_init()", s_(call("suggested_init")), [f"{n_}_i{j}" for n_ in order for j in range(sizes[n_])], "suggested_init")
        judge("suggested_bounds()", s_(call("suggested_bounds")), [[f"{n_}_l{j}", f"{n_}_h{j}"] for n_ in order for j in range(sizes[n_])], "suggested_bounds")
        judge("suggested_fixed()", s_(call("suggested_fixed")), [False, False, True, True, False, False, False], "suggested_fixed")
        judge("par_names", list(w.get_property(cfg, "par_names")), ["zeta", "beta[0]", "beta[1]", "mu", "alpha[0]", "alpha[1]", "alpha[2]"], "par_names")
        # what the accessors hand out is the caller's to edit (fixed = suggested_fixed(); fixed[poi] = True; fit(..., fixed_params=fixed))
        for acc, first_value in (("suggested_fixed", True), ("suggested_init", at("EDITED")), ("suggested_bounds", (at("EL"), at("EH")))):
            before = s_(call(acc))
            handed = call(acc)
            if isinstance(handed, list) and handed:
                handed[0] = first_value
                handed.append(first_value)
            judge(f"{acc}() after the list returned by an earlier call was edited", s_(call(acc)), before, acc)
        # ... also for a model with ONE parameter set (nothing to concatenate)
        w1 = World({"__strict__": True}, module_env={"log": Obj("log"), "exceptions": Obj("exceptions"), "pyhf": Obj("pyhf"), "functools": Obj("functools"), "operator": Obj("operator")})
        w1.add_class(mix).add_class(mc)
        for c_ in psm.classes.values():
            w1.add_class(c_)
        only = w1.new(psm.classes["unconstrained"], [], {"name": "mu", "n_parameters": Poly.const(1), "inits": [at("mu_i")], "bounds": [(at("mu_l"), at("mu_h"))], "fixed": False, "is_scalar": True})
        cfg1 = Instance(mc)
        w1.call_method(cfg1, "__init__", [{"channels": [{"name": "c", "samples": [{"name": "s", "data": [at("d0")], "modifiers": [{"name": "mu", "type": "normfactor", "data": None}]}]}]}], {})
        w1.call_method(cfg1, "set_parameters", [{"mu": only}])
        for acc, first_value, want1 in (("suggested_fixed", True, [False]), ("suggested_init", at("EDITED"), ["mu_i"]), ("suggested_bounds", (at("EL"), at("EH")), [["mu_l", "mu_h"]])):
            handed = w1.call_method(cfg1, acc, [])
            if isinstance(handed, list) and handed:
                handed[0] = first_value
            got1 = s_(w1.call_method(cfg1, acc, []))
            if got1 == want1:
                ctx.holds(rid, f"{PDF}::_ModelConfig.{acc}() [one parameter set; the list handed out earlier was edited]", str(want1))
            else:
                ctx.violated(rid, mc.methods.get(acc) or mc, f"_ModelConfig.{acc}() of a one-parameter-set model", f"editing the list `{acc}()` returned (the documented way to build fixed_params / init_pars for a fit) changes the MODEL: the accessor hands out the parameter set's own list, so e.g. a POI fixed for one fit stays fixed and every later hypothesis test on the model is refused", expected=str(want1), found=str(got1))
        call("set_poi", "mu")
        judge("set_poi('mu') -> poi_name, poi_index", (w.get_property(cfg, "poi_name"), int(to_poly(w.get_property(cfg, "poi_index")).const_value())), ("mu", starts["mu"]), "set_poi")
        for bad, why in (("alpha", "a parameter set with several components"), ("nope", "a name the model does not declare")):
            try:
                call("set_poi", bad)
                ctx.violated(rid, mc.methods["set_poi"], f"set_poi({bad!r})", f"{why} is accepted as parameter of interest", expected="raise InvalidModel")
            except RaisedInFragment as e:
                if e.exc_name.split(".")[-1] == "InvalidModel":
                    ctx.holds(rid, f"{PDF}::_ModelConfig.set_poi({bad!r})", "refused with InvalidModel")
                else:
                    ctx.violated(rid, mc.methods["set_poi"], f"set_poi({bad!r})", f"raises {e.exc_name}", expected="InvalidModel")
    except RaisedInFragment as e:
        ctx.violated(rid, mc, "_ModelConfig accessors", f"an accessor raises {e.exc_name}")
    except errs as e:
        ctx.unrecognised(rid, mc, "_ModelConfig accessors", f"not interpretable: {type(e).__name__}: {e}")
