"""C05 -- maximum-likelihood fits: the wiring a feasible, honest fit needs.

  R1 PAIR   fit pairs each fixed index with the initial value at the same position
  R2 EFFECT fixed_poi_fit writes the POI value and the fixed flag into COPIES and forwards everything
  R3 FWD    bounds / fixed values / start values reach both minimisers through shim on
            the stitch and the no-stitch arm, filtered by the same variable index list
  R4 SIB    every shim arm evaluates objective(stitch_pars(pars), data, pdf); twice_nll = -2 logpdf;
            the stitcher defaults to the supplied fixed values and puts them first (viewer order)
  R5 DEP    post-processing stitches the fixed values back; minimize returns
            [x] + [corr]? + [fun]? + [result]? (8 configurations, exhaustive)
  R6 ORDER  the success flag is checked on every path before a result is returned
"""

from __future__ import annotations

import ast
import itertools

from .. import astutil as A
from ..alg import Closure, Interp, Obj, Poly, PyFunc, Undecided, fn, to_poly
from ..alg import tensorlib_obj as _tensorlib_obj
from ..cfg import CFG
from ..dep import Deps, FlowDeps, depends_on_call
from ..fwd import calls_to, check_forward
from ..shims import OPT, run_shim, shim_table

EXPLANATION = (
    "mle.fit / fixed_poi_fit / OptimizerMixin.minimize / optimize.common.shim are abstractly interpreted on a three-"
    "parameter symbolic configuration (one fixed parameter) with the minimiser replaced by a recorder: the fixed "
    "(index, value) pairs, the POI override on copies, the filtered start values and bounds on both shim arms and "
    "what each tensor shim's objective closure evaluates are read off exactly; forwarding into scipy.optimize.minimize "
    "(bounds=, constraints from fixed values, x0, jac) and iminuit (limits, fixed, start values) is a dependence "
    "check per call site; the return layout of minimize is enumerated for the 8 flag combinations; the success check "
    "must lie on every path to the return of _internal_minimize. NOT decided: feasibility, optimality, agreement "
    "between optimisers/backends -- all numerical."
)
ASSUMPTIONS = [
    "scipy.optimize.minimize(func, x0, bounds=, constraints=, jac=) and iminuit.Minuit(...).limits/.fixed semantics",
    "_TensorViewer([a, b]).stitch([x_a, x_b]) places x_a at indices a and x_b at indices b (C12/C01 viewers)",
]
MLE = "src/pyhf/infer/mle.py"
MIX = OPT + "mixins.py"
COM = OPT + "common.py"


def _scipy_constraint(ctx, rid, repo, sm):
    from ..alg import Closure, PyFunc, RaisedInFragment
    from .. import listnp
    at = Poly.atom
    rec = []

    def solver(a, k):
        rec.append((a, k))
        return Obj("result")

    site = f"{sm.relpath}::scipy_optimizer._minimize"
    try:
        ext = dict(listnp.externals())
        ext["take"] = lambda a, k: listnp.wrap([a[0][int(to_poly(i).const_value())] for i in a[1]])
        it = Interp({"np": Obj("np"), "numpy": Obj("np"), "scipy": Obj("scipy"), "exceptions": Obj("exceptions")}, {"maxiter": at("MAXITER"), "verbose": False, "tolerance": None, "solver_options": {}}, {}, methods={k: v.node for k, v in repo.cls(sm.relpath, "scipy_optimizer").methods.items()}, cls_name="scipy_optimizer", externals=ext)
        x0 = listnp.wrap([at("x0"), at("x1"), at("x2"), at("x3")])
        fixed = [(Poly.const(1), at("c1")), (Poly.const(3), at("c3"))]
        it.call_function(sm.node, [PyFunc(solver, "minimizer"), Obj("func"), x0], {"do_grad": False, "bounds": Obj("bounds"), "fixed_vals": fixed, "options": {}}, bind_self=True)
        if len(rec) != 1:
            ctx.unrecognised(rid, sm, "constraints", f"the solver is called {len(rec)} times")
            return
        a, k = rec[0]
        cons = k.get("constraints")
        if not (isinstance(cons, (list, tuple)) and len(cons) == 1 and isinstance(cons[0], dict) and cons[0].get("type") == "eq"):
            ctx.violated(rid, sm, "constraints", "with fixed parameters the solver does not receive exactly one equality constraint: parameters flagged fixed are free to move", expected="[{'type': 'eq', 'fun': v -> v[fixed indices] - fixed values}]", found=str(cons)[:120], node=sm.node)
            return
        f_ = cons[0].get("fun")
        v = listnp.wrap([at("v0"), at("v1"), at("v2"), at("v3")])
        out = f_.f([v], {}) if isinstance(f_, PyFunc) else it._call_closure(f_, [v], {}) if isinstance(f_, Closure) else None
        got = [str(to_poly(x)) for x in out] if isinstance(out, (list, tuple)) else repr(out)
        want = [str(at("v1") - at("c1")), str(at("v3") - at("c3"))]
        x0_after = [str(to_poly(x)) for x in (a[1] if len(a) > 1 else k.get("x0"))]
        if got == want and x0_after == ["x0", "c1", "x2", "c3"]:
            ctx.holds(rid, site, "equality constraint v[fixed indices] - fixed values (interpreted on a 4-vector with parameters 1 and 3 fixed); start values pinned")
        elif got != want:
            ctx.violated(rid, sm, "constraints", "the SLSQP equality constraint is not v[fixed indices] - fixed values", expected=str(want), found=str(got), node=sm.node)
        else:
            ctx.violated(rid, sm, "x0", "the start values of fixed parameters are not set to their fixed values", expected="['x0', 'c1', 'x2', 'c3']", found=str(x0_after), node=sm.node)
    except RaisedInFragment as e:
        ctx.violated(rid, sm, "constraints", f"_minimize raises {e.exc_name} for two fixed parameters")
    except (Undecided, KeyError, TypeError, ValueError, IndexError, AttributeError) as e:
        ctx.unrecognised(rid, sm, "constraints", f"not interpretable: {type(e).__name__}: {e}")


def run(ctx):
    repo = ctx.repo
    fit = repo.func(MLE, "fit")
    fpf = repo.func(MLE, "fixed_poi_fit")
    tw = repo.func(MLE, "twice_nll")
    shim = repo.func(COM, "shim")
    mk = repo.func(COM, "_make_stitch_pars")
    mix = repo.cls(MIX, "OptimizerMixin")
    for f in (fit, fpf, tw, shim, mk, *mix.methods.values()):
        ctx.touch(f)

    r1 = ctx.rule("C05.R1", "PAIR: fit builds fixed_vals = [(index, init[index]) for the positions flagged fixed] and hands (twice_nll, data, pdf, init_pars, par_bounds, fixed_vals, **kwargs) to the optimiser", "PAIR", floor=3)
    r2 = ctx.rule("C05.R2", "EFFECT/ROLE: fixed_poi_fit sets init[poi] = poi_val and fixed[poi] = True on copies (the caller's lists are untouched) and forwards data, pdf, bounds, kwargs to fit", "EFFECT", floor=4)
    r3 = ctx.rule("C05.R3", "FWD/DEP: shim filters start values and bounds with the same variable index list when stitching and passes them unfiltered with the fixed pairs otherwise; minimize->shim->_internal_minimize->_get_minimizer/_minimize forward func, x0, bounds, fixed_vals, do_grad; scipy gets x0/bounds/constraints(fixed)/jac, minuit gets start values, limits, fixed flags", "FWD", floor=20)
    r4 = ctx.rule("C05.R4", "SIB/ALG: in all four tensor shims and both arms the function minimised evaluates objective(stitch_pars(pars), data, pdf); twice_nll == -2*pdf.logpdf(pars, data); stitch_pars defaults to the supplied fixed values and stitches [fixed, variable] through a viewer built as [fixed_idx, variable_idx]", "SIB", floor=10)
    r5 = ctx.rule("C05.R5", "DEP/CFGENUM: _internal_postprocess stitches the fixed values back into the fitted parameters; minimize returns [x] + [corr]? + [fun]? + [result]? for all 8 flag combinations", "CFGENUM", floor=9)
    r6 = ctx.rule("C05.R6", "ORDER: every path of _internal_minimize to its return passes a test of result.success that raises FailedMinimization on failure", "ORDER", floor=1)

    # ------------------------------------------------------------ R1
    i = [Poly.atom(f"i{k}") for k in range(3)]
    rec = {}

    def minimize(recv, args, kw):
        rec["min"] = (args, kw)
        return Poly.atom("RESULT")

    try:
        env = {"data": Obj("data"), "pdf": Obj("pdf"), "init_pars": list(i), "par_bounds": Obj("bounds"), "fixed_params": [True, False, True], "kwargs": {}, "twice_nll": Obj("twice_nll")}
        it = Interp(env, {}, {}, externals={".minimize": minimize, "_validate_fit_inputs": lambda a, k: None})
        it.run(A.strip_docstring(fit.node.body))
        args, kw = rec["min"]
        fv = args[5] if len(args) > 5 else kw.get("fixed_vals")
        got = [(int(to_poly(a).const_value()), str(to_poly(b))) for a, b in fv]
        if got == [(0, "i0"), (2, "i2")]:
            ctx.holds(r1, f"{MLE}::fit fixed_vals", str(got))
        else:
            ctx.violated(r1, fit, "fixed_vals", "fixed parameters are not paired with the initial value at their own index", expected="[(0, i0), (2, i2)]", found=str(got))
        names = [getattr(a, "name", None) or ("init" if a is env["init_pars"] or (isinstance(a, list) and [str(x) for x in a] == ["i0", "i1", "i2"]) else "?") for a in args[:5]]
        if names == ["twice_nll", "data", "pdf", "init", "bounds"]:
            ctx.holds(r1, f"{MLE}::fit -> opt.minimize", "(twice_nll, data, pdf, init_pars, par_bounds, fixed_vals)")
        else:
            ctx.violated(r1, fit, "opt.minimize(...)", "the optimiser does not receive (twice_nll, data, pdf, init_pars, par_bounds, fixed_vals)", found=str(names))
    except (Undecided, KeyError) as e:
        ctx.unrecognised(r1, fit, "fit", f"not interpretable: {e}")
    # an explicit mask that frees every parameter is a mask, not "no mask"; no mask at all means the model's own
    for lab, mask, want_fixed in (("explicit all-False mask", [False, False, False], []), ("no mask", None, [(1, "i1")])):
        try:
            rec.clear()
            cfgo = Obj("config")
            env = {"data": Obj("data"), "pdf": Obj("pdf", {"config": cfgo}), "init_pars": list(i), "par_bounds": Obj("bounds"), "fixed_params": mask, "kwargs": {}, "twice_nll": Obj("twice_nll")}
            ext1 = {".minimize": minimize, "_validate_fit_inputs": lambda a, k: None, ".suggested_fixed": lambda r_, a, k: [False, True, False], ".suggested_init": lambda r_, a, k: list(i), ".suggested_bounds": lambda r_, a, k: Obj("bounds")}
            Interp(env, {}, {}, externals=ext1).run(A.strip_docstring(fit.node.body))
            args, kw = rec["min"]
            fv = args[5] if len(args) > 5 else kw.get("fixed_vals")
            got = [(int(to_poly(a).const_value()), str(to_poly(b))) for a, b in fv]
            if got == want_fixed:
                ctx.holds(r1, f"{MLE}::fit [{lab}]", f"fixed_vals = {got}")
            else:
                ctx.violated(r1, fit, f"fixed_vals [{lab}]", "the parameters held constant are not those of the mask the caller supplied (an all-False mask frees everything; only a missing mask falls back to the model's suggestion)", expected=str(want_fixed), found=str(got))
        except (Undecided, KeyError, TypeError) as e:
            ctx.unrecognised(r1, fit, f"fit [{lab}]", f"not interpretable: {e}")
    mc = [c for c in A.calls_in(fit.node) if A.call_attr(c) == "minimize"]
    if mc and any(k.arg is None and "kwargs" in A.names_loaded(k.value) for k in mc[0].keywords):
        ctx.holds(r1, f"{MLE}::fit", "**kwargs forwarded to the optimiser")
    else:
        ctx.violated(r1, fit, "opt.minimize(..., **kwargs)", "fit options (return_fitted_val, do_grad, tolerance ...) are not forwarded", node=mc[0] if mc else fit.node)

    # ------------------------------------------------------------ R2
    try:
        init_in, fixed_in = list(i), [False, False, False]
        rec2 = {}
        # the model has suggestions of its own (another fixed mask, other start values): the CALLER's arguments win
        cfg = Obj("config", {"poi_index": Poly.const(1), "suggested_init": PyFunc(lambda a, k: [Poly.atom("m0"), Poly.atom("m1"), Poly.atom("m2")], "suggested_init"),
                             "suggested_fixed": PyFunc(lambda a, k: [True, False, True], "suggested_fixed"), "suggested_bounds": PyFunc(lambda a, k: Obj("model_bounds"), "suggested_bounds")})
        env = {"poi_val": Poly.atom("POI"), "data": Obj("data"), "pdf": Obj("pdf", {"config": cfg}), "init_pars": init_in, "par_bounds": Obj("bounds"), "fixed_params": fixed_in, "kwargs": {}}
        it = Interp(env, {}, {}, externals={"fit": lambda a, k: (rec2.__setitem__("fit", (a, k)) or Poly.atom("FITRESULT"))})
        out = it.run(A.strip_docstring(fpf.node.body))
        a, k = rec2["fit"]
        # bound by fit's own signature: positional or by keyword
        fit_params = [p_ for p_ in A.params_of(fit.node) if p_ not in ("kwargs",)]
        bound = dict(zip(fit_params, a))
        bound.update({k_: v_ for k_, v_ in k.items() if k_ in fit_params})
        a = [bound.get(p_) for p_ in ("data", "pdf", "init_pars", "par_bounds", "fixed_params")]
        init_out, fixed_out = a[2] or [], a[4] or []
        ok_vals = [str(to_poly(x)) for x in init_out] == ["i0", "POI", "i2"] and list(fixed_out) == [False, True, False]
        if ok_vals:
            ctx.holds(r2, f"{MLE}::fixed_poi_fit", "init[poi] = poi_val, fixed[poi] = True")
        else:
            ctx.violated(r2, fpf, "POI override", "the fixed-POI fit does not hold the POI at the requested value with its fixed flag set", expected="init=[i0, POI, i2], fixed=[F, T, F]", found=f"init={[str(to_poly(x)) for x in init_out]}, fixed={list(fixed_out)}")
        if [str(x) for x in init_in] == ["i0", "i1", "i2"] and fixed_in == [False, False, False] and init_out is not init_in and fixed_out is not fixed_in:
            ctx.holds(r2, f"{MLE}::fixed_poi_fit", "caller's init_pars / fixed_params are not modified (copies)")
        else:
            ctx.violated(r2, fpf, "in-place write", "fixed_poi_fit writes the POI value / flag into the caller's own lists", expected="copies", found=f"caller's lists after the call: {[str(x) for x in init_in]}, {fixed_in}")
        if getattr(a[0], "name", "") == "data" and getattr(a[1], "name", "") == "pdf" and getattr(a[3], "name", "") == "bounds":
            ctx.holds(r2, f"{MLE}::fixed_poi_fit -> fit", "(data, pdf, init', bounds, fixed')")
        else:
            ctx.violated(r2, fpf, "fit(...)", "fit does not receive (data, pdf, init_pars, par_bounds, fixed_params)", found=str([getattr(x, "name", "?") for x in a]))
        if to_poly(out) != Poly.atom("FITRESULT"):
            ctx.violated(r2, fpf, "return", "fixed_poi_fit does not return fit's result", found=str(out))
    except (Undecided, KeyError, IndexError) as e:
        ctx.unrecognised(r2, fpf, "fixed_poi_fit", f"not interpretable: {e}")
    fc = [c for c in A.calls_in(fpf.node) if A.call_attr(c) == "fit"]
    if fc and any(k.arg is None and "kwargs" in A.names_loaded(k.value) for k in fc[0].keywords):
        ctx.holds(r2, f"{MLE}::fixed_poi_fit", "**kwargs forwarded")
    else:
        ctx.violated(r2, fpf, "fit(..., **kwargs)", "fit options are not forwarded by fixed_poi_fit", node=fc[0] if fc else fpf.node)

    # ------------------------------------------------------------ R3: shim
    b = [Poly.atom(f"b{k}") for k in range(4)]
    i4 = [Poly.atom(f"i{k}") for k in range(4)]
    # module-level containers of common.py are shared between calls: interpret shim twice over the same module state
    # (second call: same indices, different fixed values) so that anything remembered from the first call shows up
    module_state = {}
    the_pdf = Obj("pdf", {"config": Obj("config", {"npars": Poly.const(4)})})
    for st_ in repo.module(COM).tree.body:
        if isinstance(st_, ast.Assign) and len(st_.targets) == 1 and isinstance(st_.targets[0], ast.Name):
            v_ = st_.value
            if isinstance(v_, ast.Dict) and not v_.keys or (isinstance(v_, ast.Call) and not v_.args and (A.call_attr(v_) or "").lower().endswith(("dict", "dictionary"))):
                module_state[st_.targets[0].id] = {}
            elif isinstance(v_, (ast.List, ast.Set)) and not v_.elts:
                module_state[st_.targets[0].id] = []
    for do_stitch, fv in ((True, ("v0", "v2")), (True, ("w0", "w2")), (False, ("v0", "v2")), (False, ("w0", "w2"))):
        rec3 = {}

        def wrap(args, kw):
            rec3["wrap"] = (args, kw)
            return Obj("OBJECTIVE_AND_GRAD")

        ext = {
            "_get_tensor_shim": lambda a, k: PyFunc(wrap, "wrap_objective"),
            "_TensorViewer": lambda a, k: (rec3.__setitem__("tv", a) or Obj("TV")),
            "_make_stitch_pars": lambda a, k: (rec3.__setitem__("mk", (a, k)) or Obj("STITCH")),
        }
        env = {"objective": Obj("objective"), "data": Obj("data"), "pdf": the_pdf, "init_pars": list(i4), "par_bounds": list(b), "fixed_vals": [(Poly.const(0), Poly.atom(fv[0])), (Poly.const(2), Poly.atom(fv[1]))], "do_grad": Obj("DO_GRAD"), "do_stitch": do_stitch}
        env.update(module_state)
        site = f"{COM}::shim[do_stitch={do_stitch}, fixed values {fv}]"
        try:
            out = Interp(env, {}, {}, externals=ext).run(A.strip_docstring(shim.node.body))
            mkw, st = out
            x0 = [str(to_poly(x)) for x in mkw["x0"]]
            bd = [str(to_poly(x)) for x in mkw["bounds"]]
            fvs = [(int(to_poly(a).const_value()), str(to_poly(c))) for a, c in mkw["fixed_vals"]]
            want = (["i1", "i3"], ["b1", "b3"], []) if do_stitch else (["i0", "i1", "i2", "i3"], ["b0", "b1", "b2", "b3"], [(0, fv[0]), (2, fv[1])])
            if (x0, bd, fvs) == want:
                ctx.holds(r3, site, f"x0={x0} bounds={bd} fixed_vals={fvs}")
            else:
                ctx.violated(r3, shim, f"minimizer_kwargs [do_stitch={do_stitch}]", "start values / bounds / fixed pairs handed to the minimiser do not describe the same free parameters", expected=str(want), found=str((x0, bd, fvs)))
            if getattr(mkw.get("func"), "name", "") == "OBJECTIVE_AND_GRAD" and getattr(mkw.get("do_grad"), "name", "") == "DO_GRAD":
                ctx.holds(r3, site, "func = wrapped objective, do_grad forwarded")
            else:
                ctx.violated(r3, shim, f"minimizer_kwargs func/do_grad [do_stitch={do_stitch}]", "the minimiser does not receive the wrapped objective / the gradient flag", found=str({k: str(v) for k, v in mkw.items()}))
            wa, wk = rec3["wrap"]
            from ..alg import as_record
            jp = as_record(wk.get("jit_pieces", {}))
            okw = getattr(wa[0], "name", "") == "objective" and getattr(wa[2], "name", "") == "pdf" and getattr(wa[3], "name", "") == ("STITCH") and getattr(wk.get("do_grad"), "name", "") == "DO_GRAD"
            okj = isinstance(jp, dict) and [int(to_poly(x).const_value()) for x in jp.get("fixed_idx", [])] == [0, 2] and [int(to_poly(x).const_value()) for x in jp.get("variable_idx", [])] == [1, 3] and [str(to_poly(x)) for x in jp.get("fixed_values", [])] == list(fv) and jp.get("do_stitch") is do_stitch
            if okw and okj:
                ctx.holds(r3, site, "wrap_objective(objective, data, pdf, stitch_pars, do_grad, jit_pieces{fixed_idx, variable_idx, fixed_values, do_stitch})")
            else:
                ctx.violated(r3, shim, f"wrap_objective arguments [do_stitch={do_stitch}]", "the tensor shim does not receive the objective, model, stitcher and the index pieces that describe this fit", found=f"args={[getattr(x, 'name', str(x)) for x in wa]} jit_pieces={ {k: str(v) for k, v in jp.items()} if isinstance(jp, dict) else jp}")
            if do_stitch:
                tv = rec3.get("tv")
                mka, mkk = rec3.get("mk", ((), {}))
                ok_tv = tv and [[int(to_poly(x).const_value()) for x in lst] for lst in tv[0]] == [[0, 2], [1, 3]]
                ok_mk = len(mka) == 2 and getattr(mka[0], "name", "") == "TV" and [str(to_poly(x)) for x in mka[1]] == list(fv)
                if ok_tv and ok_mk:
                    ctx.holds(r4, site, "viewer [fixed_idx, variable_idx]; stitcher gets (viewer, fixed values)")
                else:
                    ctx.violated(r4, shim, "stitcher construction", "the stitcher is not built in this call from the viewer [fixed_idx, variable_idx] and this call's fixed values (a stitcher remembered from an earlier fit pins the parameters to that fit's values)", found=f"viewer={tv}, make_stitch_pars args={mka}")
                if getattr(st, "name", "") != "STITCH":
                    ctx.violated(r3, shim, "return stitch_pars", "shim does not return the stitcher it gave to the objective", found=str(st))
        except (Undecided, KeyError, ValueError, TypeError) as e:
            ctx.unrecognised(r3, shim, f"shim[do_stitch={do_stitch}]", f"not interpretable: {type(e).__name__}: {e}")

    # minimize -> shim, _internal_minimize -> _get_minimizer/_minimize (both optimisers)
    mini = mix.methods["minimize"]
    for c in calls_to(mini.node, {"shim"}):
        check_forward(ctx, r3, mini, c, shim, deps=FlowDeps(mini.node), require_kwargs=False)
    imin = mix.methods["_internal_minimize"]
    c_im = calls_to(mini.node, {"_internal_minimize"})
    dmini = Deps(mini.node)
    if c_im and any(k.arg is None and depends_on_call(dmini, k.value, "shim") for k in c_im[0].keywords) and any(k.arg == "options" and "kwargs" in A.names_loaded(k.value) for k in c_im[0].keywords):
        ctx.holds(r3, f"{MIX}::minimize -> _internal_minimize", "**minimizer_kwargs, options=kwargs")
    else:
        ctx.violated(r3, mini, "_internal_minimize(**minimizer_kwargs, options=kwargs, ...)", "what shim prepared (objective, x0, bounds, fixed values) or the solver options do not reach the minimiser", node=c_im[0] if c_im else mini.node)
    for optrel, optcls in ((OPT + "opt_scipy.py", "scipy_optimizer"), (OPT + "opt_minuit.py", "minuit_optimizer")):
        oc = repo.cls(optrel, optcls)
        for m in oc.methods.values():
            ctx.touch(m)
        gm, mn = oc.methods["_get_minimizer"], oc.methods["_minimize"]
        for c in calls_to(imin.node, {"_get_minimizer"}):
            check_forward(ctx, r3, imin, c, gm, alias={"func": "objective_and_grad", "x0": "init_pars", "bounds": "init_bounds"}, skip_self=True, deps=FlowDeps(imin.node), require_kwargs=False)
        for c in calls_to(imin.node, {"_minimize"}):
            check_forward(ctx, r3, imin, c, mn, skip_self=True, deps=FlowDeps(imin.node), require_kwargs=False)
    # scipy: the actual solver call
    sm = repo.method(OPT + "opt_scipy.py", "scipy_optimizer", "_minimize")
    d = Deps(sm.node)
    calls = [c for c in A.calls_in(sm.node) if isinstance(c.func, ast.Name) and c.func.id == "minimizer"]
    if not calls:
        ctx.unrecognised(r3, sm, "minimizer(...)", "solver call not found")
    for c in calls:
        kws = {k.arg: k.value for k in c.keywords if k.arg}
        checks = [
            ("func", c.args[0] if c.args else None, "func"), ("x0", c.args[1] if len(c.args) > 1 else kws.get("x0"), "x0"),
            ("bounds", kws.get("bounds"), "bounds"), ("constraints", kws.get("constraints"), "fixed_vals"), ("jac", kws.get("jac"), "do_grad"),
        ]
        for nm, actual, src in checks:
            if actual is not None and d.depends_on(actual, src):
                ctx.holds(r3, f"{sm.relpath}::scipy_optimizer._minimize: {nm} <- {src}")
            else:
                ctx.violated(r3, sm, c, f"scipy.optimize.minimize does not receive `{nm}` derived from `{src}`" + (": the fit may leave the allowed box" if nm == "bounds" else (": parameters flagged fixed are free to move" if nm == "constraints" else "")), expected=f"{nm}=<{src}>", found=A.short(actual, 40) if actual is not None else "absent", node=c)
    # the equality constraint really pins v[indices] to values: _minimize interpreted with a recording solver, the constraint
    # function it hands over evaluated on a symbolic 4-vector with parameters 1 and 3 fixed
    _scipy_constraint(ctx, r3, repo, sm)
    # minuit
    mg = repo.method(OPT + "opt_minuit.py", "minuit_optimizer", "_get_minimizer")
    dm = Deps(mg.node)
    found = {"limits": None, "fixed": None}
    for n in ast.walk(mg.node):
        if isinstance(n, ast.Assign):
            for t in n.targets:
                dd = A.dotted(t) or ""
                for k in found:
                    if dd.endswith("." + k):
                        found[k] = n
    for k, src in (("limits", "init_bounds"), ("fixed", "fixed_vals")):
        n = found[k]
        if n is not None and dm.depends_on(n.value, src):
            ctx.holds(r3, f"{mg.relpath}::minuit_optimizer._get_minimizer: minuit.{k} <- {src}")
        else:
            ctx.violated(r3, mg, f"minuit.{k}", f"iminuit is not given `{k}` derived from `{src}`", node=n if n is not None else mg.node)
    mcalls = [c for c in A.calls_in(mg.node) if A.call_attr(c) == "Minuit"]
    if mcalls and len(mcalls[0].args) >= 2 and dm.depends_on(mcalls[0].args[0], "objective_and_grad") and dm.depends_on(mcalls[0].args[1], "init_pars"):
        ctx.holds(r3, f"{mg.relpath}::minuit_optimizer._get_minimizer: Minuit(objective, init_pars, ...)")
    else:
        ctx.violated(r3, mg, "iminuit.Minuit(...)", "Minuit is not constructed from the wrapped objective and the start values", node=mcalls[0] if mcalls else mg.node)
    st_fixed = any(isinstance(n, ast.Assign) and isinstance(n.targets[0], ast.Subscript) and A.dotted(n.targets[0].value) == "init_pars" and dm.depends_on(n.value, "fixed_vals") and dm.depends_on(n.targets[0].slice, "fixed_vals") for n in ast.walk(mg.node))
    if st_fixed:
        ctx.holds(r3, f"{mg.relpath}::minuit_optimizer._get_minimizer", "start value of a fixed parameter is its fixed value")
    else:
        ctx.violated(r3, mg, "init_pars[index] = val", "fixed parameters do not start (and hence stay) at their fixed value in Minuit", node=mg.node)

    _minuit_minimize_history(ctx, r3, repo)
    _optimizer_construction(ctx, r3, repo)
    _mle_history(ctx, r1, repo)
    _optimizers_interpreted(ctx, r3, repo)

    # ------------------------------------------------------------ R4
    table = shim_table(repo)
    if len(table) < 4:
        ctx.error(f"C05.R4: only {len(table)} tensor shims found in _get_tensor_shim, floor 4")
    for backend, rel in sorted(table.items()):
        for g in (False, True):
            site = f"{rel}::wrap_objective[do_grad={g}]"
            try:
                r = run_shim(repo, rel, g)
            except Undecided as e:
                if backend == "numpy" and g and "raise reached" in str(e):
                    ctx.holds(r4, site, "numpy refuses gradients (raises)")
                else:
                    ctx.unrecognised(r4, repo.func(rel, "wrap_objective"), f"wrap_objective[do_grad={g}]", f"not interpretable: {e}")
                continue
            w = repo.func(rel, "wrap_objective")
            ctx.touch(w)
            if backend == "jax":
                _check_jax(ctx, r4, repo, rel, r, g)
                continue
            want = "OBJ<STITCH<PARS>;data;pdf>"
            val = r.ret[0] if isinstance(r.ret, (tuple, list)) else r.ret
            if str(to_poly(val)) == want:
                ctx.holds(r4, site, "minimises objective(stitch_pars(pars), data, pdf)")
            else:
                ctx.violated(r4, w, f"objective closure [do_grad={g}]", "the function handed to the minimiser does not evaluate objective(stitch_pars(pars), data, pdf)", expected=want, found=str(val))
    # twice_nll
    try:
        v = Interp({"pars": Poly.atom("PARS"), "data": Poly.atom("DATA"), "pdf": Obj("pdf")}, {}, {}).run(A.strip_docstring(tw.node.body))
        want = -2 * fn("logpdf", Poly.atom("pdf"), Poly.atom("PARS"), Poly.atom("DATA"))
        if to_poly(v) == want:
            ctx.holds(r4, f"{MLE}::twice_nll", "-2*pdf.logpdf(pars, data)")
        else:
            ctx.violated(r4, tw, "twice_nll", "the objective is not -2 log L(pars | data)", expected=str(want), found=str(v))
    except Undecided as e:
        ctx.unrecognised(r4, tw, "twice_nll", str(e))
    # _make_stitch_pars
    inner = [n for n in ast.walk(mk.node) if isinstance(n, ast.FunctionDef) and n is not mk.node]
    okm = False
    for fnode in inner:
        dflt = A.param_defaults(fnode)
        sw = [p for p in A.params_of(fnode) if p != "pars"]
        if sw and isinstance(dflt.get(sw[0]), ast.Name) and dflt[sw[0]].id == "fixed_values":
            for c in A.calls_in(fnode):
                if A.call_attr(c) == "stitch" and c.args and isinstance(c.args[0], ast.List) and len(c.args[0].elts) == 2:
                    first, second = c.args[0].elts
                    if sw[0] in A.names_loaded(first) and A.names_loaded(second) == {"pars"}:
                        okm = True
    if okm:
        ctx.holds(r4, f"{COM}::_make_stitch_pars", "stitch_with defaults to fixed_values; tv.stitch([fixed, pars])")
    else:
        ctx.violated(r4, mk, "stitch_pars", "the stitcher does not default to the supplied fixed values in [fixed, variable] order", node=mk.node)

    # end to end: shim -> _TensorViewer -> _make_stitch_pars all interpreted (object model); the stitcher shim returns,
    # applied to the free parameters, must put every fixed value at its own index and the free ones in between
    from . import viewers as _viewers
    from ..alg import Closure as _Closure
    for fixed_at in ([0, 2], [1], [2, 3], [0, 1, 3]):
        npar = 4
        free_at = [j for j in range(npar) if j not in fixed_at]
        site = f"{COM}::shim -> stitcher [fixed at {fixed_at} of {npar}]"
        try:
            w = _viewers.world(repo, {"_get_tensor_shim": lambda a, k: PyFunc(lambda a2, k2: Obj("OBJECTIVE"), "wrap_objective")})
            w.add_func(mk).add_func(shim)
            pdf_ = Obj("pdf", {"config": Obj("config", {"npars": Poly.const(npar)})})
            out = w.call_func(shim, [Obj("objective"), Obj("data"), pdf_, [Poly.atom(f"i{j}") for j in range(npar)], [Poly.atom(f"b{j}") for j in range(npar)]],
                              {"fixed_vals": [(Poly.const(j), Poly.atom(f"v{j}")) for j in fixed_at], "do_grad": False, "do_stitch": True})
            mkw, st = out
            if not isinstance(st, _Closure):
                raise Undecided("shim does not return a stitcher function")
            full = st.interp.call_function(st.node, [[Poly.atom(f"q{j}") for j in free_at]], {})
            want = [f"v{j}" if j in fixed_at else f"q{j}" for j in range(npar)]
            got = [str(to_poly(x)) for x in full]
            x0 = [str(to_poly(x)) for x in mkw["x0"]]
            if got == want and x0 == [f"i{j}" for j in free_at]:
                ctx.holds(r4, site, f"stitch_pars(free) = {want}")
            else:
                ctx.violated(r4, shim, f"stitched parameter vector [fixed at {fixed_at}]", "the vector the objective is evaluated at does not hold every fixed parameter at its supplied value at its own index (with the free parameters, in order, at the others)", expected=str(want), found=str(got))
        except (Undecided, KeyError, TypeError, ValueError, IndexError, AttributeError) as e:
            ctx.unrecognised(r4, shim, f"stitcher [fixed at {fixed_at}]", f"not interpretable: {type(e).__name__}: {e}")

    jax_objective_point(ctx, r4, repo, table, mk, shim)

    # ------------------------------------------------------------ R5
    pp = mix.methods["_internal_postprocess"]
    try:
        fr = Obj("fitresult", {"x": Poly.atom("X"), "fun": Poly.atom("FUN")})
        st_calls = []

        def stitch(a, k):
            st_calls.append((a, k))
            return Poly.atom(f"STITCH<{to_poly(a[0])}>")

        it = Interp({"fitresult": fr, "stitch_pars": PyFunc(stitch, "stitch_pars"), "return_uncertainties": False}, {}, {}, cls_name="OptimizerMixin")
        out = it.run(A.strip_docstring(pp.node.body))
        sets = dict((k, v) for k, v in it.attr_sets)
        xv = sets.get("fitresult.x")
        if xv is not None and str(to_poly(xv)) == "STITCH<X>" and isinstance(out, Obj) and out.name == "fitresult" and not st_calls[0][1]:
            ctx.holds(r5, f"{MIX}::_internal_postprocess", "fitresult.x = stitch_pars(fitresult.x) with the default (fixed) values")
        else:
            ctx.violated(r5, pp, "fitresult.x", "the fitted parameter vector returned does not have the fixed values stitched back in", expected="STITCH<X>", found=str(xv))
    except (Undecided, IndexError) as e:
        ctx.unrecognised(r5, pp, "_internal_postprocess", f"not interpretable: {e}")
    for combo in itertools.product((False, True), repeat=3):
        flags = dict(zip(("return_correlations", "return_fitted_val", "return_result_obj"), combo))
        label = " ".join(f"{k.replace('return_', '')}={int(v)}" for k, v in flags.items())
        try:
            res = Obj("RES", {"x": Poly.atom("X"), "corr": Poly.atom("CORR"), "fun": Poly.atom("FUN")})
            env = {"objective": Obj("objective"), "data": Obj("data"), "pdf": Obj("pdf", {"config": Obj("config", {"par_names": None})}), "init_pars": Obj("init"), "par_bounds": Obj("bounds"),
                   "fixed_vals": None, "return_uncertainties": False, "do_grad": False, "do_stitch": False, "kwargs": {}, **flags}
            ext = {"shim": lambda a, k: ({}, Obj("STITCH")), "_internal_minimize": lambda a, k: Obj("RAW"), "_internal_postprocess": lambda a, k: res, "get_backend": lambda a, k: (Obj("tb", {"default_do_grad": False}), Obj("opt"))}
            out = Interp(env, {}, {}, cls_name="OptimizerMixin", externals=ext).run(A.strip_docstring(mini.node.body))
            exp = [Poly.atom("X")]
            if flags["return_correlations"]:
                exp.append(Poly.atom("CORR"))
            if flags["return_fitted_val"]:
                exp.append(Poly.atom("FUN"))
            if flags["return_result_obj"]:
                exp.append(res)
            want = tuple(exp) if len(exp) > 1 else exp[0]
            same = (isinstance(out, tuple) == isinstance(want, tuple)) and [str(x) if not isinstance(x, Obj) else x.name for x in (out if isinstance(out, tuple) else [out])] == [str(x) if not isinstance(x, Obj) else x.name for x in (want if isinstance(want, tuple) else [want])]
            if same:
                ctx.holds(r5, f"{MIX}::minimize [{label}]", str(want))
            else:
                ctx.violated(r5, mini, f"minimize return layout [{label}]", "the fit result does not carry (parameters, correlations?, objective value?, result object?) in that order", expected=str(want), found=str(out))
        except Undecided as e:
            ctx.unrecognised(r5, mini, f"minimize [{label}]", f"not interpretable: {e}")

    # minimize COMPOSED with the real _internal_postprocess, on a model configuration that names its parameters and suggests bounds of
    # its own while the caller passes OTHER bounds: what comes back is the minimiser's point with the fixed values stitched in, and the
    # minimiser's objective value -- nothing rounds, clips or projects the point afterwards (the statistic built from `fun` would no
    # longer be the likelihood ratio AT the parameters returned)
    try:
        at_ = Poly.atom
        fr2 = Obj("fitresult", {"x": at_("X"), "fun": at_("FUN")})
        cfg2 = Obj("config", {"par_names": ["p0", "p1"], "npars": Poly.const(2),
                              "suggested_bounds": PyFunc(lambda a, k: [(at_("sl0"), at_("sh0")), (at_("sl1"), at_("sh1"))], "suggested_bounds"),
                              "suggested_init": PyFunc(lambda a, k: [at_("si0"), at_("si1")], "suggested_init"),
                              "suggested_fixed": PyFunc(lambda a, k: [False, False], "suggested_fixed")})
        env2 = {"objective": Obj("objective"), "data": Obj("data"), "pdf": Obj("pdf", {"config": cfg2}), "init_pars": [at_("i0"), at_("i1")], "par_bounds": [(at_("l0"), at_("h0")), (at_("l1"), at_("h1"))],
                "fixed_vals": None, "return_uncertainties": False, "do_grad": False, "do_stitch": False, "kwargs": {}, "return_correlations": False, "return_fitted_val": True, "return_result_obj": False}
        ext2 = {"shim": lambda a, k: ({}, PyFunc(lambda a2, k2: at_(f"STITCH<{to_poly(a2[0])}>"), "stitch_pars")), "_internal_minimize": lambda a, k: fr2,
                "get_backend": lambda a, k: (Obj("tb", {"default_do_grad": False}), Obj("opt")),
                ".clip": lambda recv, a, k: at_(f"CLIP<{to_poly(a[0])}>"), ".minimum": lambda recv, a, k: at_(f"MIN<{to_poly(a[0])}>"), ".maximum": lambda recv, a, k: at_(f"MAX<{to_poly(a[0])}>"),
                ".where": lambda recv, a, k: at_(f"WHERE<{to_poly(a[1])}>")}
        out2 = Interp(env2, {}, {}, cls_name="OptimizerMixin", methods={"_internal_postprocess": pp.node}, externals=ext2).run(A.strip_docstring(mini.node.body))
        got2 = [str(to_poly(x)) for x in out2] if isinstance(out2, tuple) else [str(to_poly(out2))]
        if got2 == ["STITCH<X>", "FUN"]:
            ctx.holds(r5, f"{MIX}::minimize -> _internal_postprocess [composed; the model suggests other bounds than the caller passes]", "returns (stitch_pars(minimiser's x), minimiser's fun)")
        else:
            ctx.violated(r5, mini, "minimize -> _internal_postprocess (composed)", "the parameters a fit returns are not the minimiser's own point with the fixed values stitched in (they are altered after the minimisation -- clipped into the model's suggested bounds, say -- while the objective value returned is still the minimiser's): a test statistic built from the two fits is no longer the likelihood ratio at the parameters returned, and a best fit outside the suggested range (legitimate under the caller's wider bounds) is silently moved", expected="['STITCH<X>', 'FUN']", found=str(got2))
    except (Undecided, KeyError, TypeError, ValueError, IndexError, AttributeError) as e:
        ctx.unrecognised(r5, mini, "minimize -> _internal_postprocess (composed)", f"not interpretable: {type(e).__name__}: {e}")

    # ------------------------------------------------------------ R6
    g = CFG.build(imin.node.body)

    def checks_success(node):
        st = node.stmt
        if isinstance(st, ast.Try):
            has = any(isinstance(x, ast.Assert) and "success" in A.unparse(x.test) for x in st.body) and any(isinstance(r, ast.Raise) for h in st.handlers for r in ast.walk(h))
            return has
        if isinstance(st, ast.If) and "success" in A.unparse(st.test):
            return any(isinstance(r, ast.Raise) for r in ast.walk(st))
        if isinstance(st, ast.Assert) and "success" in A.unparse(st.test):
            return True
        return False

    ok, wit = g.all_paths_pass(checks_success)
    if ok:
        ctx.holds(r6, f"{MIX}::_internal_minimize", "result.success checked on every path before the return")
    else:
        ctx.violated(r6, imin, "result.success check", "a minimisation result can be returned without its success flag having been checked (a failed fit is reported as a fit)", found=" > ".join(g.describe(wit)))


def _check_jax(ctx, rid, repo, rel, r, g):
    w = repo.func(rel, "wrap_objective")
    fo = repo.func(rel, "_final_objective")
    ctx.touch(fo)
    site = f"{rel}::wrap_objective[do_grad={g}]"
    if not r.jit_calls:
        ctx.unrecognised(rid, w, "func", "jax closure does not call a jitted objective")
        return
    name, args = r.jit_calls[0]
    params = A.params_of(fo.node)
    from ..shims import objective_roles
    roles = objective_roles(repo, rel) or {p_: p_ for p_ in params}
    want = {"pars": "PARS", "data": "data", "fixed_values": "FIXED_VALUES", "fixed_idx": (1,), "variable_idx": (0, 2), "do_stitch": True, "objective": "objective", "pdf": "pdf"}
    bad = []
    for p, a in zip(params, args):
        wv = want.get(roles.get(p))
        if isinstance(wv, tuple):
            okk = isinstance(a, (tuple, list)) and tuple(int(to_poly(x).const_value()) for x in a) == wv
        elif wv is True:
            okk = a is True
        else:
            okk = (getattr(a, "name", None) == wv) or (isinstance(a, Poly) and str(a) == wv)
        if not okk:
            bad.append(f"{p} <- {a}")
    if bad or len(args) != len(params):
        ctx.violated(rid, w, f"jitted call [do_grad={g}]", "the jitted objective is called with arguments that do not match _final_objective's parameters", expected=str(params), found="; ".join(bad) or f"{len(args)} args")
    else:
        ctx.holds(rid, site, f"{name}(pars, data, fixed_values, fixed_idx, variable_idx, do_stitch, objective, pdf)")
    expect_name = "_jitted_objective_and_grad" if g else "_jitted_objective"
    if name != expect_name:
        ctx.violated(rid, w, f"jitted call [do_grad={g}]", f"the {'gradient' if g else 'plain'} arm calls {name}", expected=expect_name)
    # _final_objective itself for both stitch settings
    for do_stitch in (True, False):
        try:
            ev = []
            ext = {"_TensorViewer": lambda a, k: (ev.append(("tv", a)) or Obj("TV")), ".stitch": lambda recv, a, k: (ev.append(("stitch", a)) or Poly.atom("STITCHED")), "debug": lambda a, k: None}
            by_role = {"pars": Poly.atom("PARS"), "data": Obj("data"), "fixed_values": Obj("FIXED_VALUES"), "fixed_idx": Obj("FIDX"), "variable_idx": Obj("VIDX"), "do_stitch": do_stitch,
                       "objective": PyFunc(lambda a, k: Poly.atom("OBJ<" + ";".join(str(to_poly(x)) if not isinstance(x, Obj) else x.name for x in a) + ">"), "objective"), "pdf": Obj("pdf")}
            env = {p_: by_role[r_] for p_, r_ in roles.items() if r_ in by_role}
            env["log"] = Obj("log")
            v = Interp(env, {}, {}, externals=ext).run(A.strip_docstring(fo.node.body))
            wantv = "OBJ<STITCHED;data;pdf>" if do_stitch else "OBJ<PARS;data;pdf>"
            okv = str(to_poly(v)) == wantv
            if do_stitch:
                tv = [e for e in ev if e[0] == "tv"]
                st = [e for e in ev if e[0] == "stitch"]
                okv = okv and tv and [getattr(x, "name", "") for x in tv[0][1][0]] == ["FIDX", "VIDX"] and st and len(st[0][1][0]) == 2 and getattr(st[0][1][0][0], "name", "") == "FIXED_VALUES" and str(to_poly(st[0][1][0][1])) == "PARS"
            if okv:
                ctx.holds(rid, f"{rel}::_final_objective[do_stitch={do_stitch}]", wantv)
            else:
                ctx.violated(rid, fo, f"_final_objective [do_stitch={do_stitch}]", "the jitted objective does not evaluate objective(stitch([fixed, pars]), data, pdf) with the viewer [fixed_idx, variable_idx]", expected=wantv, found=f"{v}; {ev}")
        except Undecided as e:
            ctx.unrecognised(rid, fo, "_final_objective", str(e))


def _optimizers_interpreted(ctx, rid, repo):
    """scipy_optimizer._minimize and minuit_optimizer._get_minimizer interpreted (object model) with recording solvers:
    what the solver is handed, per call, and that nothing of one call survives into the next."""
    from fractions import Fraction as F_
    from ..alg import AutoRegion, NotHandled
    from ..objmodel import World
    at, c = Poly.atom, Poly.const
    errs = (Undecided, KeyError, TypeError, ValueError, IndexError, AttributeError)
    # ---- scipy
    sc = repo.cls(OPT + "opt_scipy.py", "scipy_optimizer")
    try:
        rec = []
        w = World({"__strict__": True}, module_env={"exceptions": Obj("exceptions")})
        w.add_class(sc)
        inst = w.new(sc, [], {}) if False else None
        from ..objmodel import Instance
        inst = Instance(sc)
        inst.attrs.update({"maxiter": at("DEFAULT_MAXITER"), "verbose": False, "tolerance": None, "solver_options": {}})
        solver = PyFunc(lambda a, k: (rec.append((a, k)) or Obj("RESULT")), "minimizer")
        attrs_at_start = {k_: (v_ if isinstance(v_, (bool, dict)) or v_ is None else str(to_poly(v_))) for k_, v_ in inst.attrs.items()}
        attrs_at_start = {k_: (dict(v_) if isinstance(v_, dict) else v_) for k_, v_ in attrs_at_start.items()}
        caller_bounds = [(at("l0"), at("h0")), (at("l1"), at("h1")), (at("l2"), at("h2"))]  # ONE list object, as a caller reusing its bounds for several fits passes it
        bounds_before = [[str(to_poly(y)) for y in x] for x in caller_bounds]
        for lab, opts in (("first fit, maxiter=M1", {"maxiter": at("M1")}), ("second fit, defaults", {}), ("third fit, solver_options ftol", {"solver_options": {"ftol": at("FTOL")}}), ("fourth fit, defaults", {}),
                          ("fifth fit, method=L-BFGS-B", {"method": "L-BFGS-B"}), ("sixth fit, method=TNC", {"method": "TNC"}), ("seventh fit, defaults", {}),
                          ("eighth fit, tolerance=T1", {"tolerance": at("T1")}), ("ninth fit, defaults", {}), ("tenth fit, verbose=1", {"verbose": c(1)}), ("eleventh fit, defaults", {})):
            x0 = [at("x0"), at("x1"), at("x2")]
            w.call_method(inst, "_minimize", [solver, Obj("FUNC"), x0], {"do_grad": Obj("DO_GRAD"), "bounds": caller_bounds, "fixed_vals": [(c(1), at("v1"))], "options": dict(opts)})
            a, k = rec[-1]
            if [[str(to_poly(y)) for y in x] for x in caller_bounds] != bounds_before:
                ctx.violated(rid, sc.methods["_minimize"], f"caller's bounds [{lab}]", "the fit writes into the bounds list the caller passed (a fixed parameter's bound is overwritten in place): the next fit that reuses the list is silently confined to the previous fit's fixed value", expected=str(bounds_before), found=str([[str(to_poly(y)) for y in x] for x in caller_bounds]))
                caller_bounds[:] = [(at("l0"), at("h0")), (at("l1"), at("h1")), (at("l2"), at("h2"))]
                continue
            want_tol = "T1" if "tolerance" in opts else None
            got_tol = None if k.get("tol") is None else str(to_poly(k.get("tol")))
            want_disp = "verbose" in opts
            attrs_now = {k_: (v_ if isinstance(v_, (bool, dict)) or v_ is None else str(to_poly(v_))) for k_, v_ in inst.attrs.items()}
            if got_tol != want_tol or attrs_now != attrs_at_start:
                ctx.violated(rid, sc.methods["_minimize"], f"tolerance / optimizer state [{lab}]", "a per-fit option (tolerance, verbose ...) given to ONE fit is still in force for a later fit, or was written onto the optimizer object: every later fit of the session -- the five fits of a hypothesis test among them -- silently runs with the earlier fit's setting", expected=f"tol={want_tol}; optimizer attributes {attrs_at_start}", found=f"tol={got_tol}; optimizer attributes {attrs_now}")
                continue
            opts = {k_: v_ for k_, v_ in opts.items() if k_ not in ("method", "tolerance", "verbose")}
            o = k.get("options") or {}
            want_maxiter = "M1" if "maxiter" in opts else "DEFAULT_MAXITER"
            want_keys = {"maxiter", "disp"} | set(opts.get("solver_options", {}))
            got = {kk: (str(to_poly(vv)) if not isinstance(vv, bool) else vv) for kk, vv in o.items()}
            site = f"{OPT}opt_scipy.py::scipy_optimizer._minimize [{lab}]"
            start = [str(to_poly(x)) for x in (a[1] if len(a) > 1 else k.get("x0", []))]
            if got.get("maxiter") != want_maxiter or set(got) != want_keys or got.get("disp") is not want_disp:
                ctx.violated(rid, sc.methods["_minimize"], f"solver options [{lab}]", "the options handed to scipy.optimize.minimize are not this call's (maxiter / disp / solver_options): settings of an EARLIER fit on the same optimizer object leak into later fits", expected=f"maxiter={want_maxiter}, keys {sorted(want_keys)}", found=str(got))
            elif start != ["x0", "v1", "x2"]:
                ctx.violated(rid, sc.methods["_minimize"], f"start values [{lab}]", "a fixed parameter does not start at its fixed value", expected="['x0', 'v1', 'x2']", found=str(start))
            elif inst.attrs.get("solver_options") != {}:
                ctx.violated(rid, sc.methods["_minimize"], f"optimizer state [{lab}]", "a fit modifies the optimizer's own default solver options", found=str(inst.attrs.get("solver_options")))
            else:
                ctx.holds(rid, site, f"options {got}; fixed parameter starts at its value; optimizer state untouched")
    except errs as e:
        ctx.unrecognised(rid, sc, "scipy_optimizer._minimize", f"not interpretable: {type(e).__name__}: {e}")
    # ---- scipy, TWO parameters held constant (the POI of a fixed-POI fit and a parameter the measurement fixes): the equality
    # constraints handed to the solver, EVALUATED on a probe point, must vanish exactly when every fixed parameter sits at its own
    # value -- one residual per fixed parameter, not a combination that only pins their sum
    from .. import listnp as _lnp
    for lab, dg in (("do_grad=False", False), ("do_grad=True", True)):
        try:
            rec2 = []
            ext_ = dict(_lnp.externals())
            ext_["__strict__"] = True
            ext_["take"] = lambda a_, k_: ext_["gather"](a_, k_) if not k_ and len(a_) == 2 else (_ for _ in ()).throw(Undecided("take with an axis"))  # np.take(vector, positions)
            w2 = World(ext_, module_env={"exceptions": Obj("exceptions"), "np": Obj("np"), "numpy": Obj("numpy")})
            w2.add_class(sc)
            inst2 = Instance(sc)
            inst2.attrs.update({"maxiter": at("DEFAULT_MAXITER"), "verbose": False, "tolerance": None, "solver_options": {}})
            solver2 = PyFunc(lambda a, k: (rec2.append((a, k)) or Obj("RESULT")), "minimizer")
            w2.call_method(inst2, "_minimize", [solver2, Obj("FUNC"), [at("x0"), at("x1"), at("x2"), at("x3")]], {"do_grad": dg, "bounds": [(at("l0"), at("h0")), (at("l1"), at("h1")), (at("l2"), at("h2")), (at("l3"), at("h3"))], "fixed_vals": [(c(1), at("v1")), (c(3), at("v3"))], "options": {}})
            a, k = rec2[-1]
            cons = k.get("constraints") or []
            cons = cons if isinstance(cons, (list, tuple)) else [cons]
            probe = _lnp.T([at("p0"), at("p1"), at("p2"), at("p3")])
            res = []
            for cn in cons:
                if not (isinstance(cn, dict) and cn.get("type") == "eq"):
                    raise Undecided("a constraint that is not an equality dict")
                f_ = cn.get("fun")
                it_ = Interp({}, {}, {}, externals=w2.externals())
                r_ = it_._call_closure(f_, [probe]) if isinstance(f_, Closure) else (f_.fn([probe], {}) if isinstance(f_, PyFunc) else None)
                if r_ is None:
                    raise Undecided("constraint function is not a closure")
                res += [str(to_poly(y)) for y in (r_ if isinstance(r_, (list, tuple)) else [r_])]
            want = sorted(["p1 - v1", "p3 - v3"])
            neg = sorted([str(to_poly(at("v1") - at("p1"))), str(to_poly(at("v3") - at("p3")))])  # the same residuals with the other sign
            start = [str(to_poly(x)) for x in (a[1] if len(a) > 1 else k.get("x0", []))]
            if sorted(res) not in (want, neg):
                ctx.violated(rid, sc.methods["_minimize"], f"equality constraints for two fixed parameters [{lab}]", "the constraints handed to the solver do not pin EACH constant parameter at its own value (one residual per fixed parameter): with a second constant parameter besides the POI only a combination is held, the conditional fit is not at the tested mu and the statistic is not the profile likelihood ratio", expected=str(want), found=str(res))
            elif start != ["x0", "v1", "x2", "v3"]:
                ctx.violated(rid, sc.methods["_minimize"], f"start values for two fixed parameters [{lab}]", "a fixed parameter does not start at its fixed value", expected="['x0', 'v1', 'x2', 'v3']", found=str(start))
            else:
                ctx.holds(rid, f"{OPT}opt_scipy.py::scipy_optimizer._minimize [two fixed parameters, {lab}]", f"equality residuals {res}; start {start}")
        except errs as e:
            ctx.unrecognised(rid, sc, f"scipy_optimizer._minimize [two fixed parameters, {lab}]", f"not interpretable: {type(e).__name__}: {e}")
    # ---- minuit
    mc_ = repo.cls(OPT + "opt_minuit.py", "minuit_optimizer")
    for lab, vfix in (("fixed value inside its bounds", F_(2)), ("fixed value ON its lower bound", F_(0)), ("fixed value ON its upper bound", F_(10))):
        try:
            made = []

            def minuit_ctor(a, k, made=made):
                made.append((a, k))
                return Obj("MINUIT")

            region = AutoRegion()
            region.update({"l0": F_(0), "h0": F_(10), "v0": vfix, "l1": F_(-5), "h1": F_(5), "i1": F_(1), "i0": F_(1)})
            w = World({"__strict__": True, "Minuit": minuit_ctor}, region=region, module_env={"iminuit": Obj("iminuit"), "exceptions": Obj("exceptions")})
            from ..objmodel import Instance
            inst = Instance(mc_)
            inst.attrs.update({"verbose": False, "errordef": c(1)})
            w.add_class(mc_)
            init_pars = [at("i0"), at("i1")]
            bounds = [(at("l0"), at("h0")), (at("l1"), at("h1"))]
            bounds_before = [[str(to_poly(y)) for y in x] for x in bounds]
            mobj = w.call_method(inst, "_get_minimizer", [Obj("OBJECTIVE"), init_pars, bounds], {"fixed_vals": [(c(0), at("v0"))], "do_grad": False, "par_names": None})
            try:
                bounds_after = [[str(to_poly(y)) for y in x] for x in bounds]
            except (Undecided, TypeError):
                bounds_after = "<no longer pairs of numbers>"
            if bounds_after != bounds_before:
                ctx.violated(rid, mc_.methods["_get_minimizer"], f"the caller's bounds [{lab}]", "building the Minuit object rewrites the bounds list the CALLER passed (shim hands it through uncopied): after a fit that holds a parameter on its bound, the caller's next fit with the same list runs with other limits", expected=str(bounds_before), found=str(bounds_after))
                continue
            a, k = made[-1]
            start = [str(to_poly(x)) for x in a[1]]
            lim = mobj.attrs.get("limits")
            fixed = mobj.attrs.get("fixed")
            ok_lim = lim is bounds or [[str(to_poly(y)) for y in x] for x in (lim or [])] == [["l0", "h0"], ["l1", "h1"]]
            if start != ["v0", "i1"]:
                ctx.violated(rid, mc_.methods["_get_minimizer"], f"Minuit start values [{lab}]", "a parameter that is held constant is not started (and therefore not held) exactly at its supplied value", expected="['v0', 'i1']", found=str(start))
            elif list(fixed or []) != [True, False] or not ok_lim:
                ctx.violated(rid, mc_.methods["_get_minimizer"], f"Minuit limits / fixed flags [{lab}]", "Minuit is not told the bounds and the constant parameters of this fit", expected="limits = bounds, fixed = [True, False]", found=f"limits={lim} fixed={fixed}")
            else:
                ctx.holds(rid, f"{OPT}opt_minuit.py::minuit_optimizer._get_minimizer [{lab}]", "start = [v0, i1]; limits = bounds; fixed = [True, False]")
        except errs as e:
            ctx.unrecognised(rid, mc_, f"minuit_optimizer._get_minimizer [{lab}]", f"not interpretable: {type(e).__name__}: {e}")


def _optimizer_construction(ctx, rid, repo):
    """The optimizer classes constructed through their real constructor chain (class -> OptimizerMixin) with every
    documented option given, then one default fit: what the solver is configured with is what the constructor was told."""
    from ..alg import NotHandled, RaisedInFragment
    from ..objmodel import World
    at, c = Poly.atom, Poly.const
    errs = (Undecided, KeyError, TypeError, ValueError, IndexError, AttributeError)
    mixin = repo.cls(OPT + "mixins.py", "OptimizerMixin")
    for rel, cname, given, probe in (
        ("opt_scipy.py", "scipy_optimizer", {"tolerance": at("TOL"), "maxiter": at("MAXITER"), "verbose": c(1), "solver_options": {"ftol": at("FTOL")}}, "scipy"),
        ("opt_minuit.py", "minuit_optimizer", {"tolerance": at("TOL"), "maxiter": at("MAXITER"), "strategy": c(2), "errordef": at("ERRORDEF"), "steps": at("STEPS")}, "minuit"),
    ):
        cls = repo.cls(OPT + rel, cname)
        site = f"{OPT}{rel}::{cname}({', '.join(given)}) then a default fit"
        try:
            rec = []

            def migrad(recv, a, k, rec=rec):
                if isinstance(recv, Obj) and recv.name == "MINUIT":
                    rec.append({"tol": recv.attrs.get("tol"), "strategy": recv.attrs.get("strategy"), "maxiter": k.get("ncall", a[0] if a else None)})
                    return None
                raise NotHandled()

            w = World({"__strict__": True, ".migrad": migrad, ".hesse": lambda r_, a, k: None, ".correlation": lambda r_, a, k: Obj("CORR"), "OptimizeResult": lambda a, k: Obj("RESULT", dict(k))},
                      module_env={"exceptions": Obj("exceptions"), "scipy": Obj("scipy"), "iminuit": Obj("iminuit"), "log": Obj("log")})
            w.add_class(mixin).add_class(cls)

            def default_fit(world):
                """a default-constructed optimizer of this class in `world`, one default fit: what the solver is configured with"""
                d_inst = world.new(cls, [], {})
                n0 = len(rec)
                if probe == "scipy":
                    d_solver = PyFunc(lambda a, k, rec=rec: (rec.append({"tol": k.get("tol"), "maxiter": (k.get("options") or {}).get("maxiter"), "options": sorted((k.get("options") or {})), "disp": (k.get("options") or {}).get("disp")}) or Obj("RESULT")), "minimizer")
                    world.call_method(d_inst, "_minimize", [d_solver, Obj("FUNC"), [at("x0"), at("x1")]], {"do_grad": False, "bounds": [(at("l0"), at("h0")), (at("l1"), at("h1"))], "fixed_vals": [], "options": {}})
                else:
                    d_min = Obj("MINUIT", {"valid": True, "fmin": Obj("fmin"), "covariance": Obj("COV"), "errors": Obj("ERR"), "values": Obj("VALUES"), "fval": at("FVAL"), "nfcn": c(10), "ngrad": c(0)})
                    world.call_method(d_inst, "_minimize", [d_min, Obj("FUNC"), [at("x0"), at("x1")]], {"do_grad": False, "bounds": Obj("BOUNDS"), "fixed_vals": [], "options": {}})
                shown = {k_: (v_ if isinstance(v_, (bool, list)) or v_ is None else str(to_poly(v_))) for k_, v_ in rec[n0].items()}
                shown.update({k_: (None if d_inst.attrs.get(k_) is None else str(to_poly(d_inst.attrs.get(k_)))) for k_ in ("errordef", "steps") if k_ in d_inst.attrs})
                return shown

            w_fresh = World(dict(w.base), module_env=dict(w.module_env))
            w_fresh.add_class(mixin).add_class(cls)
            fresh_default = default_fit(w_fresh)
            inst = w.new(cls, [], dict(given))
            if probe == "scipy":
                solver = PyFunc(lambda a, k, rec=rec: (rec.append({"tol": k.get("tol"), "maxiter": (k.get("options") or {}).get("maxiter"), "ftol": (k.get("options") or {}).get("ftol"), "disp": (k.get("options") or {}).get("disp")}) or Obj("RESULT")), "minimizer")
                w.call_method(inst, "_minimize", [solver, Obj("FUNC"), [at("x0"), at("x1")]], {"do_grad": False, "bounds": [(at("l0"), at("h0")), (at("l1"), at("h1"))], "fixed_vals": [], "options": {}})
                want = {"tol": "TOL", "maxiter": "MAXITER", "ftol": "FTOL", "disp": True}
            else:
                minimizer = Obj("MINUIT", {"valid": True, "fmin": Obj("fmin"), "covariance": Obj("COV"), "errors": Obj("ERR"), "values": Obj("VALUES"), "fval": at("FVAL"), "nfcn": c(10), "ngrad": c(0)})
                w.call_method(inst, "_minimize", [minimizer, Obj("FUNC"), [at("x0"), at("x1")]], {"do_grad": False, "bounds": Obj("BOUNDS"), "fixed_vals": [], "options": {}})
                want = {"tol": "TOL", "strategy": "2", "maxiter": "MAXITER"}
            got = {k_: (v_ if isinstance(v_, bool) else (str(to_poly(v_)) if v_ is not None else None)) for k_, v_ in rec[-1].items()}
            bad = sorted(k_ for k_ in want if got.get(k_) != want[k_])
            kept = {k_: inst.attrs.get(k_) for k_ in ("errordef", "steps") if k_ in given}
            lost = sorted(k_ for k_, v_ in kept.items() if v_ is None or str(to_poly(v_)) != str(to_poly(given[k_])))
            if bad or lost:
                what = bad[0] if bad else lost[0]
                opt_name = {"tol": "tolerance", "ftol": "solver_options", "disp": "verbose"}.get(what, what)
                ctx.violated(rid, cls.methods["__init__"], f"{cname}: option `{opt_name}` given to the constructor", f"an optimizer constructed with `{opt_name}` = {given.get(opt_name)} runs its fits with {what} = {got.get(what, inst.attrs.get(what))}: the setting is overwritten or dropped on the way through the constructor chain (class, then OptimizerMixin), so the fit stops at another tolerance / iteration limit than the user configured", expected=str(want), found=str(got))
            else:
                ctx.holds(rid, site, f"solver configured with {want}")
            # HISTORY: a default-constructed optimizer made AFTER the customised one (same process) fits like one made in a fresh process
            later_default = default_fit(w)
            if later_default != fresh_default:
                diff = sorted(k_ for k_ in set(later_default) | set(fresh_default) if later_default.get(k_) != fresh_default.get(k_))
                ctx.violated(rid, cls.methods["__init__"], f"{cname}() constructed after {cname}({', '.join(given)})", f"a default-constructed optimizer inherits `{diff[0]}` = {later_default.get(diff[0])} from an optimizer constructed EARLIER in the process with other settings (a fresh process gives {fresh_default.get(diff[0])}): the settings are kept in a container shared by all instances", expected=str(fresh_default), found=str(later_default))
            else:
                ctx.holds(rid, f"{OPT}{rel}::{cname}() after {cname}(<every option>) in one process", f"fits like a default optimizer of a fresh process: {fresh_default}")
            # HISTORY: the user edits the option containers of ONE default-constructed optimizer in place; the next default one is unaffected
            edited = w.new(cls, [], {})
            touched = []
            for an_, av_ in list(edited.attrs.items()):
                if isinstance(av_, dict):
                    av_["edited_by_the_user"] = at("EDITED")
                    touched.append(an_)
                elif type(av_) is list:
                    av_.append(at("EDITED"))
                    touched.append(an_)
            after_edit = default_fit(w)
            if after_edit != fresh_default:
                diff = sorted(k_ for k_ in set(after_edit) | set(fresh_default) if after_edit.get(k_) != fresh_default.get(k_))
                ctx.violated(rid, cls.methods["__init__"], f"{cname}() constructed after another default {cname}'s {touched} was edited in place", f"a default-constructed optimizer shares its option container with every other default-constructed one (a mutable default argument / class-level container): editing one optimizer's options changes `{diff[0]}` of all later ones ({after_edit.get(diff[0])} instead of {fresh_default.get(diff[0])})", expected=str(fresh_default), found=str(after_edit))
            elif touched:
                ctx.holds(rid, f"{OPT}{rel}::{cname}() after another default {cname}'s {touched} was edited in place", "own containers: unaffected")
        except RaisedInFragment as e:
            ctx.violated(rid, cls.methods["__init__"], f"{cname} construction", f"raises {e.exc_name} on documented options")
        except errs as e:
            ctx.unrecognised(rid, cls, f"{cname} construction", f"not interpretable: {type(e).__name__}: {e}")


def _mle_history(ctx, rid, repo):
    """infer/mle.py interpreted as a whole (every function of the module, memoising decorators honoured) against a REAL
    _ModelConfig holding real parameter sets: six fits in one process on one model object whose defaults are changed the
    documented way and whose POI is moved (set_poi) in between."""
    from ..alg import NotHandled, RaisedInFragment
    from ..objmodel import Instance, World
    at, c = Poly.atom, Poly.const
    PDF_, MIX_, PS_ = "src/pyhf/pdf.py", "src/pyhf/mixins.py", "src/pyhf/parameters/paramsets.py"
    mod = repo.module(MLE)
    fit, fpf = mod.funcs.get("fit"), mod.funcs.get("fixed_poi_fit")
    if fit is None or fpf is None:
        ctx.unrecognised(rid, mod, "mle", "fit / fixed_poi_fit not found")
        return
    errs = (Undecided, KeyError, TypeError, ValueError, IndexError, AttributeError)
    rec = []

    def minimize(recv, a, k):
        if not (isinstance(recv, Obj) and recv.name == "optimizer"):
            raise NotHandled()
        kk = dict(k)
        for nm, v in zip(("objective", "data", "pdf", "init_pars", "par_bounds", "fixed_vals"), a):
            kk[nm] = v
        rec.append(kk)
        return Obj("FITRESULT")

    try:
        psm = repo.module(PS_)
        mc, mix = repo.cls(PDF_, "_ModelConfig"), repo.cls(MIX_, "_ChannelSummaryMixin")
        w = World({"__strict__": True, "get_backend": (lambda tl_, op_: (lambda a, k: (tl_, op_)))(_tensorlib_obj(), Obj("optimizer")), ".minimize": minimize},
                  module_env={"log": Obj("log"), "functools": Obj("functools"), "operator": Obj("operator"), "exceptions": Obj("exceptions"), "pyhf": Obj("pyhf")})
        w.add_class(mix).add_class(mc)
        for c_ in psm.classes.values():
            w.add_class(c_)
        w.base["_validate_fit_inputs"] = lambda a, k: None  # numeric admissibility of the start point: not part of this rule
        for q, g in mod.funcs.items():
            if "." not in q and q not in ("__dir__", "_validate_fit_inputs"):
                w.add_func(g)

        def pset(cls, name, n, fixed, **extra):
            return w.new(psm.classes[cls], [], {"name": name, "n_parameters": c(n), "inits": [at(f"{name}_i{j}") for j in range(n)], "bounds": [(at(f"{name}_l{j}"), at(f"{name}_h{j}")) for j in range(n)], "fixed": fixed, "is_scalar": n == 1 and cls == "unconstrained", **extra})

        sets = [("beta", pset("constrained_by_normal", "beta", 2, [False, True], auxdata=[at("ba0"), at("ba1")])), ("mu", pset("unconstrained", "mu", 1, False)), ("nu", pset("unconstrained", "nu", 1, False))]
        cfg = Instance(mc)
        w.call_method(cfg, "__init__", [{"channels": [{"name": "c", "samples": [{"name": "s", "data": [at("d0")], "modifiers": [{"name": n_, "type": "normfactor", "data": None} for n_, _ in sets]}]}]}], {})
        w.call_method(cfg, "set_parameters", [{n_: p_ for n_, p_ in sets}])
        w.call_method(cfg, "set_poi", ["mu"])
        pdf = Obj("pdf", {"config": cfg})
        data = Obj("data")
        names = ["beta_i0", "beta_i1", "mu_i0", "nu_i0"]
        bnds = [["beta_l0", "beta_h0"], ["beta_l1", "beta_h1"], ["mu_l0", "mu_h0"], ["nu_l0", "nu_h0"]]

        def show(kk):
            iv = [str(to_poly(x)) for x in kk.get("init_pars", [])]
            bv = [[str(to_poly(y)) for y in x] for x in kk.get("par_bounds", [])] if isinstance(kk.get("par_bounds"), list) else getattr(kk.get("par_bounds"), "name", "?")
            fv = [(int(to_poly(a_).const_value()), str(to_poly(b_))) for a_, b_ in (kk.get("fixed_vals") or [])]
            return iv, bv, fv

        def expect(lab, kk, init, bounds, fixed):
            iv, bv, fv = show(kk)
            want_fv = [(j, init[j]) for j, fl in enumerate(fixed) if fl]
            if kk.get("data") is not data or kk.get("pdf") is not pdf:
                return f"{lab}: the optimiser does not receive this call's data and model"
            if iv != init:
                return f"{lab}: the fit starts from {iv}; the model's configuration (or the caller) says {init}"
            if bv != bounds:
                return f"{lab}: the fit is bounded by {bv}; the model's configuration (or the caller) says {bounds}"
            if fv != want_fv:
                return f"{lab}: the parameters held constant are {fv}; the model's configuration (or the caller) says {want_fv}"
            return None

        probs = []
        w.call_func(fit, [data, pdf], {})
        probs.append(expect("first fit, defaults", rec[-1], names, bnds, [False, True, False, False]))
        # the documented way of changing a model's fit defaults: assign to the parameter sets' suggested_* (same objects)
        mu_set, nu_set = sets[1][1], sets[2][1]
        mu_set.attrs["suggested_init"] = [at("mu_new")]
        nu_set.attrs["suggested_bounds"] = [(at("nu_nl"), at("nu_nh"))]
        setter = psm.classes["paramset"].setters.get("suggested_fixed") if hasattr(psm.classes["paramset"], "setters") else None
        if setter is not None:
            Interp({"self": nu_set, "value": True}, nu_set.attrs, {}, methods={n: m_.node for n, m_ in w.methods_of(nu_set.cls).items()}, cls_name=nu_set.cls.name, externals=w.externals()).run(A.strip_docstring(setter.node.body))
        else:
            nu_set.attrs["_suggested_fixed"] = True
        names2 = ["beta_i0", "beta_i1", "mu_new", "nu_i0"]
        bnds2 = [["beta_l0", "beta_h0"], ["beta_l1", "beta_h1"], ["mu_l0", "mu_h0"], ["nu_nl", "nu_nh"]]
        w.call_func(fit, [data, pdf], {})
        probs.append(expect("second fit on the same model after its suggested init / bounds / fixed flags were changed", rec[-1], names2, bnds2, [False, True, False, True]))
        w.call_func(fpf, [at("POI"), data, pdf], {})
        probs.append(expect("fixed-POI fit (POI mu) with the model's defaults", rec[-1], ["beta_i0", "beta_i1", "POI", "nu_i0"], bnds2, [False, True, True, True]))
        w.call_method(cfg, "set_poi", ["nu"])
        w.call_func(fpf, [at("POI"), data, pdf], {})
        probs.append(expect("the same fixed-POI fit after model.config.set_poi('nu')", rec[-1], ["beta_i0", "beta_i1", "mu_new", "POI"], bnds2, [False, True, False, True]))
        w.call_method(cfg, "set_poi", ["mu"])
        w.call_func(fpf, [at("POI"), data, pdf], {})
        probs.append(expect("and again after set_poi('mu')", rec[-1], ["beta_i0", "beta_i1", "POI", "nu_i0"], bnds2, [False, True, True, True]))
        mine_i, mine_b, mine_f = [at("u0"), at("u1"), at("u2"), at("u3")], [(at(f"ul{j}"), at(f"uh{j}")) for j in range(4)], [False, False, False, False]
        w.call_func(fit, [data, pdf, mine_i, mine_b, mine_f], {})
        probs.append(expect("fit with explicit start values, bounds and an all-False mask", rec[-1], ["u0", "u1", "u2", "u3"], [[f"ul{j}", f"uh{j}"] for j in range(4)], [False] * 4))
        probs = [p_ for p_ in probs if p_]
        if len(rec) != 6:
            probs.append(f"{len(rec)} minimisations for 6 fits: a fit was answered from memory although the model's configuration had changed")
        if probs:
            ctx.violated(rid, fit, "fits on one model across configuration changes", "a fit does not use the model's CURRENT configuration (suggestions, POI) or the caller's arguments: " + probs[0], expected="start values, bounds, fixed parameters and POI of this call", found=f"{len(probs)} deviation(s)")
        else:
            ctx.holds(rid, f"{MLE}::fit / fixed_poi_fit [6 fits on one model; defaults changed, POI moved in between]", "each fit starts from, is bounded by and holds constant what the model currently says or the caller passed")
    except RaisedInFragment as e:
        ctx.violated(rid, fit, "fits on one model", f"raises {e.exc_name} on valid inputs")
    except errs as e:
        ctx.unrecognised(rid, fit, "mle history", f"not interpretable: {type(e).__name__}: {e}")


def _minuit_minimize_history(ctx, rid, repo):
    """minuit_optimizer._minimize, four fits on ONE optimizer object: what Minuit is configured with at migrad() is this
    call's options or the optimizer's configured defaults -- never what an earlier fit was given."""
    from ..objmodel import Instance, World
    at, c = Poly.atom, Poly.const
    mc_ = repo.cls(OPT + "opt_minuit.py", "minuit_optimizer")
    mm = mc_.methods.get("_minimize")
    if mm is None:
        ctx.unrecognised(rid, mc_, "minuit_optimizer._minimize", "not found")
        return
    ctx.touch(mm)
    try:
        rec = []

        def migrad(recv, a, k):
            if not (isinstance(recv, Obj) and recv.name == "MINUIT"):
                from ..alg import NotHandled
                raise NotHandled()
            rec.append({"tol": recv.attrs.get("tol"), "strategy": recv.attrs.get("strategy"), "ncall": k.get("ncall", a[0] if a else None)})
            return None

        w = World({"__strict__": True, ".migrad": migrad, ".hesse": lambda r_, a, k: None, ".correlation": lambda r_, a, k: Obj("CORR"), "OptimizeResult": lambda a, k: Obj("RESULT", dict(k))},
                  module_env={"exceptions": Obj("exceptions"), "scipy": Obj("scipy"), "iminuit": Obj("iminuit")})
        w.add_class(mc_)
        inst = Instance(mc_)
        defaults = {"maxiter": at("DEFAULT_MAXITER"), "strategy": None, "tolerance": at("DEFAULT_TOL"), "errordef": c(1), "steps": c(1000), "verbose": False, "name": "minuit"}
        inst.attrs.update(defaults)
        plan = (("first fit, tolerance=T1", {"tolerance": at("T1")}), ("second fit, defaults", {}), ("third fit, strategy=2 maxiter=M3", {"strategy": c(2), "maxiter": at("M3")}), ("fourth fit, defaults", {}))
        for lab, opts in plan:
            minimizer = Obj("MINUIT", {"valid": True, "fmin": Obj("fmin"), "covariance": Obj("COV"), "errors": Obj("ERR"), "values": Obj("VALUES"), "fval": at("FVAL"), "nfcn": c(10), "ngrad": c(0)})
            w.call_method(inst, "_minimize", [minimizer, Obj("FUNC"), [at("x0"), at("x1")]], {"do_grad": False, "bounds": Obj("BOUNDS"), "fixed_vals": [], "options": dict(opts)})
            got = rec[-1]
            want = {"tol": str(to_poly(opts.get("tolerance", at("DEFAULT_TOL")))), "strategy": str(to_poly(opts.get("strategy", c(1)))), "ncall": str(to_poly(opts.get("maxiter", at("DEFAULT_MAXITER"))))}
            g = {k_: (str(to_poly(v_)) if v_ is not None else None) for k_, v_ in got.items()}
            changed = sorted(k_ for k_, v_ in defaults.items() if not (inst.attrs.get(k_) is v_ or inst.attrs.get(k_) == v_))
            site = f"{OPT}opt_minuit.py::minuit_optimizer._minimize [{lab}]"
            if g != want:
                ctx.violated(rid, mm, f"Minuit configuration [{lab}]", "Minuit runs with settings (tolerance / strategy / call limit) that are neither this fit's options nor the optimizer's configured defaults: an option given to an EARLIER fit on the same optimizer object stays in force", expected=str(want), found=str(g))
            elif changed:
                ctx.violated(rid, mm, f"optimizer state [{lab}]", f"a fit rewrites the optimizer's configured {changed}: a per-call option becomes the default of every later fit with that optimizer", expected="configured defaults untouched", found=str({k_: str(inst.attrs.get(k_)) for k_ in changed}))
            else:
                ctx.holds(rid, site, f"migrad with {want}; configured defaults untouched")
    except (Undecided, KeyError, TypeError, ValueError, IndexError, AttributeError) as e:
        ctx.unrecognised(rid, mc_, "minuit_optimizer._minimize", f"not interpretable: {type(e).__name__}: {e}")


def jax_objective_point(ctx, rid, repo, table, mk, shim):
    """shim o _final_objective composed by interpretation (shared by C05.R4 and C13.R4)."""
    from . import viewers as _viewers
    # jax: the jitted objective stitches by itself from the pieces shim hands over -- composed end to end, for fixed
    # parameters listed in ascending AND in another order (the optimiser API accepts any order)
    jrel = table.get("jax")
    if jrel is not None and repo.has_func(jrel, "_final_objective"):
        fo = repo.func(jrel, "_final_objective")
        ctx.touch(fo)
        for fixed_list in ([0, 2], [2, 0], [1], [3, 0, 1]):
            npar = 4
            free_at = [j for j in range(npar) if j not in fixed_list]
            site = f"{jrel}::_final_objective o shim [fixed_vals listed as {fixed_list}]"
            try:
                cap = {}

                def wrap_rec(a2, k2, cap=cap):
                    cap["jit_pieces"] = k2.get("jit_pieces")
                    return Obj("OBJECTIVE")

                seen_obj = []
                w = _viewers.world(repo, {"_get_tensor_shim": lambda a, k: PyFunc(wrap_rec, "wrap_objective"), "debug": lambda a, k: None})
                w.module_env["log"] = Obj("log")
                w.add_func(mk).add_func(shim).add_func(fo)
                pdf_ = Obj("pdf", {"config": Obj("config", {"npars": Poly.const(npar)})})
                w.call_func(shim, [Obj("objective"), Obj("data"), pdf_, [Poly.atom(f"i{j}") for j in range(npar)], [Poly.atom(f"b{j}") for j in range(npar)]],
                            {"fixed_vals": [(Poly.const(j), Poly.atom(f"v{j}")) for j in fixed_list], "do_grad": True, "do_stitch": True})
                from ..alg import as_record
                jp = cap.get("jit_pieces")
                objective = PyFunc(lambda a, k: (seen_obj.append(a[0]) or [Poly.atom("NLL")]), "objective")
                from ..listnp import T as _T
                # shim -> (the jax shim's own call site) -> the jitted function: whatever order and names the private
                # objective's parameters have, the call site and the definition are composed as they are written
                wj = repo.func(jrel, "wrap_objective")

                def jitted(a, k):
                    return w.call_func(fo, list(a), dict(k))

                w.base["_jitted_objective"] = jitted
                w.base["_jitted_objective_and_grad"] = lambda a, k: (jitted(a, k), Poly.atom("GRAD"))
                w.add_func(wj)
                func_ = w.call_func(wj, [objective, Obj("data"), pdf_, Obj("STITCH_UNUSED"), False, jp])
                w.ext = None
                if isinstance(func_, Closure):
                    func_.interp.call_function(func_.node, [_T([Poly.atom(f"q{j}") for j in free_at])], {})
                elif isinstance(func_, PyFunc):
                    func_.f([_T([Poly.atom(f"q{j}") for j in free_at])], {})
                else:
                    raise Undecided("the jax shim does not return a function")
                got = [str(to_poly(x)) for x in seen_obj[0]]
                want = [f"v{j}" if j in fixed_list else f"q{j}" for j in range(npar)]
                if got == want:
                    ctx.holds(rid, site, f"objective evaluated at {want}")
                else:
                    ctx.violated(rid, fo, f"jax objective point [fixed_vals listed as {fixed_list}]", "on the jax path the objective (and hence its gradient) is evaluated at a vector in which the fixed parameters do not sit at their own indices with their own values", expected=str(want), found=str(got))
            except (Undecided, KeyError, TypeError, ValueError, IndexError, AttributeError) as e:
                ctx.unrecognised(rid, fo, f"jax objective point [fixed_vals listed as {fixed_list}]", f"not interpretable: {type(e).__name__}: {e}")

