"""C03 -- interpolation codes realise their defining piecewise functions.

  R1 CACHE  history independence: every cached tensor that depends on the
            alphasets shape is re-derived by the shape refresher, after the
            stored shape is updated, identically to the backend refresher;
            the early return compares whole shapes; __call__ refreshes first
  R2 CMP    regime thresholds (fast and slow agree, and equal the published
            ones) and orientation (positive outer regime reads up-side data
            only, negative outer regime down-side data only)
  R3 FILL   no redundant neutral arithmetic (x + <all-zeros attribute>)
  R4 FOLD   both A_inverse literals are the exact inverse of the defining
            matrix of code 4 (symbolic in alpha0); the right-hand side vector
            is the defining one, row for row
  R5 ALG    piecewise identities: fast == slow on every region; neutral at 0;
            up at +1, down at -1; continuity at every threshold (C1, C2 for
            codes 4, 4p); extrapolation with the matching side
  R6 TABLE  interpolators.get pairs codeX with _slow_codeX, constructor
            signatures agree, histosys/normsys whitelists contain only
            additive / multiplicative codes
"""

from __future__ import annotations

import ast
from fractions import Fraction

from .. import astutil as A
from ..alg import HistSet, Interp, Poly, Undecided, fn, to_poly
from ..alg import tensorlib_obj as _tensorlib_obj
from ..dep import Deps
from ..prov import subscriptions

EXPLANATION = (
    "The five fast interpolators and their scalar reference twins are abstractly interpreted (no execution) in the "
    "domain of Laurent polynomials with exact rational coefficients over atoms alpha, D, N, U, alpha0 and opaque "
    "pow/log atoms, once per region of the real line cut at the thresholds the code itself compares alpha with "
    "(discovered to a fixpoint). Obligations are polynomial identities: fast == slow per region, value at 0/+1/-1, "
    "equality of one-sided limits (and of formal first/second derivatives for codes 4 and 4p) at each threshold, "
    "outer regions read only the matching side's data. The 6x6 A_inverse literals of code4 (fast and slow) are "
    "multiplied symbolically in alpha0 with the matrix defined by the statement (rows f(+-a0), f'(+-a0), f''(+-a0)): "
    "product must be the identity, and the rhs vector must be the defining one. The cache rule (history clause) is "
    "a dataflow rule on _precompute/_precompute_alphasets/__call__. NOT decided: floating-point behaviour next to "
    "breakpoints, backend numerics, positivity requirements of the exponential codes."
)
ASSUMPTIONS = [
    "einsum / where / power / stack semantics table of pyhfsa.alg (element-wise unless an explicit literal axis is contracted)",
    "published piecewise definitions (CERN-OPEN-2012-016, ROOT PiecewiseInterpolation / FlexibleInterpVar)",
]

INIT = "src/pyhf/interpolators/__init__.py"
ADDITIVE_EXPECTED = {0: [0], 2: [-1, 1], "4p": [-1, 1]}
MULT_EXPECTED = {1: [0], 4: ["-a0", "a0"]}
A0_REP = Fraction(2)


def pairs(repo):
    """[(key, fast Class, slow Class)] from the dict literal in interpolators.get."""
    m = repo.module(INIT)
    g = repo.func(INIT, "get")
    out = []
    for n in ast.walk(g.node):
        if isinstance(n, ast.Dict) and len(n.keys) >= 3:
            for k, v in zip(n.keys, n.values):
                key = A.const_value(k)
                if isinstance(v, ast.IfExp) and isinstance(v.body, ast.Name) and isinstance(v.orelse, ast.Name):
                    kf, f = repo.resolve_name(m, v.body.id)
                    ks, s = repo.resolve_name(m, v.orelse.id)
                    if kf == "class" and ks == "class":
                        out.append((key, f, s, v))
    if out:
        return out
    # another spelling of the table (tuples indexed by the flag, two tables, a helper ...): ask the function itself
    from ..alg import Obj, RaisedInFragment
    keys, anchor = [], g.node
    for n in repo.walk_with_tables(g):
        if isinstance(n, ast.Dict) and len(n.keys) >= 3 and all(k is not None and A.is_const(k) for k in n.keys):
            keys, anchor = [A.const_value(k) for k in n.keys], n
    env = {}
    for nm in list(m.imports) + list(m.classes):
        kind, obj = repo.resolve_name(m, nm)
        if kind == "class":
            env[nm] = Obj("class:" + nm, {"__cls__": obj})
    for key in keys:
        try:
            kv = key if isinstance(key, str) else to_poly(key)
            fast = Interp(env, {}, {}).call_function(g.node, [kv], {"do_tensorized_calc": True})
            slow = Interp(env, {}, {}).call_function(g.node, [kv], {"do_tensorized_calc": False})
        except (Undecided, RaisedInFragment, KeyError, TypeError, IndexError):
            continue
        if isinstance(fast, Obj) and isinstance(slow, Obj) and "__cls__" in fast.attrs and "__cls__" in slow.attrs:
            out.append((key, fast.attrs["__cls__"], slow.attrs["__cls__"], anchor))
    return out


def slow_kernel(cls):
    call = cls.methods.get("__call__")
    if call is None:
        return None
    for c in A.calls_in(call.node):
        if A.call_attr(c) == "_slow_interpolator_looper":
            # the formula handed to the looper: third positional argument, a keyword, or whichever argument is a bound method
            cands = ([c.args[2]] if len(c.args) >= 3 else []) + [k.value for k in c.keywords if k.arg in ("func", "formula", "kernel")] + [k.value for k in c.keywords] + list(c.args)
            for a_ in cands:
                d = A.dotted(a_)
                if d and d.startswith("self.") and d.split(".")[1] in cls.methods and d.count(".") == 1:
                    return cls.methods.get(d.split(".")[1])
    return None


class Evaluator:
    """Evaluates one interpolator pair symbolically per region."""

    def __init__(self, key, fast, slow, a0):
        self.key, self.fast, self.slow = key, fast, slow
        self.a0 = a0  # Poly (atom 'a0' or a constant)
        self.alpha = Poly.atom("alpha")

    def region_env(self, r):
        env = {"alpha": Fraction(r)}
        if not self.a0.is_const():
            env["a0"] = A0_REP
        return env

    def eval_fast(self, r, seen):
        c = self.fast
        attrs = {}
        it = Interp({"histogramssets": HistSet(), "subscribe": True, "alpha0": self.a0}, attrs, self.region_env(r), cls_name=c.name)
        it.thresholds_seen = seen
        for mname in ("__init__",):
            it.run(A.strip_docstring(c.methods[mname].node.body))
        for mname in refreshers(c):
            it2 = Interp({}, attrs, self.region_env(r), cls_name=c.name)
            it2.thresholds_seen = seen
            it2.run(A.strip_docstring(c.methods[mname].node.body))
        it3 = Interp({"alphasets": self.alpha}, attrs, self.region_env(r), cls_name=c.name)
        it3.thresholds_seen = seen
        v = it3.run(A.strip_docstring(c.methods["__call__"].node.body))
        return to_poly(v), attrs

    def eval_slow(self, r, seen):
        k = slow_kernel(self.slow)
        if k is None:
            raise Undecided("slow kernel not found")
        attrs = {"alpha0": self.a0}
        it = Interp({}, attrs, self.region_env(r), cls_name=self.slow.name)
        it.thresholds_seen = seen
        v = it.call_function(k.node, [Poly.atom("D"), Poly.atom("N"), Poly.atom("U"), self.alpha], bind_self=True)
        return to_poly(v)

    def thresholds(self, which):
        """Discover the thresholds in alpha to a fixpoint. Returns sorted list of (numeric, symbolic Poly)."""
        found = {}
        todo = [Fraction(0)]
        done = set()
        for _ in range(8):
            if not todo:
                break
            r = todo.pop()
            if r in done:
                continue
            done.add(r)
            seen = []
            try:
                if which == "fast":
                    self.eval_fast(r, seen)
                else:
                    self.eval_slow(r, seen)
            except Undecided:
                pass
            for a, op, b in seen:
                d = a - b
                if "alpha" not in {x for m in d.t for x, _ in m}:
                    continue
                c1 = d.diff("alpha")
                if not c1.diff("alpha").is_zero() or c1.is_zero():
                    continue
                c0 = d.subs({"alpha": Poly()})
                t = -(c0 / c1)
                try:
                    tv = t.evalf({"a0": A0_REP})
                except Undecided:
                    continue
                if tv not in found:
                    found[tv] = t
            pts = sorted(found)
            reps = []
            if pts:
                reps = [pts[0] - 1] + pts + [(x + y) / 2 for x, y in zip(pts, pts[1:])] + [pts[-1] + 1]
            todo = [x for x in reps if x not in done]
        return sorted(found.items())


def refreshers(c):
    init = c.methods.get("__init__")
    subs = subscriptions(init.node) if init else {}
    return list(subs) or (["_precompute"] if "_precompute" in c.methods else [])


def regions_of(th):
    """[(label, representative, kind, sym)] for thresholds [(num, sym)]"""
    pts = [t for t, _ in th]
    out = []
    if not pts:
        return [("R", Fraction(0), "open", None)]
    out.append((f"(-inf,{th[0][1]})", pts[0] - 1, "open", None))
    for i, (t, s) in enumerate(th):
        out.append((f"[{s}]", t, "point", s))
        if i + 1 < len(th):
            out.append((f"({s},{th[i + 1][1]})", (t + pts[i + 1]) / 2, "open", None))
    out.append((f"({th[-1][1]},inf)", pts[-1] + 1, "open", None))
    return out


def run(ctx):
    repo = ctx.repo
    prs = pairs(repo)
    r6 = ctx.rule("C03.R6", "TABLE/SIB: interpolators.get pairs each fast code with its _slow_ twin, constructor signatures agree; histosys accepts only additive codes, normsys only multiplicative ones", "TABLE", floor=7)
    if len(prs) < 5:
        ctx.error(f"C03: only {len(prs)} (fast, slow) pairs found in interpolators.get, floor 5")
    g = repo.func(INIT, "get")
    ctx.touch(g)
    for key, f, s, node in prs:
        for m in list(f.methods.values()) + list(s.methods.values()):
            ctx.touch(m)
        if s.name == "_slow_" + f.name and f.name == f"code{key}":
            ctx.holds(r6, f"{INIT}::get[{key!r}]", f"{f.name} / {s.name}")
        else:
            ctx.violated(r6, g, node, f"interpolation code {key!r} maps to {f.name} / {s.name}: fast and reference implementation are not twins of that code", expected=f"code{key} / _slow_code{key}", node=node)
        pf = [p for p in A.params_of(f.methods["__init__"].node)]
        ps = [p for p in A.params_of(s.methods["__init__"].node)]
        if pf == ps:
            ctx.holds(r6, f"{f.relpath}::{f.name}.__init__ ~ {s.name}.__init__", str(pf))
        else:
            ctx.violated(r6, f.methods["__init__"], f"def __init__({', '.join(pf)})", f"constructor signatures of {f.name} and {s.name} differ", expected=str(pf), found=str(ps))

    r1 = ctx.rule("C03.R1", "CACHE: attributes whose refresh depends on self.alphasets_shape are all re-derived by the method __call__ invokes with shape(alphasets), after the stored shape is updated and with the same value expression as the backend refresher; the early return compares the whole shape; the refresh precedes every read", "CACHE", floor=10)
    r2 = ctx.rule("C03.R2", "CMP: thresholds in alpha are the published ones and agree fast<->slow; outer positive regime depends on up-side data only, outer negative regime on down-side data only", "CMP", floor=10)
    r3 = ctx.rule("C03.R3", "FILL (deviant belief): no element-wise `x +/- <attribute that is provably all zeros>` in __call__ (the author believed the operand was something else)", "FILL", floor=5)
    r5 = ctx.rule("C03.R5", "ALG: polynomial identities per region: fast == slow; neutral at alpha=0; up variation at +1, down at -1; continuity at every threshold (and of first and second formal derivative for codes 4, 4p); extrapolation uses the matching side", "ALG", floor=40)
    r7 = ctx.rule("C03.R7", "AXES/HISTORY: each vectorised code interpreted END TO END on a 2 systematics x 2 samples x 3 variations x 2 bins histogram set (list tensors): every cell (systematic, sample, alpha column, bin) of the result equals the scalar reference function of the same file applied to that cell's (down, nominal, up) and that systematic's alpha -- for alpha sets mixing all regimes and the breakpoints, and again after calls with other alpha-set shapes on the SAME interpolator", "AXES", floor=15)
    _axes_and_history(ctx, r7, repo, prs)
    r8 = ctx.rule("C03.R8", "LOOPER: the loop that applies a scalar reference formula cell by cell (_slow_interpolator_looper) interpreted twice in one process with two DIFFERENT formulas of one qualified name (two reference objects of one class, e.g. code 4 with another alpha0) on the same inputs: result[set][histogram][alpha][bin] is THIS formula applied to that bin's (down, nominal, up) and that set's alpha", "LOOPER", floor=2)
    _looper(ctx, r8, repo)
    r9 = ctx.rule("C03.R9", "GATE (interpreted, engine shared with C01.R11): the interpolated factor / shift reaches the rate only where the builder's mask is set: _nominal_and_modifiers_from_spec with the real normsys / histosys builders sets the mask wherever the sample declares the modifier -- a one-sided variation (lo exactly 1) included -- and hands each applier the interpolation code of THIS model's settings", "GATE", floor=5)
    from .c01 import _build_end_to_end, registry
    _build_end_to_end(ctx, r9, registry(repo))
    r4 = ctx.rule("C03.R4", "FOLD: each A_inverse literal times the defining matrix (rows f(a0), f(-a0), f'(a0), f'(-a0), f''(a0), f''(-a0) of sum a_i alpha^i) is the identity, symbolically in alpha0; rhs vector is [u^a0-1, d^a0-1, ln u u^a0, -ln d d^a0, ln^2 u u^a0, ln^2 d d^a0]", "FOLD", floor=2)

    kinds = {}
    for key, f, s, node in prs:
        _cache_rule(ctx, r1, f)
        _fill_rule(ctx, r3, f)
        kinds[f.name] = _alg_rules(ctx, r2, r5, key, f, s)
    _fold_rule(ctx, r4, prs)
    _whitelists(ctx, r6, kinds)


# ----------------------------------------------------------------------
def _cache_rule(ctx, rid, c):
    call = c.methods.get("__call__")
    init = c.methods.get("__init__")
    if call is None or init is None:
        ctx.unrecognised(rid, c, c.name, "no __call__/__init__")
        return
    site = f"{c.relpath}::{c.name}"
    # the shape refresher: method called from __call__ with shape(<argument>)
    param = [p for p in A.params_of(call.node) if p != "self"][0]
    refresher = None
    refresh_call = None
    for cc in A.calls_in(call.node, into_defs=False):
        d = A.dotted(cc.func)
        if d and d.startswith("self.") and cc.args and isinstance(cc.args[0], ast.Call) and A.call_attr(cc.args[0]) == "shape" and param in A.names_loaded(cc.args[0]):
            refresher = c.methods.get(d.split(".")[1])
            refresh_call = cc
    backend_refreshers = [c.methods[m] for m in refreshers(c) if m in c.methods]
    if refresher is None or not backend_refreshers:
        ctx.unrecognised(rid, c, "__call__", "no `self.<refresher>(shape(alphasets))` call found / no backend refresher")
        return
    # shape-dependent attributes: assigned in the backend refresher with an rhs that (transitively) reads the stored shape attribute
    rp = [p for p in A.params_of(refresher.node) if p != "self"][0]
    shape_attr = None
    for n in ast.walk(refresher.node):
        if isinstance(n, ast.Assign) and isinstance(n.value, ast.Name) and n.value.id == rp:
            for t in n.targets:
                d = A.dotted(t)
                if d and d.startswith("self."):
                    shape_attr = d
    if shape_attr is None:
        ctx.violated(rid, refresher, refresher.name, "the shape refresher never stores the new shape: every later call believes the old shape is current", expected="self.alphasets_shape = alphasets_shape", node=refresher.node)
        return
    dep_attrs = {}
    for br in backend_refreshers:
        dp = Deps(br.node)
        for n in A.walk_ordered(br.node, into_defs=False):
            if isinstance(n, ast.Assign):
                for t in n.targets:
                    d = A.dotted(t)
                    if d and d.startswith("self.") and d != shape_attr and dp.depends_on(n.value, shape_attr):
                        dep_attrs[d] = n
    # order inside the shape refresher: store of the shape precedes the re-derivations
    assigns = {}
    order = []
    for n in A.walk_ordered(refresher.node, into_defs=False):
        if isinstance(n, ast.Assign):
            for t in n.targets:
                d = A.dotted(t)
                if d and d.startswith("self."):
                    assigns[d] = n
                    order.append(d)
    for a, node in sorted(dep_attrs.items()):
        if a not in assigns:
            ctx.violated(rid, refresher, a, f"`{a}` is derived from {shape_attr} in {backend_refreshers[0].name} but not re-derived by {refresher.name}: after a call with a different alphasets shape it keeps the shape of the earlier call",
                         expected=f"{a} = ... inside {refresher.name}", found=f"assigned only in {[b.name for b in backend_refreshers]}", node=refresher.node)
        elif order.index(a) < order.index(shape_attr) and _reads(assigns[a].value, shape_attr):
            ctx.violated(rid, refresher, assigns[a], f"`{a}` is re-derived from {shape_attr} before the new shape is stored", node=assigns[a])
        elif A.unparse(assigns[a].value) != A.unparse(node.value) and not _same_value(c, assigns[a].value, node.value):
            ctx.violated(rid, refresher, assigns[a], f"`{a}` is derived differently by the shape refresher and by the backend refresher: its value depends on which of the two ran last (call history)",
                         expected=A.short(node.value, 80), found=A.short(assigns[a].value, 80), node=assigns[a])
        else:
            ctx.holds(rid, f"{site}: {a}", f"re-derived in {refresher.name} after {shape_attr}")
    # inside each refresher, a shape-dependent attribute may only be read after it was re-derived there
    for meth in [refresher] + backend_refreshers:
        done = set()
        for n in A.walk_ordered(meth.node, into_defs=False):
            if isinstance(n, ast.Assign):
                reads = {A.dotted(x) for x in ast.walk(n.value) if isinstance(x, ast.Attribute) and isinstance(x.ctx, ast.Load)}
                stale = sorted(a for a in reads if a in dep_attrs and a not in done)
                if stale:
                    ctx.violated(rid, meth, n, f"`{A.short(n, 70)}` reads {stale[0]} before {meth.name} has re-derived it: the value used still has the shape of the previous call (result depends on call history)",
                                 expected=f"{stale[0]} assigned earlier in {meth.name}, or a fresh tensor of the new shape", node=n)
                for t in n.targets:
                    d = A.dotted(t)
                    if d:
                        done.add(d)
    # early return compares whole shapes
    guards = [n for n in ast.walk(refresher.node) if isinstance(n, ast.If) and any(isinstance(x, ast.Return) for x in n.body)]
    for gd in guards:
        t = gd.test
        ok = isinstance(t, ast.Compare) and len(t.ops) == 1 and isinstance(t.ops[0], ast.Eq) and {A.unparse(t.left), A.unparse(t.comparators[0])} == {rp, shape_attr}
        if ok:
            ctx.holds(rid, f"{site}.{refresher.name}: if {A.short(t, 50)}: return", "whole-shape comparison")
        else:
            ctx.violated(rid, refresher, gd.test, "the early return of the shape refresher does not compare the whole new shape with the whole stored shape: a change in another dimension is missed",
                         expected=f"{rp} == {shape_attr}", found=A.short(t, 60), node=gd)
    # refresh precedes reads in __call__
    first_read = None
    for n in A.walk_ordered(call.node, into_defs=False):
        if isinstance(n, ast.Attribute) and isinstance(n.ctx, ast.Load) and A.dotted(n) in dep_attrs:
            first_read = n
            break
    if first_read is not None and (first_read.lineno, first_read.col_offset) < (refresh_call.lineno, refresh_call.col_offset):
        ctx.violated(rid, call, first_read, "a shape-dependent cached tensor is read before the shape refresh in __call__", node=first_read)
    else:
        ctx.holds(rid, f"{site}.__call__", f"{refresher.name}(shape({param})) precedes the first read of {sorted(dep_attrs)}")


def _reads(expr, attr):
    return any(A.dotted(n) == attr for n in ast.walk(expr) if isinstance(n, ast.Attribute))


def _same_value(c, a, b):
    try:
        attrs = {}
        it = Interp({"histogramssets": HistSet(), "subscribe": True, "alpha0": Poly.atom("a0")}, attrs, {}, cls_name=c.name)
        it.run(A.strip_docstring(c.methods["__init__"].node.body))
        for m in refreshers(c):
            Interp({}, attrs, {}, cls_name=c.name).run(A.strip_docstring(c.methods[m].node.body))
        i2 = Interp({}, attrs, {}, cls_name=c.name)
        return to_poly(i2.eval(a)) == to_poly(i2.eval(b))
    except Exception:
        return False


def _fill_rule(ctx, rid, c):
    call = c.methods.get("__call__")
    if call is None:
        return
    try:
        attrs = {}
        it = Interp({"histogramssets": HistSet(), "subscribe": True, "alpha0": Poly.atom("a0")}, attrs, {}, cls_name=c.name)
        it.run(A.strip_docstring(c.methods["__init__"].node.body))
        for m in refreshers(c):
            Interp({}, attrs, {}, cls_name=c.name).run(A.strip_docstring(c.methods[m].node.body))
    except Undecided as e:
        ctx.undecided(rid, f"{c.relpath}::{c.name}", f"constructor not interpretable: {e}")
        return
    n_ops = 0
    for n in ast.walk(call.node):
        if isinstance(n, ast.BinOp) and isinstance(n.op, (ast.Add, ast.Sub)):
            for side in (n.left, n.right):
                d = A.dotted(side)
                if d and d.startswith("self.") and d.count(".") == 1:
                    n_ops += 1
                    v = attrs.get(A.mangle(c.name, d.split(".")[1]))
                    if isinstance(v, Poly) and v.is_zero():
                        ctx.violated(rid, call, n, f"`{A.short(n, 60)}` adds the all-zeros tensor {d} (no effect): the intended offset is missing from this regime",
                                     expected="an offset of the same shape that is not identically zero (e.g. the all-ones mask)", found=f"{d} == zeros", node=n)
                    else:
                        ctx.holds(rid, f"{c.relpath}::{c.name}.__call__: {A.short(n, 50)}", f"{d} is not identically zero")
    if n_ops == 0:
        ctx.holds(rid, f"{c.relpath}::{c.name}.__call__", "no additive use of cached attributes")


# ----------------------------------------------------------------------
def _sym(t):
    return str(t)


def _alg_rules(ctx, r2, r5, key, f, s):
    """Returns 'additive' / 'multiplicative' / None."""
    init = f.methods["__init__"].node
    has_a0 = "alpha0" in A.params_of(init)
    modes = [("sym", Poly.atom("a0"))] if has_a0 else [("", None)]
    if has_a0:
        dflt = A.param_defaults(init).get("alpha0")
        dv = A.const_value(dflt) if dflt is not None else None
        if isinstance(dv, (int, float)):
            modes.append((f"a0={dv}", to_poly(dv)))
    kind = None
    site0 = f"{f.relpath}::{f.name}"
    for mode, a0 in modes:
        ev = Evaluator(key, f, s, a0 if a0 is not None else Poly.const(1))
        tag = f"{site0}[{mode}]" if mode else site0
        try:
            thf = ev.thresholds("fast")
            ths = ev.thresholds("slow")
        except Exception as e:  # noqa
            ctx.undecided(r5, tag, f"threshold discovery failed: {e}")
            continue
        symf = [_sym(t) for _, t in thf]
        syms = [_sym(t) for _, t in ths]
        expected = ADDITIVE_EXPECTED.get(key) or MULT_EXPECTED.get(key)
        if mode != "sym" and has_a0:
            expected = [str(-a0), str(a0)]
        exp_s = [str(x) for x in expected] if expected is not None else None
        if symf != syms:
            ctx.violated(r2, f.methods["__call__"], f"thresholds {symf}", f"vectorised and reference implementation of code {key} switch regime at different values of alpha", expected=f"{syms} (reference)", found=str(symf))
        elif exp_s is not None and symf != exp_s:
            ctx.violated(r2, f.methods["__call__"], f"thresholds {symf}", f"code {key} switches regime at {symf}, the published definition at {exp_s}", expected=str(exp_s), found=str(symf))
        else:
            ctx.holds(r2, f"{tag}: thresholds", f"fast = slow = {symf}")
        th = thf if thf else ths
        regs = regions_of(th)
        vals = {}
        for label, rep, rk, sym in regs:
            res = {}
            for which in ("fast", "slow"):
                try:
                    if which == "fast":
                        res[which] = ev.eval_fast(rep, [])[0]
                    else:
                        res[which] = ev.eval_slow(rep, [])
                except Undecided as e:
                    ctx.undecided(r5, f"{tag} {which} {label}", str(e))
            vals[label] = res
            if "fast" in res and "slow" in res:
                fa, sl = res["fast"], res["slow"]
                if rk == "point":
                    # a point region: compare the values at that point
                    try:
                        fa, sl = fa.subs({"alpha": sym}), sl.subs({"alpha": sym})
                    except Undecided:
                        pass
                if fa == sl:
                    ctx.holds(r5, f"{tag} fast==slow on {label}", _clip(str(res["fast"])))
                else:
                    ctx.violated(r5, f.methods["__call__"], f"code{key} region {label}", f"vectorised and reference implementation of code {key} disagree for alpha in {label}",
                                 expected=f"reference: {_clip(str(res['slow']))}", found=f"vectorised: {_clip(str(res['fast']))}")
        # per implementation obligations
        for which, owner in (("fast", f.methods["__call__"]), ("slow", slow_kernel(s) or s.methods["__call__"])):
            def val(label):
                return vals.get(label, {}).get(which)
            labels = [r[0] for r in regs]
            # neutral element at alpha = 0
            lab0 = _region_containing(regs, Fraction(0))
            v0 = val(lab0)
            if v0 is not None:
                at0 = v0.subs({"alpha": Poly()})
                if at0.is_zero():
                    k = "additive"
                elif at0 == Poly.const(1):
                    k = "multiplicative"
                else:
                    k = None
                if k is None:
                    ctx.violated(r5, owner, f"code{key} at alpha=0 ({which})", f"code {key} is not neutral at alpha=0", expected="0 (additive) or 1 (multiplicative)", found=_clip(str(at0)))
                else:
                    ctx.holds(r5, f"{tag} {which}: neutral at 0", k)
                    kind = kind or k
            if mode == "sym":
                anchors = []
            else:
                anchors = [(Fraction(1), "U"), (Fraction(-1), "D")]
            for pt, side in anchors:
                lab = _region_containing(regs, pt)
                v = val(lab)
                if v is None or kind is None:
                    continue
                at = v.subs({"alpha": Poly.const(pt)})
                want = (Poly.atom(side) - Poly.atom("N")) if kind == "additive" else (Poly.atom(side) / Poly.atom("N"))
                if at == want:
                    ctx.holds(r5, f"{tag} {which}: value at {pt}", _clip(str(want)))
                else:
                    ctx.violated(r5, owner, f"code{key} at alpha={pt} ({which})", f"code {key} does not reproduce the {'up' if side == 'U' else 'down'} variation at alpha={pt}", expected=_clip(str(want)), found=_clip(str(at)))
            # continuity at thresholds
            for i, (label, rep, rk, sym) in enumerate(regs):
                if rk != "point":
                    continue
                left, here, right = val(regs[i - 1][0]), val(label), val(regs[i + 1][0])
                if left is None or here is None or right is None:
                    continue
                sub = {"alpha": sym}
                orders = 3 if key in (4, "4p") else 1
                dl, dh, dr = left, here, right
                for order in range(orders):
                    try:
                        a, b, c_ = dl.subs(sub), dh.subs(sub), dr.subs(sub)
                    except Undecided as e:
                        ctx.undecided(r5, f"{tag} {which}: C{order} at {sym}", str(e))
                        break
                    name = ["continuous", "continuously differentiable", "twice continuously differentiable"][order]
                    if a == c_ and (order > 0 or a == b):
                        ctx.holds(r5, f"{tag} {which}: C{order} at alpha={sym}", _clip(str(a)))
                    else:
                        ctx.violated(r5, owner, f"code{key} at alpha={sym} order {order} ({which})", f"code {key} is not {name} at alpha={sym}: the pieces do not meet",
                                     expected=f"left limit == right limit (== value)", found=f"left {_clip(str(a))} | value {_clip(str(b))} | right {_clip(str(c_))}")
                    if order + 1 < orders:
                        try:
                            dl, dh, dr = dl.diff("alpha"), dh.diff("alpha"), dr.diff("alpha")
                        except Undecided as e:
                            ctx.undecided(r5, f"{tag} {which}: C{order + 1} at {sym}", str(e))
                            break
            # extrapolation / orientation of the outer regimes
            if len(regs) >= 3:
                for lab, want_side, other in ((regs[-1][0], "U", "D"), (regs[0][0], "D", "U")):
                    v = val(lab)
                    if v is None:
                        continue
                    ats = v.atoms()
                    plain = {a.split("<")[0] for a in ats} | {x for a in ats for x in ("D", "U") if x in _plain_atoms(v)}
                    pa = _plain_atoms(v)
                    if key == 2:
                        pass  # quadratic core: the boundary slope legitimately involves both variations (checked as a slope below)
                    elif other in pa:
                        ctx.violated(r2, owner, f"code{key} outer regime {lab} ({which})", f"the outer {'positive' if want_side == 'U' else 'negative'} regime of code {key} depends on the {'down' if other == 'D' else 'up'} variation", expected=f"depends on {want_side}, N only", found=_clip(str(v)))
                    else:
                        ctx.holds(r2, f"{tag} {which}: outer {lab}", f"reads {sorted(pa - {'alpha', 'a0'})}")
                    if key in (1, 4):
                        e = Poly.atom("alpha") if want_side == "U" else -Poly.atom("alpha")
                        want = fn("pow", Poly.atom(want_side) / Poly.atom("N"), e)
                        if v == want:
                            ctx.holds(r5, f"{tag} {which}: extrapolation {lab}", str(want))
                        else:
                            ctx.violated(r5, owner, f"code{key} extrapolation {lab} ({which})", f"code {key} does not extrapolate with the exponent of the matching side", expected=str(want), found=_clip(str(v)))
                    elif key in (2, "4p", 0):
                        # slope of the outer piece equals the one-sided slope of the core at the threshold
                        if key == 0:
                            continue
                        core_lab = regs[len(regs) // 2][0] if len(regs) == 5 else None
                        core = val(core_lab) if core_lab else None
                        tsym = th[-1][1] if want_side == "U" else th[0][1]
                        if core is not None:
                            try:
                                so, sc = v.diff("alpha"), core.diff("alpha").subs({"alpha": tsym})
                                if not so.diff("alpha").is_zero():
                                    ctx.violated(r5, owner, f"code{key} extrapolation {lab} ({which})", f"outer piece of code {key} is not linear", found=_clip(str(v)))
                                elif so == sc:
                                    ctx.holds(r5, f"{tag} {which}: extrapolation slope {lab}", _clip(str(so)))
                                else:
                                    ctx.violated(r5, owner, f"code{key} extrapolation slope {lab} ({which})", f"code {key} does not extrapolate with the slope of the core at alpha={tsym}", expected=_clip(str(sc)), found=_clip(str(so)))
                            except Undecided as e:
                                ctx.undecided(r5, f"{tag} {which}: extrapolation {lab}", str(e))
    return kind


def _plain_atoms(p: Poly):
    out = set()
    for a in p.atoms():
        if "<" not in a:
            out.add(a)
    return out


def _region_containing(regs, x):
    for label, rep, rk, sym in regs:
        if rk == "point" and rep == x:
            return label
    # open regions: find the one whose representative lies on the same side of all points
    pts = sorted(rep for _, rep, rk, _ in regs if rk == "point")
    for label, rep, rk, sym in regs:
        if rk == "open" and all((rep < p) == (x < p) for p in pts):
            return label
    return regs[0][0]


def _clip(s, n=220):
    return s if len(s) <= n else s[: n - 3] + "..."


# ----------------------------------------------------------------------
def _matrix_literal(v):
    """6x6 list-of-lists literal (possibly wrapped in astensor(...))."""
    while isinstance(v, ast.Call) and v.args:
        v = v.args[0]
    if isinstance(v, ast.List) and len(v.elts) == 6 and all(isinstance(r, ast.List) and len(r.elts) == 6 for r in v.elts):
        return v
    return None


def _vector_literal(v):
    """6-element list literal of scalars mentioning log (possibly wrapped in stack(...))."""
    while isinstance(v, ast.Call) and v.args and A.call_attr(v) in ("stack", "astensor", "array", "asarray"):
        v = v.args[0]
    if isinstance(v, ast.List) and len(v.elts) == 6 and not any(isinstance(r, ast.List) for r in v.elts) and "log" in A.unparse(v):
        return v
    return None


def _fold_rule(ctx, rid, prs):
    a0 = Poly.atom("a0")
    x = Poly.atom("x")
    Adef = []
    for order in (0, 1, 2):
        for sgn in (1, -1):
            row = []
            for i in range(1, 7):
                p = x ** i
                for _ in range(order):
                    p = p.diff("x")
                row.append(p.subs({"x": a0 * sgn}))
            Adef.append(row)
    du, dd = Poly.atom("U") / Poly.atom("N"), Poly.atom("D") / Poly.atom("N")
    P, Q = fn("pow", du, a0), fn("pow", dd, a0)
    Lu, Ld = fn("log", du), fn("log", dd)
    bdef = [P - 1, Q - 1, Lu * P, -Ld * Q, Lu * Lu * P, Ld * Ld * Q]
    n = 0
    for key, f, s, node in prs:
        if key != 4:
            continue
        for cls, kind in ((f, "fast"), (s, "slow")):
            # interpret the method that holds the literals, recording every assignment
            holder = None
            for m in cls.methods.values():
                if any(isinstance(st, ast.Assign) and _matrix_literal(st.value) is not None for st in ast.walk(m.node)):
                    holder = m
            if holder is None:
                continue
            try:
                if kind == "fast":
                    it = Interp({"histogramssets": HistSet(), "subscribe": True, "alpha0": a0}, {}, {"a0": A0_REP}, cls_name=cls.name)
                    it.run(A.strip_docstring(holder.node.body))
                else:
                    it = Interp({}, {"alpha0": a0}, {"alpha": Fraction(0), "a0": A0_REP}, cls_name=cls.name)
                    it.call_function(holder.node, [Poly.atom("D"), Poly.atom("N"), Poly.atom("U"), Poly.atom("alpha")], bind_self=True)
            except Undecided as e:
                ctx.unrecognised(rid, holder, "A_inverse", f"holder method not interpretable: {e}")
                continue
            for st in ast.walk(holder.node):
                if not isinstance(st, ast.Assign):
                    continue
                site = f"{cls.relpath}::{cls.name}.{holder.name}"
                if _matrix_literal(st.value) is not None:
                    n += 1
                    M = it.assign_trace.get(id(st))
                    if not (isinstance(M, list) and len(M) == 6 and all(isinstance(r, list) and len(r) == 6 for r in M)):
                        ctx.unrecognised(rid, holder, "A_inverse", "6x6 literal was not evaluated")
                        continue
                    bad = []
                    for i in range(6):
                        for j in range(6):
                            tot = Poly()
                            for k in range(6):
                                tot = tot + to_poly(M[i][k]) * Adef[k][j]
                            if tot != Poly.const(1 if i == j else 0):
                                bad.append((i, j, tot))
                    if bad:
                        i, j, tot = bad[0]
                        ctx.violated(rid, holder, f"A_inverse ({cls.name})", f"the A_inverse literal is not the inverse of the matrix that defines code 4 ({len(bad)} of 36 entries of A_inverse*A differ from the identity; first: [{i}][{j}] = {tot})",
                                     expected="A_inverse * A == I for every alpha0", found=f"row {bad[0][0]} of the literal is wrong", node=st)
                    else:
                        ctx.holds(rid, site + ": A_inverse", "A_inverse * A == I symbolically in alpha0 (36 entries)")
                elif _vector_literal(st.value) is not None:
                    v = it.assign_trace.get(id(st))
                    if isinstance(v, list) and len(v) == 6:
                        diffs = [i for i in range(6) if to_poly(v[i]) != bdef[i]]
                        if diffs:
                            ctx.violated(rid, holder, f"b ({cls.name})", f"right-hand side entry {diffs[0]} of the code 4 boundary system is {to_poly(v[diffs[0]])}, the defining value is {bdef[diffs[0]]}", expected=str(bdef[diffs[0]]), found=str(to_poly(v[diffs[0]])), node=st)
                        else:
                            ctx.holds(rid, site + ": rhs", "rhs = [u^a0-1, d^a0-1, ln u u^a0, -ln d d^a0, ln^2 u u^a0, ln^2 d d^a0]")
                    else:
                        ctx.undecided(rid, site + ": rhs", "rhs vector not evaluated")
    if n < 2:
        ctx.error(f"C03.R4: only {n} A_inverse literal(s) found, floor 2")


def _whitelists(ctx, rid, kinds):
    repo = ctx.repo
    for rel, cname, want in (("src/pyhf/modifiers/histosys.py", "histosys_combined", "additive"), ("src/pyhf/modifiers/normsys.py", "normsys_combined", "multiplicative")):
        c = repo.cls(rel, cname)
        init = c.methods["__init__"]
        ctx.touch(init)
        codes = None
        node = None
        for n in ast.walk(init.node):
            if isinstance(n, ast.Compare) and isinstance(n.ops[0], ast.In) and "interpcode" in A.unparse(n.left):
                v = A.const_value(n.comparators[0])
                if isinstance(v, (list, tuple)):
                    codes, node = list(v), n
        dflt = A.param_defaults(init.node).get("interpcode")
        if codes is None:
            ctx.unrecognised(rid, init, "interpcode", "whitelist of interpolation codes not found")
            continue
        dv = A.const_value(dflt) if dflt is not None else None
        for code in codes + ([dv] if isinstance(dv, str) and dv not in codes else []):
            k = kinds.get(code)
            if k == want:
                ctx.holds(rid, f"{rel}::{cname}: {code}", f"{want}")
            elif k is None:
                ctx.undecided(rid, f"{rel}::{cname}: {code}", "kind of this code not established")
            else:
                ctx.violated(rid, init, node, f"{cname} accepts interpolation code `{code}` which is {k} (neutral element {'1' if k == 'multiplicative' else '0'}), but the modifier is {want}", expected=f"only {want} codes")


def _axes_and_history(ctx, rid, repo, prs):
    from .. import listnp
    from ..alg import AutoRegion, Obj, PyFunc, same_value
    from ..objmodel import World
    at = Poly.atom
    F_ = Fraction
    # alpha values per call: (shape columns) -> [[row of systematic 0], [row of systematic 1]]
    calls = [
        ("mixed regimes", [[F_(1, 2), F_(-3, 2)], [F_(5, 2), F_(-1, 3)]]),
        ("one column", [[F_(-7, 2)], [F_(3, 4)]]),
        ("three columns with breakpoints", [[F_(1), F_(0), F_(-1)], [F_(-1), F_(2), F_(0)]]),
        ("mixed regimes again (after other shapes and a backend refresh)", [[F_(-5, 4), F_(3, 2)], [F_(1, 4), F_(-9, 2)]]),
        ("one column again", [[F_(2)], [F_(-2)]]),
    ]
    for code, fast, slow, _node in sorted(prs, key=lambda t: str(t[0])):
        ext = listnp.externals()
        ext.update({"subscribe": lambda a, k: PyFunc(lambda a2, k2: None, "subscriber"), "get_backend": (lambda tl_: (lambda a, k: (tl_, None)))(_tensorlib_obj())})
        region = AutoRegion()
        w = World(ext, region=region, module_env={"pyhf": Obj("pyhf", {"default_backend": Obj("default_backend")}), "events": Obj("events"), "math": Obj("math")})
        w.add_class(fast).add_class(slow)
        for m_ in list(fast.methods.values()) + list(slow.methods.values()):
            ctx.touch(m_)
        hs = [[[[at(f"h_s{s_}_h{h_}_v{v_}_b{b_}") for b_ in range(2)] for v_ in range(3)] for h_ in range(2)] for s_ in range(2)]
        km = slow_kernel(slow)
        fname = km.node.name if km is not None else None
        if fname is None:
            ctx.unrecognised(rid, slow, f"{slow.name}", "scalar reference function (summand/product) not found")
            continue
        try:
            inst = w.new(fast, [hs], {"subscribe": False})
            ref = w.new(slow, [hs], {})
        except (Undecided, KeyError, TypeError, ValueError, IndexError, AttributeError) as e:
            ctx.unrecognised(rid, fast, f"{fast.name} constructor", f"not interpretable: {type(e).__name__}: {e}")
            continue
        for ci, (lab, rows) in enumerate(calls):
            names = [[f"al_c{ci}_s{s_}_a{a_}" for a_ in range(len(rows[s_]))] for s_ in range(2)]
            for s_ in range(2):
                for a_, v_ in enumerate(rows[s_]):
                    region[names[s_][a_]] = v_
            pinned = {n: region[n] for row in names for n in row}
            site = f"{fast.relpath}::{fast.name}.__call__ [{lab}]"
            try:
                if ci == 3:
                    # a backend switch between calls re-runs every subscribed refresh method: what it rebuilds must
                    # stay consistent with what the shape-change hook rebuilds
                    for rm in refreshers(fast):
                        w.call_method(inst, rm, [])
                out = w.call_method(inst, "__call__", [listnp.T([[at(n) for n in row] for row in names])])
                shp = listnp._shape(out)
                if shp != (2, 2, len(rows[0]), 2):
                    ctx.violated(rid, fast.methods["__call__"], f"{fast.name} result shape [{lab}]", "the result is not (systematics, samples, alpha columns, bins) for THIS call's alpha set" + ("" if ci == 0 else ": tensors prepared for an earlier alpha-set shape leak into it"), expected=str((2, 2, len(rows[0]), 2)), found=str(shp))
                    continue
                bad = None
                und = None
                ncell = 0
                for s_ in range(2):
                    for h_ in range(2):
                        for a_ in range(len(rows[s_])):
                            for b_ in range(2):
                                want = w.call_method(ref, fname, [hs[s_][h_][0][b_], hs[s_][h_][1][b_], hs[s_][h_][2][b_], at(names[s_][a_])])
                                got = out[s_][h_][a_][b_]
                                sv = same_value(got, want, pinned=pinned)
                                ncell += 1
                                if sv is False and bad is None:
                                    bad = (s_, h_, a_, b_, rows[s_][a_], str(to_poly(got))[:160], str(to_poly(want))[:160])
                                elif sv is None and und is None:
                                    und = (s_, h_, a_, b_)
                if bad:
                    ctx.violated(rid, fast.methods["__call__"], f"{fast.name} cell values [{lab}]", f"cell (systematic {bad[0]}, sample {bad[1]}, alpha column {bad[2]}, bin {bad[3]}) at alpha = {bad[4]} is not the scalar reference value for that cell's (down, nominal, up): the vectorised code mixes axes, variations or regimes" + ("" if ci == 0 else ", or reuses tensors prepared for an earlier alpha-set shape"), expected=bad[6], found=bad[5])
                elif und:
                    ctx.unrecognised(rid, fast.methods["__call__"], f"{fast.name} [{lab}]", f"cell {und} not comparable numerically")
                else:
                    ctx.holds(rid, site, f"{ncell} cells equal the scalar reference")
            except (Undecided, KeyError, TypeError, ValueError, IndexError, AttributeError) as e:
                ctx.unrecognised(rid, fast.methods["__call__"], f"{fast.name}.__call__ [{lab}]", f"not interpretable: {type(e).__name__}: {e}")


def _looper(ctx, rid, repo):
    from ..alg import Obj, PyFunc
    from ..objmodel import World
    INIT = "src/pyhf/interpolators/__init__.py"
    if not repo.has_func(INIT, "_slow_interpolator_looper"):
        ctx.unrecognised(rid, repo.module(INIT), "_slow_interpolator_looper", "not found")
        return
    f = repo.func(INIT, "_slow_interpolator_looper")
    ctx.touch(f)
    at = Poly.atom
    nS, nH, nA, nB = 2, 2, 3, 2
    hs = [[[[at(f"{v}_s{s_}h{h}b{b}") for b in range(nB)] for v in ("dn", "nom", "up")] for h in range(nH)] for s_ in range(nS)]
    al = [[at(f"al_s{s_}a{a}") for a in range(nA)] for s_ in range(nS)]

    def formula(tag):
        def g(a, k):
            return fn(f"REF_{tag}", *[to_poly(x) for x in a])
        return Obj(f"reference formula {tag}", {"__qualname__": "_slow_code4.product", "__name__": "product", "__call__": PyFunc(g, tag)}, closed=True)

    try:
        w = World({"__strict__": True}, module_env={"exceptions": Obj("exceptions")})
        w.add_func(f)
        for tag in ("first", "second"):
            ko_ = [a_.arg for a_ in f.node.args.kwonlyargs]
            out = w.call_func(f, [hs, al], {ko_[0]: formula(tag)}) if len(ko_) == 1 and len(f.node.args.args) == 2 else w.call_func(f, [hs, al, formula(tag)])  # the formula is the third argument, keyword-only or not
            bad = None
            ok_shape = isinstance(out, list) and len(out) == nS and all(isinstance(x, list) and len(x) == nH and all(isinstance(y, list) and len(y) == nA and all(isinstance(z, list) and len(z) == nB for z in y) for y in x) for x in out)
            if ok_shape:
                for s_ in range(nS):
                    for h in range(nH):
                        for a in range(nA):
                            for b in range(nB):
                                want = fn(f"REF_{tag}", hs[s_][h][0][b], hs[s_][h][1][b], hs[s_][h][2][b], al[s_][a])
                                if to_poly(out[s_][h][a][b]) != want and bad is None:
                                    bad = (s_, h, a, b, str(to_poly(out[s_][h][a][b])), str(want))
            if not ok_shape:
                ctx.violated(rid, f, f"reference loop, {tag} formula", "the scalar reference is not returned as [set][histogram][alpha][bin]", expected=f"{nS} x {nH} x {nA} x {nB}")
            elif bad:
                ctx.violated(rid, f, f"reference loop, {tag} formula", f"cell (set {bad[0]}, histogram {bad[1]}, alpha {bad[2]}, bin {bad[3]}) is {bad[4]}: " + ("a value computed by ANOTHER reference object of the same class earlier in the process is returned (the two differ in alpha0)" if "first" in bad[4] and tag == "second" else "not this formula on this cell's (down, nominal, up, alpha)"), expected=bad[5], found=bad[4])
            else:
                ctx.holds(rid, f"{INIT}::_slow_interpolator_looper [{tag} formula]", f"{nS * nH * nA * nB} cells: this formula on the cell's own (down, nominal, up) and its set's alpha")
    except (Undecided, KeyError, TypeError, ValueError, IndexError, AttributeError) as e:
        ctx.unrecognised(rid, f, "_slow_interpolator_looper", f"not interpretable: {type(e).__name__}: {e}")
