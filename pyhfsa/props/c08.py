"""C08 -- hypothesis tests: stable result layout, prerequisites, Asimov construction.

  R1 CFGENUM  result layout for all 2^4 flag combinations x {q0, not q0} (exhaustive, 32)
  R2 ORDER    the prerequisite check dominates calculator creation and refuses a
              missing POI (UnspecifiedPOI) and a fixed POI (InvalidModel);
              teststatistic is evaluated before distributions
  R3 DEP      Asimov data = pdf.expected_data(fixed_poi_fit(mu_A, data, pdf, init, bounds, fixed));
              mu_A = 1 iff the statistic is q0, else 0 -- same table in both calculators
  R4 TABLE    cross-site defaults of test_stat agree; create_calculator keys = {asymptotics, toybased}
  R5 FWD      data/pdf/init/bounds/fixed/**kwargs reach the calculator; observed and Asimov
              statistics are computed by the same function at the same tested mu
"""

from __future__ import annotations

import ast
import itertools
from fractions import Fraction

from .. import astutil as A
from ..alg import Interp, Obj, Poly, PyFunc, Undecided, fn, to_poly
from ..cfg import CFG
from ..fwd import calls_to

EXPLANATION = (
    "hypotest is abstractly interpreted for every one of the 32 combinations of (return_tail_probs, return_expected, "
    "return_expected_set, return_calculator) x (test_stat == 'q0' or not) with the calculator replaced by opaque "
    "results; the returned structure is compared with the documented layout [observed, tails?, median?, band?, "
    "calculator?] (exhaustive enumeration of a finite configuration space). The prerequisite check must dominate "
    "calculator creation on the CFG and raise the documented pyhf exceptions; generate_asimov_data must return "
    "pdf.expected_data of the fixed-POI fit at mu_A with all fit inputs forwarded; the mu_A table (1 for q0, else 0) "
    "is read from both calculators; defaults are compared across sites. NOT decided: agreement of CLs with analytic values."
)
ASSUMPTIONS = ["documented return order of pyhf.infer.hypotest", "calculator protocol: teststatistic, distributions, pvalues, expected_pvalues"]
INF = "src/pyhf/infer/__init__.py"
CALC = "src/pyhf/infer/calculators.py"
UT = "src/pyhf/infer/utils.py"
FLAGS = ["return_tail_probs", "return_expected", "return_expected_set", "return_calculator"]


def run(ctx):
    repo = ctx.repo
    hyp = repo.func(INF, "hypotest")
    pre = repo.func(INF, "_check_hypotest_prerequisites")
    gen = repo.func(CALC, "generate_asimov_data")
    cc = repo.func(UT, "create_calculator")
    apf = repo.func(UT, "all_pois_floating")
    for f in (hyp, pre, gen, cc, apf):
        ctx.touch(f)

    r1 = ctx.rule("C08.R1", "CFGENUM: for all 32 configurations the result is [CLs_obs|CLsb_obs(q0)] + [[CLsb,CLb] | [CLb](q0)]? + [median]? + [band of 5]? + [calculator]? in that order, a bare value when alone", "CFGENUM", floor=32)
    r2 = ctx.rule("C08.R2", "ORDER: _check_hypotest_prerequisites dominates create_calculator; it raises UnspecifiedPOI when no POI is set and InvalidModel when the POI is fixed; teststatistic precedes distributions", "ORDER", floor=4)
    r3 = ctx.rule("C08.R3", "DEP: generate_asimov_data returns pdf.expected_data(fixed_poi_fit(asimov_mu, data, pdf, init_pars, par_bounds, fixed_params)); asimov_mu is 1.0 iff test_stat == 'q0' else 0.0 in AsymptoticCalculator.teststatistic and ToyCalculator.distributions", "DEP", floor=4)
    r4 = ctx.rule("C08.R4", "TABLE: hypotest's default test statistic equals both calculators' default; create_calculator offers exactly 'asymptotics' and 'toybased'", "TABLE", floor=3)
    r5 = ctx.rule("C08.R5", "FWD: calctype, data, pdf, init_pars, par_bounds, fixed_params and **kwargs reach create_calculator in its positional order; teststatistic, distributions use the tested POI", "FWD", floor=3)

    # ---------------- R1 / R5 by interpretation
    CLsb_o, CLb_o, CLs_o = Poly.atom("CLsb_obs"), Poly.atom("CLb_obs"), Poly.atom("CLs_obs")
    CLsb_e = [Poly.atom(f"CLsb_exp{i}") for i in range(5)]
    CLb_e = [Poly.atom(f"CLb_exp{i}") for i in range(5)]
    CLs_e = [Poly.atom(f"CLs_exp{i}") for i in range(5)]
    n_ok = 0
    order_log = None
    created = None
    for is_q0 in (False, True):
        for combo in itertools.product((False, True), repeat=4):
            cfg = dict(zip(FLAGS, combo))
            log = []
            rec = {}

            def mk(name, ret):
                def f(args, kw):
                    log.append(name)
                    rec[name] = (args, kw)
                    return ret
                return f

            ext = {
                "_check_hypotest_prerequisites": mk("prereq", None),
                "create_calculator": mk("create", Obj("CALC")),
                "teststatistic": mk("teststatistic", Poly.atom("TS")),
                "distributions": mk("distributions", (Obj("SB"), Obj("B"))),
                "pvalues": mk("pvalues", (CLsb_o, CLb_o, CLs_o)),
                "expected_pvalues": mk("expected_pvalues", (list(CLsb_e), list(CLb_e), list(CLs_e))),
            }
            env = {
                "poi_test": Poly.atom("mu_test"), "data": Obj("data"), "pdf": Obj("pdf"), "init_pars": Obj("init"), "par_bounds": Obj("bounds"),
                "fixed_params": Obj("fixed"), "calctype": "asymptotics", "kwargs": ({"test_stat": "q0"} if is_q0 else {"test_stat": "qtilde"}),
                "utils": Obj("utils"), **cfg,
            }
            label = f"q0={is_q0} " + " ".join(f"{k.replace('return_', '')}={int(v)}" for k, v in cfg.items())
            try:
                it = Interp(env, {}, {}, externals=ext)
                out = it.run(A.strip_docstring(hyp.node.body))
            except Undecided as e:
                ctx.unrecognised(r1, hyp, f"hypotest [{label}]", f"not interpretable: {e}")
                continue
            band = CLsb_e if is_q0 else CLs_e
            exp = [CLsb_o if is_q0 else CLs_o]
            if cfg["return_tail_probs"]:
                exp.append([CLb_o] if is_q0 else [CLsb_o, CLb_o])
            if cfg["return_expected"]:
                exp.append(band[2])
            if cfg["return_expected_set"]:
                exp.append(list(band))
            if cfg["return_calculator"]:
                exp.append(Obj("CALC"))
            want = tuple(exp) if len(exp) > 1 else exp[0]
            if _same(out, want):
                n_ok += 1
                ctx.holds(r1, f"{INF}::hypotest [{label}]", _show(want))
            else:
                ctx.violated(r1, hyp, f"hypotest result layout [{label}]", "the returned tuple does not contain exactly the requested extras in the documented order", expected=_show(want), found=_show(out))
            order_log = order_log or list(log)
            created = created or rec.get("create")
            if is_q0 is False and combo == (False,) * 4:
                # default test_stat path: kwargs without the key
                try:
                    env2 = dict(env)
                    env2["kwargs"] = {}
                    out2 = Interp(env2, {}, {}, externals=ext).run(A.strip_docstring(hyp.node.body))
                    if not _same(out2, CLs_o):
                        ctx.violated(r1, hyp, "hypotest default statistic", "without an explicit test_stat the observed value returned is not CLs", expected="CLs_obs", found=_show(out2))
                except Undecided:
                    pass
    ctx.extra["exhaustive"] = True
    ctx.extra["configurations"] = 32

    # ---------------- R2
    g = CFG.build(hyp.node.body)
    pm = A.parent_map(hyp.node)
    pcs = calls_to(hyp.node, {"_check_hypotest_prerequisites"})
    ccs = calls_to(hyp.node, {"create_calculator"})
    if not pcs or not ccs:
        if not pcs:
            ctx.violated(r2, hyp, "_check_hypotest_prerequisites(...)", "hypotest no longer checks its prerequisites (a model without POI or with a fixed POI is tested anyway)", node=hyp.node)
        else:
            ctx.unrecognised(r2, hyp, "create_calculator", "call not found")
    else:
        if g.dominates(A.stmt_of(pcs[0], pm), A.stmt_of(ccs[0], pm)):
            ctx.holds(r2, f"{INF}::hypotest", "prerequisite check dominates calculator creation")
        else:
            ctx.violated(r2, hyp, A.stmt_of(ccs[0], pm), "the calculator is created on a path that has not passed the prerequisite check", node=ccs[0])
    # prerequisites: interpreted on the four situations
    from ..alg import NotHandled, RaisedInFragment
    from ..objmodel import World
    for lab, poi_index, fixed_given, fixed_suggested, want in (
        ("no POI defined", None, None, [False, False], "UnspecifiedPOI"),
        ("POI fixed in the mask given", 1, [False, True], [False, False], "InvalidModel"),
        ("POI free, another parameter fixed", 1, [True, False], [False, False], None),
        ("explicit all-free mask, model suggestion irrelevant", 0, [False, False], [False, False], None),
    ):
        site = f"{INF}::_check_hypotest_prerequisites [{lab}]"
        try:
            cfgo = Obj("config", {"poi_index": None if poi_index is None else Poly.const(poi_index)})

            def sugg(recv, a, k, fixed_suggested=fixed_suggested):
                if not (isinstance(recv, Obj) and recv.name == "config"):
                    raise NotHandled()
                return list(fixed_suggested)

            w = World({"__strict__": True, ".suggested_fixed": sugg}, module_env={"exceptions": Obj("exceptions"), "utils": Obj("utils")})
            w.add_func(pre).add_func(apf)
            w.call_func(pre, [Obj("pdf", {"config": cfgo}), Obj("data"), Obj("init"), Obj("bounds"), fixed_given])
            if want is None:
                ctx.holds(r2, site, "accepted")
            else:
                ctx.violated(r2, pre, f"prerequisites [{lab}]", f"a hypothesis test is not refused when {lab}", expected=f"raise {want}", found="accepted")
        except RaisedInFragment as e:
            cls_ = e.exc_name.split(".")[-1]
            if want == cls_:
                ctx.holds(r2, site, f"refused with {cls_}")
            elif want is None:
                ctx.violated(r2, pre, f"prerequisites [{lab}]", f"a legitimate hypothesis test is refused with {e.exc_name}")
            else:
                ctx.violated(r2, pre, f"prerequisites [{lab}]", f"refused with {e.exc_name}, documented is {want}")
        except (Undecided, KeyError, TypeError, IndexError, AttributeError) as e:
            ctx.unrecognised(r2, pre, f"prerequisites [{lab}]", f"not interpretable: {type(e).__name__}: {e}")
    if order_log:
        if "teststatistic" in order_log and "distributions" in order_log and order_log.index("teststatistic") < order_log.index("distributions"):
            ctx.holds(r2, f"{INF}::hypotest", "teststatistic before distributions")
        else:
            ctx.violated(r2, hyp, "calc.teststatistic / calc.distributions", "distributions() is requested before teststatistic() (the asymptotic calculator needs sqrt(qA) first)", found=str(order_log))

    # ---------------- R5
    if created:
        args, kw = created
        got = [a if isinstance(a, str) else (a.name if isinstance(a, Obj) else str(a)) for a in args]
        want = ["asymptotics", "data", "pdf", "init", "bounds", "fixed"]
        # init/bounds/fixed pass through `x or default`: Obj is truthy so they stay
        if got == want:
            ctx.holds(r5, f"{INF}::hypotest -> create_calculator", "(calctype, data, pdf, init_pars, par_bounds, fixed_params)")
        else:
            ctx.violated(r5, hyp, "create_calculator(...)", "positional arguments of create_calculator are not (calctype, data, pdf, init_pars, par_bounds, fixed_params)", expected=str(want), found=str(got))
        star = [k for c in ccs for k in c.keywords if k.arg is None and "kwargs" in A.names_loaded(k.value)]
        if star:
            ctx.holds(r5, f"{INF}::hypotest -> create_calculator", "**kwargs forwarded")
        else:
            ctx.violated(r5, hyp, ccs[0] if ccs else "create_calculator", "calculator options (**kwargs, e.g. test_stat, ntoys) are not forwarded", expected="**kwargs")
    for mname in ("teststatistic", "distributions"):
        cs = [c for c in A.calls_in(hyp.node) if A.call_attr(c) == mname]
        if cs and cs[0].args and "poi_test" in A.names_loaded(cs[0].args[0]):
            ctx.holds(r5, f"{INF}::hypotest: calc.{mname}(poi_test)")
        else:
            ctx.violated(r5, hyp, f"calc.{mname}(...)", f"{mname} is not evaluated at the tested POI value", node=cs[0] if cs else hyp.node)
    # create_calculator forwards *args/**kwargs
    cc_ret = [r for r in ast.walk(cc.node) if isinstance(r, ast.Return) and r.value is not None]
    okf = False
    keys = None
    for r in cc_ret:
        v = r.value
        if isinstance(v, ast.Call) and any(isinstance(a, ast.Starred) for a in v.args) and any(k.arg is None for k in v.keywords):
            okf = True
        for n in ast.walk(v):
            if isinstance(n, ast.Dict):
                keys = {A.const_value(k): A.dotted(val) for k, val in zip(n.keys, n.values)}
    if okf:
        ctx.holds(r5, f"{UT}::create_calculator", "*args, **kwargs forwarded to the calculator class")
    else:
        ctx.violated(r5, cc, "create_calculator", "create_calculator does not forward *args/**kwargs to the calculator")

    # ---------------- R4
    if keys == {"asymptotics": "AsymptoticCalculator", "toybased": "ToyCalculator"}:
        ctx.holds(r4, f"{UT}::create_calculator", str(keys))
    else:
        ctx.violated(r4, cc, "calculator table", "calculator type table is not {'asymptotics': AsymptoticCalculator, 'toybased': ToyCalculator}", found=str(keys))
    hyp_default = None
    for c in A.calls_in(hyp.node):
        if A.call_attr(c) == "get" and c.args and A.const_value(c.args[0]) == "test_stat" and len(c.args) > 1:
            hyp_default = A.const_value(c.args[1])
    for cname in ("AsymptoticCalculator", "ToyCalculator"):
        init = repo.method(CALC, cname, "__init__")
        ctx.touch(init)
        d = A.param_defaults(init.node).get("test_stat")
        dv = A.const_value(d) if d is not None else None
        if hyp_default is not None and dv == hyp_default:
            ctx.holds(r4, f"{CALC}::{cname}.__init__ default test_stat", repr(dv))
        else:
            ctx.violated(r4, init, "test_stat default", f"hypotest assumes the default statistic {hyp_default!r} when deciding what to return, {cname} defaults to {dv!r}", expected=repr(hyp_default), found=repr(dv))

    # ---------------- R3
    rec = {}

    def fpf(args, kw):
        rec["fit"] = (args, kw)
        return Poly.atom("FITPARS")

    for flag in (False, True):
        try:
            env = {"asimov_mu": Poly.atom("MU_A"), "data": Obj("data"), "pdf": Obj("pdf"), "init_pars": Obj("init"), "par_bounds": Obj("bounds"), "fixed_params": Obj("fixed"), "return_fitted_pars": flag}
            out = Interp(env, {}, {}, externals={"fixed_poi_fit": fpf}).run(A.strip_docstring(gen.node.body))
            data = out[0] if flag else out
            want = fn("expected_data", Poly.atom("pdf"), Poly.atom("FITPARS"))
            if to_poly(data) == want and (not flag or to_poly(out[1]) == Poly.atom("FITPARS")):
                ctx.holds(r3, f"{CALC}::generate_asimov_data [return_fitted_pars={flag}]", "pdf.expected_data(fixed_poi_fit(...))")
            else:
                ctx.violated(r3, gen, f"generate_asimov_data [return_fitted_pars={flag}]", "the Asimov dataset is not the model expectation at the conditional best-fit parameters", expected=str(want), found=_show(out))
        except Undecided as e:
            ctx.unrecognised(r3, gen, "generate_asimov_data", str(e))
    if "fit" in rec:
        args, kw = rec["fit"]
        got = [str(to_poly(a)) if not isinstance(a, Obj) else a.name for a in args]
        if got == ["MU_A", "data", "pdf", "init", "bounds", "fixed"]:
            ctx.holds(r3, f"{CALC}::generate_asimov_data -> fixed_poi_fit", "(asimov_mu, data, pdf, init_pars, par_bounds, fixed_params)")
        else:
            ctx.violated(r3, gen, "fixed_poi_fit(...)", "the Asimov fit does not receive (asimov_mu, data, pdf, init_pars, par_bounds, fixed_params)", found=str(got))
    # mu_A table in both calculators
    for cname, mname in (("AsymptoticCalculator", "teststatistic"), ("ToyCalculator", "distributions")):
        m = repo.method(CALC, cname, mname)
        ctx.touch(m)
        hit = None
        for n in ast.walk(m.node):
            if isinstance(n, ast.IfExp) and "test_stat" in A.unparse(n.test):
                hit = n
        if hit is None:
            ctx.unrecognised(r3, m, "asimov mu", "no `x if self.test_stat == 'q0' else y` selector found")
            continue
        t = hit.test
        okk = isinstance(t, ast.Compare) and isinstance(t.ops[0], ast.Eq) and A.const_value(t.comparators[0]) == "q0" and A.const_value(hit.body) in (1, 1.0) and A.const_value(hit.orelse) in (0, 0.0)
        if okk:
            ctx.holds(r3, f"{CALC}::{cname}.{mname}", "mu_A = 1.0 if q0 else 0.0")
        else:
            ctx.violated(r3, m, hit, "the Asimov / background hypothesis is not mu = 1 for the discovery statistic and mu = 0 otherwise", expected="1.0 if self.test_stat == 'q0' else 0.0", found=A.short(hit, 60), node=hit)
        # the value reaches generate_asimov_data / the bkg fixed_poi_fit as first argument
    ts = repo.method(CALC, "AsymptoticCalculator", "teststatistic")
    gcs = [c for c in A.calls_in(ts.node) if A.call_attr(c) == "generate_asimov_data"]
    from ..dep import Deps as _Deps
    _d = _Deps(ts.node)
    _sel = [n for n in ast.walk(ts.node) if isinstance(n, ast.IfExp) and "test_stat" in A.unparse(n.test)]
    def _is_selector(e):
        if any(x is s_ for s_ in _sel for x in ast.walk(e)):
            return True
        return isinstance(e, ast.Name) and any(any(x is s_ for s_ in _sel for x in ast.walk(dv)) for dv in _d.defs.get(e.id, []))
    if gcs and gcs[0].args and _is_selector(gcs[0].args[0]):
        ctx.holds(r3, f"{CALC}::AsymptoticCalculator.teststatistic -> generate_asimov_data(asimov_mu, ...)")
    else:
        ctx.violated(r3, ts, "generate_asimov_data(...)", "the Asimov dataset is not generated at the selected mu_A", node=gcs[0] if gcs else ts.node)


def _same(a, b):
    if isinstance(a, (list, tuple)) and isinstance(b, (list, tuple)):
        return type(a) is type(b) and len(a) == len(b) and all(_same(x, y) for x, y in zip(a, b))
    if isinstance(a, Obj) and isinstance(b, Obj):
        return a.name == b.name
    if isinstance(a, (Poly, int, float)) and isinstance(b, (Poly, int, float)):
        return to_poly(a) == to_poly(b)
    return False


def _show(v):
    if isinstance(v, tuple):
        return "(" + ", ".join(_show(x) for x in v) + ")"
    if isinstance(v, list):
        return "[" + ", ".join(_show(x) for x in v) + "]"
    if isinstance(v, Obj):
        return v.name
    return str(v)
