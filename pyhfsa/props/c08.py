"""C08 -- hypothesis tests: stable result layout, prerequisites, Asimov construction.

  R1 CFGENUM  result layout for all 2^4 flag combinations x {q0, not q0} (exhaustive, 32)
  R2 ORDER    the prerequisite check dominates calculator creation and refuses a
              missing POI (UnspecifiedPOI) and a fixed POI (InvalidModel);
              teststatistic is evaluated before distributions
  R3 DEP      Asimov data = pdf.expected_data(fixed_poi_fit(mu_A, data, pdf, init, bounds, fixed));
              mu_A = 1 iff the statistic is q0, else 0 -- same table in both calculators
  R4 TABLE    cross-site defaults of test_stat agree; create_calculator keys = {asymptotics, toybased}
  R5 FWD      data/pdf/init/bounds/fixed/**kwargs reach the calculator; observed and Asimov
              statistics are computed by the same function at the same tested mu
"""

from __future__ import annotations

import ast
import itertools
from fractions import Fraction

from .. import astutil as A
from ..alg import Interp, Obj, Poly, PyFunc, Undecided, fn, to_poly
from ..cfg import CFG
from ..fwd import calls_to

EXPLANATION = (
    "hypotest is abstractly interpreted for every one of the 32 combinations of (return_tail_probs, return_expected, "
    "return_expected_set, return_calculator) x (test_stat == 'q0' or not) with the calculator replaced by opaque "
    "results; the returned structure is compared with the documented layout [observed, tails?, median?, band?, "
    "calculator?] (exhaustive enumeration of a finite configuration space). The prerequisite check must dominate "
    "calculator creation on the CFG and raise the documented pyhf exceptions; generate_asimov_data must return "
    "pdf.expected_data of the fixed-POI fit at mu_A with all fit inputs forwarded; the mu_A table (1 for q0, else 0) "
    "is read from both calculators; defaults are compared across sites. NOT decided: agreement of CLs with analytic values."
)
ASSUMPTIONS = ["documented return order of pyhf.infer.hypotest", "calculator protocol: teststatistic, distributions, pvalues, expected_pvalues"]
INF = "src/pyhf/infer/__init__.py"
CALC = "src/pyhf/infer/calculators.py"
UT = "src/pyhf/infer/utils.py"
FLAGS = ["return_tail_probs", "return_expected", "return_expected_set", "return_calculator"]


# R2 and R5 know the helper structure of the pinned tree; R6 decides the same clauses on the composition (see Ctx.defer).
# R3 also covers the toy calculator, which R6 does not walk: it keeps its own verdict.
# R3's selector instances know `1.0 if self.test_stat == 'q0' else 0.0` written in place; R6 walks hypotest into the calculator and
# generate_asimov_data per statistic and decides at which mu the Asimov data are generated, whatever helper selects it
DEFER = [(["C08.R2", "C08.R5"], ["C08.R6"]), (["C08.R3"], ["C08.R6"], "AsymptoticCalculator.teststatistic")]


def run(ctx):
    repo = ctx.repo
    hyp = repo.func(INF, "hypotest")
    pre = repo.func(INF, "_check_hypotest_prerequisites")
    gen = repo.func(CALC, "generate_asimov_data")
    cc = repo.func(UT, "create_calculator")
    apf = repo.func(UT, "all_pois_floating")
    for f in (hyp, pre, gen, cc, apf):
        ctx.touch(f)

    r1 = ctx.rule("C08.R1", "CFGENUM: for all 32 configurations the result is [CLs_obs|CLsb_obs(q0)] + [[CLsb,CLb] | [CLb](q0)]? + [median]? + [band of 5]? + [calculator]? in that order, a bare value when alone", "CFGENUM", floor=32)
    r2 = ctx.rule("C08.R2", "ORDER: _check_hypotest_prerequisites dominates create_calculator; it raises UnspecifiedPOI when no POI is set and InvalidModel when the POI is fixed; teststatistic precedes distributions", "ORDER", floor=4)
    r3 = ctx.rule("C08.R3", "DEP: generate_asimov_data returns pdf.expected_data(fixed_poi_fit(asimov_mu, data, pdf, init_pars, par_bounds, fixed_params)); asimov_mu is 1.0 iff test_stat == 'q0' else 0.0 in AsymptoticCalculator.teststatistic and ToyCalculator.distributions", "DEP", floor=4)
    r4 = ctx.rule("C08.R4", "TABLE: hypotest's default test statistic equals both calculators' default; create_calculator offers exactly 'asymptotics' and 'toybased'", "TABLE", floor=3)
    r5 = ctx.rule("C08.R5", "FWD: calctype, data, pdf, init_pars, par_bounds, fixed_params and **kwargs reach create_calculator in its positional order; teststatistic, distributions use the tested POI", "FWD", floor=3)

    r6 = ctx.rule("C08.R6", "END-TO-END/HISTORY: hypotest -> create_calculator -> AsymptoticCalculator (constructor, teststatistic, distributions, pvalues, expected_pvalues) -> generate_asimov_data interpreted as ONE composition, four calls in one process (qtilde on both branches, q0, q; other mu and data): the statistic is evaluated at the tested mu on this call's data and on the Asimov data of the mu=0 (q0: mu=1) conditional fit to this call's data, every fit gets this call's model/start values/bounds/fixed flags, and observed value, tail probabilities, median and 5-point band are the asymptotic formulae of these two numbers", "E2E", floor=4)
    _hypotest_end_to_end(ctx, r6, repo)
    r7 = ctx.rule("C08.R7", "POI-VERBATIM: whether a model HAS a parameter of interest is what the prerequisite check of hypotest decides on; the public model factories (pyhf.simplemodels.*) interpreted with Model as a recorder hand the caller's poi_name to Model verbatim -- None and '' (the documented POI-less requests) included, the documented default when it is left out -- together with batch_size and validate", "FWD", floor=2)
    _factories_forward_poi(ctx, r7, repo)
    # ---------------- R1 / R5 by interpretation
    CLsb_o, CLb_o, CLs_o = Poly.atom("CLsb_obs"), Poly.atom("CLb_obs"), Poly.atom("CLs_obs")
    CLsb_e = [Poly.atom(f"CLsb_exp{i}") for i in range(5)]
    CLb_e = [Poly.atom(f"CLb_exp{i}") for i in range(5)]
    CLs_e = [Poly.atom(f"CLs_exp{i}") for i in range(5)]
    n_ok = 0
    order_log = None
    created = None
    for is_q0 in (False, True):
        for combo in itertools.product((False, True), repeat=4):
            cfg = dict(zip(FLAGS, combo))
            log = []
            rec = {}

            def mk(name, ret):
                def f(args, kw):
                    log.append(name)
                    rec[name] = (args, kw)
                    return ret
                return f

            def mk_calc():
                def f(args, kw):
                    log.append("create")
                    rec["create"] = (args, kw)
                    return Obj("CALC", {"test_stat": kw.get("test_stat", "qtilde")})
                return f

            ext = {
                "_check_hypotest_prerequisites": mk("prereq", None),
                "create_calculator": mk_calc(),  # what create_calculator hands back stores the statistic it was created with (default qtilde, C08.R4)
                "teststatistic": mk("teststatistic", Poly.atom("TS")),
                "distributions": mk("distributions", (Obj("SB"), Obj("B"))),
                "pvalues": mk("pvalues", (CLsb_o, CLb_o, CLs_o)),
                "expected_pvalues": mk("expected_pvalues", (list(CLsb_e), list(CLb_e), list(CLs_e))),
            }
            env = {
                "poi_test": Poly.atom("mu_test"), "data": Obj("data"), "pdf": Obj("pdf"), "init_pars": Obj("init"), "par_bounds": Obj("bounds"),
                "fixed_params": Obj("fixed"), "calctype": "asymptotics", "kwargs": ({"test_stat": "q0"} if is_q0 else {"test_stat": "qtilde"}),
                "utils": Obj("utils"), **cfg,
            }
            label = f"q0={is_q0} " + " ".join(f"{k.replace('return_', '')}={int(v)}" for k, v in cfg.items())
            try:
                it = Interp(env, {}, {}, externals=ext)
                out = it.run(A.strip_docstring(hyp.node.body))
            except Undecided as e:
                ctx.unrecognised(r1, hyp, f"hypotest [{label}]", f"not interpretable: {e}")
                continue
            band = CLsb_e if is_q0 else CLs_e
            exp = [CLsb_o if is_q0 else CLs_o]
            if cfg["return_tail_probs"]:
                exp.append([CLb_o] if is_q0 else [CLsb_o, CLb_o])
            if cfg["return_expected"]:
                exp.append(band[2])
            if cfg["return_expected_set"]:
                exp.append(list(band))
            if cfg["return_calculator"]:
                exp.append(Obj("CALC"))
            want = tuple(exp) if len(exp) > 1 else exp[0]
            if _same(out, want):
                n_ok += 1
                ctx.holds(r1, f"{INF}::hypotest [{label}]", _show(want))
            else:
                ctx.violated(r1, hyp, f"hypotest result layout [{label}]", "the returned tuple does not contain exactly the requested extras in the documented order", expected=_show(want), found=_show(out))
            order_log = order_log or list(log)
            created = created or rec.get("create")
            if is_q0 is False and combo == (False,) * 4:
                # default test_stat path: kwargs without the key
                try:
                    env2 = dict(env)
                    env2["kwargs"] = {}
                    out2 = Interp(env2, {}, {}, externals=ext).run(A.strip_docstring(hyp.node.body))
                    if not _same(out2, CLs_o):
                        ctx.violated(r1, hyp, "hypotest default statistic", "without an explicit test_stat the observed value returned is not CLs", expected="CLs_obs", found=_show(out2))
                except Undecided:
                    pass
    ctx.extra["exhaustive"] = True
    ctx.extra["configurations"] = 32

    # ---------------- R2
    g = CFG.build(hyp.node.body)
    pm = A.parent_map(hyp.node)
    pcs = calls_to(hyp.node, {"_check_hypotest_prerequisites"})
    ccs = calls_to(hyp.node, {"create_calculator"})
    if not pcs or not ccs:
        if not pcs:
            ctx.violated(r2, hyp, "_check_hypotest_prerequisites(...)", "hypotest no longer checks its prerequisites (a model without POI or with a fixed POI is tested anyway)", node=hyp.node)
        else:
            ctx.unrecognised(r2, hyp, "create_calculator", "call not found")
    else:
        if g.dominates(A.stmt_of(pcs[0], pm), A.stmt_of(ccs[0], pm)):
            ctx.holds(r2, f"{INF}::hypotest", "prerequisite check dominates calculator creation")
        else:
            ctx.violated(r2, hyp, A.stmt_of(ccs[0], pm), "the calculator is created on a path that has not passed the prerequisite check", node=ccs[0])
    # prerequisites: interpreted on the four situations
    from ..alg import NotHandled, RaisedInFragment
    from ..objmodel import World
    for lab, poi_index, fixed_given, fixed_suggested, want in (
        ("no POI defined", None, None, [False, False], "UnspecifiedPOI"),
        ("POI fixed in the mask given", 1, [False, True], [False, False], "InvalidModel"),
        ("POI free, another parameter fixed", 1, [True, False], [False, False], None),
        ("explicit all-free mask, model suggestion irrelevant", 0, [False, False], [False, False], None),
    ):
        site = f"{INF}::_check_hypotest_prerequisites [{lab}]"
        try:
            cfgo = Obj("config", {"poi_index": None if poi_index is None else Poly.const(poi_index)})

            def sugg(recv, a, k, fixed_suggested=fixed_suggested):
                if not (isinstance(recv, Obj) and recv.name == "config"):
                    raise NotHandled()
                return list(fixed_suggested)

            w = World({"__strict__": True, ".suggested_fixed": sugg}, module_env={"exceptions": Obj("exceptions"), "utils": Obj("utils")})
            w.add_func(pre).add_func(apf)
            w.call_func(pre, [Obj("pdf", {"config": cfgo}), Obj("data"), Obj("init"), Obj("bounds"), fixed_given])
            if want is None:
                ctx.holds(r2, site, "accepted")
            else:
                ctx.violated(r2, pre, f"prerequisites [{lab}]", f"a hypothesis test is not refused when {lab}", expected=f"raise {want}", found="accepted")
        except RaisedInFragment as e:
            cls_ = e.exc_name.split(".")[-1]
            if want == cls_:
                ctx.holds(r2, site, f"refused with {cls_}")
            elif want is None:
                ctx.violated(r2, pre, f"prerequisites [{lab}]", f"a legitimate hypothesis test is refused with {e.exc_name}")
            else:
                ctx.violated(r2, pre, f"prerequisites [{lab}]", f"refused with {e.exc_name}, documented is {want}")
        except (Undecided, KeyError, TypeError, IndexError, AttributeError) as e:
            ctx.unrecognised(r2, pre, f"prerequisites [{lab}]", f"not interpretable: {type(e).__name__}: {e}")
    if order_log:
        if "teststatistic" in order_log and "distributions" in order_log and order_log.index("teststatistic") < order_log.index("distributions"):
            ctx.holds(r2, f"{INF}::hypotest", "teststatistic before distributions")
        else:
            ctx.violated(r2, hyp, "calc.teststatistic / calc.distributions", "distributions() is requested before teststatistic() (the asymptotic calculator needs sqrt(qA) first)", found=str(order_log))

    # ---------------- R5
    if created:
        args, kw = created
        got = [a if isinstance(a, str) else (a.name if isinstance(a, Obj) else str(a)) for a in args]
        want = ["asymptotics", "data", "pdf", "init", "bounds", "fixed"]
        # init/bounds/fixed pass through `x or default`: Obj is truthy so they stay
        if got == want:
            ctx.holds(r5, f"{INF}::hypotest -> create_calculator", "(calctype, data, pdf, init_pars, par_bounds, fixed_params)")
        else:
            ctx.violated(r5, hyp, "create_calculator(...)", "positional arguments of create_calculator are not (calctype, data, pdf, init_pars, par_bounds, fixed_params)", expected=str(want), found=str(got))
        star = [k for c in ccs for k in c.keywords if k.arg is None and "kwargs" in A.names_loaded(k.value)]
        if star:
            ctx.holds(r5, f"{INF}::hypotest -> create_calculator", "**kwargs forwarded")
        else:
            ctx.violated(r5, hyp, ccs[0] if ccs else "create_calculator", "calculator options (**kwargs, e.g. test_stat, ntoys) are not forwarded", expected="**kwargs")
    for mname in ("teststatistic", "distributions"):
        cs = [c for c in A.calls_in(hyp.node) if A.call_attr(c) == mname]
        if cs and cs[0].args and "poi_test" in A.names_loaded(cs[0].args[0]):
            ctx.holds(r5, f"{INF}::hypotest: calc.{mname}(poi_test)")
        else:
            ctx.violated(r5, hyp, f"calc.{mname}(...)", f"{mname} is not evaluated at the tested POI value", node=cs[0] if cs else hyp.node)
    # create_calculator forwards *args/**kwargs
    cc_ret = [r for r in ast.walk(cc.node) if isinstance(r, ast.Return) and r.value is not None]
    okf = False
    keys = None
    for r in cc_ret:
        v = r.value
        if isinstance(v, ast.Call) and any(isinstance(a, ast.Starred) for a in v.args) and any(k.arg is None for k in v.keywords):
            okf = True
        for n in list(repo.walk_with_tables(cc, v)) + list(repo.walk_with_tables(cc)):  # the table: in the return expression, a local, or a module constant
            if isinstance(n, ast.Dict) and n.keys and all(k is not None and isinstance(A.const_value(k), str) for k in n.keys) and keys is None:
                keys = {A.const_value(k): A.dotted(val) for k, val in zip(n.keys, n.values)}
    if okf:
        ctx.holds(r5, f"{UT}::create_calculator", "*args, **kwargs forwarded to the calculator class")
    else:
        ctx.violated(r5, cc, "create_calculator", "create_calculator does not forward *args/**kwargs to the calculator")

    # ---------------- R4
    if keys == {"asymptotics": "AsymptoticCalculator", "toybased": "ToyCalculator"}:
        ctx.holds(r4, f"{UT}::create_calculator", str(keys))
    else:
        ctx.violated(r4, cc, "calculator table", "calculator type table is not {'asymptotics': AsymptoticCalculator, 'toybased': ToyCalculator}", found=str(keys))
    hyp_default = None
    for c in A.calls_in(hyp.node):
        if A.call_attr(c) == "get" and c.args and A.const_value(c.args[0]) == "test_stat" and len(c.args) > 1:
            hyp_default = A.const_value(c.args[1])
    for cname in ("AsymptoticCalculator", "ToyCalculator"):
        init = repo.method(CALC, cname, "__init__")
        ctx.touch(init)
        d = A.param_defaults(init.node).get("test_stat")
        dv = A.const_value(d) if d is not None else None
        if hyp_default is not None and dv == hyp_default:
            ctx.holds(r4, f"{CALC}::{cname}.__init__ default test_stat", repr(dv))
        elif hyp_default is None and not any(A.const_value(n) == "test_stat" for n in ast.walk(hyp.node) if isinstance(n, ast.Constant)) and dv == A.const_value(A.param_defaults(repo.method(CALC, "AsymptoticCalculator", "__init__").node).get("test_stat")):
            # hypotest does not repeat the default at all: it asks the calculator it created (decided by R1's default path); the two calculators agree
            ctx.holds(r4, f"{CALC}::{cname}.__init__ default test_stat", f"{dv!r}; hypotest reads the statistic from the calculator")
        else:
            ctx.violated(r4, init, "test_stat default", f"hypotest assumes the default statistic {hyp_default!r} when deciding what to return, {cname} defaults to {dv!r}", expected=repr(hyp_default), found=repr(dv))

    # ---------------- R3
    rec = {}

    def fpf(args, kw):
        rec["fit"] = (args, kw)
        return Poly.atom("FITPARS")

    for flag in (False, True):
        try:
            env = {"asimov_mu": Poly.atom("MU_A"), "data": Obj("data"), "pdf": Obj("pdf"), "init_pars": Obj("init"), "par_bounds": Obj("bounds"), "fixed_params": Obj("fixed"), "return_fitted_pars": flag}
            out = Interp(env, {}, {}, externals={"fixed_poi_fit": fpf}).run(A.strip_docstring(gen.node.body))
            data = out[0] if flag else out
            want = fn("expected_data", Poly.atom("pdf"), Poly.atom("FITPARS"))
            if to_poly(data) == want and (not flag or to_poly(out[1]) == Poly.atom("FITPARS")):
                ctx.holds(r3, f"{CALC}::generate_asimov_data [return_fitted_pars={flag}]", "pdf.expected_data(fixed_poi_fit(...))")
            else:
                ctx.violated(r3, gen, f"generate_asimov_data [return_fitted_pars={flag}]", "the Asimov dataset is not the model expectation at the conditional best-fit parameters", expected=str(want), found=_show(out))
        except Undecided as e:
            ctx.unrecognised(r3, gen, "generate_asimov_data", str(e))
    if "fit" in rec:
        args, kw = rec["fit"]
        got = [str(to_poly(a)) if not isinstance(a, Obj) else a.name for a in args]
        if got == ["MU_A", "data", "pdf", "init", "bounds", "fixed"]:
            ctx.holds(r3, f"{CALC}::generate_asimov_data -> fixed_poi_fit", "(asimov_mu, data, pdf, init_pars, par_bounds, fixed_params)")
        else:
            ctx.violated(r3, gen, "fixed_poi_fit(...)", "the Asimov fit does not receive (asimov_mu, data, pdf, init_pars, par_bounds, fixed_params)", found=str(got))
    # mu_A table in both calculators
    for cname, mname in (("AsymptoticCalculator", "teststatistic"), ("ToyCalculator", "distributions")):
        m = repo.method(CALC, cname, mname)
        ctx.touch(m)
        hit = None
        for n in ast.walk(m.node):
            if isinstance(n, ast.IfExp) and "test_stat" in A.unparse(n.test):
                hit = n
        if hit is None and cname == "ToyCalculator":
            # another code shape: decided from behaviour -- the constructor and distributions interpreted per statistic
            from .c14 import toy_hypotheses
            try:
                got_mu = {st_: toy_hypotheses(repo, st_) for st_ in ("q0", "q", "qtilde")}
            except Undecided as e:
                ctx.unrecognised(r3, m, "asimov mu", f"no `x if self.test_stat == 'q0' else y` selector found, and distributions is not interpretable: {e}")
                continue
            want_mu = {"q0": ["mu_test", "1"], "q": ["mu_test", "0"], "qtilde": ["mu_test", "0"]}
            if got_mu == want_mu:
                ctx.holds(r3, f"{CALC}::{cname}.{mname}", "background toys at mu = 1 for q0 and at mu = 0 otherwise (interpreted)")
            else:
                ctx.violated(r3, m, "background hypothesis of the toys", "the background-only toys are not generated at mu = 1 for the discovery statistic and at mu = 0 otherwise", expected=str(want_mu), found=str(got_mu), node=m.node)
            continue
        if hit is None:
            ctx.unrecognised(r3, m, "asimov mu", "no `x if self.test_stat == 'q0' else y` selector found")
            continue
        t = hit.test
        okk = isinstance(t, ast.Compare) and isinstance(t.ops[0], ast.Eq) and A.const_value(t.comparators[0]) == "q0" and A.const_value(hit.body) in (1, 1.0) and A.const_value(hit.orelse) in (0, 0.0)
        if okk:
            ctx.holds(r3, f"{CALC}::{cname}.{mname}", "mu_A = 1.0 if q0 else 0.0")
        else:
            ctx.violated(r3, m, hit, "the Asimov / background hypothesis is not mu = 1 for the discovery statistic and mu = 0 otherwise", expected="1.0 if self.test_stat == 'q0' else 0.0", found=A.short(hit, 60), node=hit)
        # the value reaches generate_asimov_data / the bkg fixed_poi_fit as first argument
    ts = repo.method(CALC, "AsymptoticCalculator", "teststatistic")
    gcs = [c for c in A.calls_in(ts.node) if A.call_attr(c) == "generate_asimov_data"]
    from ..dep import Deps as _Deps
    _d = _Deps(ts.node)
    _sel = [n for n in ast.walk(ts.node) if isinstance(n, ast.IfExp) and "test_stat" in A.unparse(n.test)]
    def _is_selector(e):
        if any(x is s_ for s_ in _sel for x in ast.walk(e)):
            return True
        return isinstance(e, ast.Name) and any(any(x is s_ for s_ in _sel for x in ast.walk(dv)) for dv in _d.defs.get(e.id, []))
    if gcs and gcs[0].args and _is_selector(gcs[0].args[0]):
        ctx.holds(r3, f"{CALC}::AsymptoticCalculator.teststatistic -> generate_asimov_data(asimov_mu, ...)")
    else:
        ctx.violated(r3, ts, "generate_asimov_data(...)", "the Asimov dataset is not generated at the selected mu_A", node=gcs[0] if gcs else ts.node)


def _same(a, b):
    if isinstance(a, (list, tuple)) and isinstance(b, (list, tuple)):
        return type(a) is type(b) and len(a) == len(b) and all(_same(x, y) for x, y in zip(a, b))
    if isinstance(a, Obj) and isinstance(b, Obj):
        return a.name == b.name
    if isinstance(a, (Poly, int, float)) and isinstance(b, (Poly, int, float)):
        return to_poly(a) == to_poly(b)
    return False


def _show(v):
    if isinstance(v, tuple):
        return "(" + ", ".join(_show(x) for x in v) + ")"
    if isinstance(v, list):
        return "[" + ", ".join(_show(x) for x in v) + "]"
    if isinstance(v, Obj):
        return v.name
    return str(v)


def _hypotest_end_to_end(ctx, rid, repo):
    """hypotest -> create_calculator -> AsymptoticCalculator (constructor, teststatistic, distributions, pvalues,
    expected_pvalues) -> generate_asimov_data, all interpreted, with the test statistic, the fixed-POI fit and
    pdf.expected_data as recorders whose results carry what they were evaluated on; three calls in one process."""
    from ..alg import RaisedInFragment
    from ..objmodel import World
    at, c = Poly.atom, Poly.const
    hyp = repo.func(INF, "hypotest")
    errs = (Undecided, KeyError, TypeError, ValueError, IndexError, AttributeError)

    def tag(d):
        if isinstance(d, list):
            return ",".join(str(to_poly(x)) for x in d)
        return getattr(d, "name", "?")

    from ..alg import AutoRegion
    rec = {"stat": [], "fpf": []}
    region = AutoRegion()  # statistics evaluated on something else than expected still get (generic) values: a deviation, not a refusal
    region["NEGINF"] = Fraction(-10 ** 9)

    from .c14 import accepted_statistic_names
    try:
        accepted = accepted_statistic_names(repo)
    except Undecided as e:
        ctx.unrecognised(rid, hyp, "get_test_stat", f"not interpretable: {e}")
        return

    def get_test_stat(a, k):
        name = a[0]
        if name not in accepted:
            from ..alg import _PyRaise
            raise _PyRaise("InvalidTestStatistic")  # as the real lookup (interpreted above) does for this spelling

        def tsf(a2, k2):
            kk = dict(k2)
            for nm, v in zip(("mu", "data", "pdf", "init_pars", "par_bounds", "fixed_params"), a2):
                kk[nm] = v
            t_ = f"{name}:{to_poly(kk['mu'])};{tag(kk['data'])}"
            rec["stat"].append((name, kk, t_))
            q = at(f"Q<{t_}>")
            pars = ([at(f"FIXEDFIT<{t_}>")], [at(f"FREEFIT<{t_}>")])
            return (q, pars) if kk.get("return_fitted_pars") is True else q
        return PyFunc(tsf, f"teststat[{name}]")

    def fixed_poi_fit(a, k):
        kk = dict(k)
        for nm, v in zip(("poi_val", "data", "pdf", "init_pars", "par_bounds", "fixed_params"), a):
            kk[nm] = v
        t_ = f"{to_poly(kk['poi_val'])};{tag(kk['data'])}"
        rec["fpf"].append((kk, t_))
        return Obj(f"BESTFIT<{t_}>")

    def expected_data(recv, a, k):
        if not (isinstance(recv, Obj) and recv.name == "pdf"):
            from ..alg import NotHandled
            raise NotHandled()
        return Obj(f"ASIMOV<{getattr(a[0], 'name', a[0])}>")

    try:
        w = World({"__strict__": True, "get_test_stat": get_test_stat, "fixed_poi_fit": fixed_poi_fit, ".expected_data": expected_data,
                   "HypoTestFitResults": lambda a, k: Obj("fitresults", dict(k))}, region=region,
                  module_env={"log": Obj("log"), "exceptions": Obj("exceptions"), "utils": Obj("utils")})
        for rel in (INF, UT, CALC):
            m = repo.module(rel)
            for q, g in m.funcs.items():
                if "." not in q and q not in ("__dir__", "get_test_stat", "hypotest") and q not in w.base:
                    w.add_func(g)
        w.add_func(hyp)
        for cn in ("AsymptoticCalculator", "AsymptoticTestStatDistribution"):
            w.add_class(repo.cls(CALC, cn))
        w.base["ToyCalculator"] = lambda a, k: (_ for _ in ()).throw(Undecided("toy calculator not part of this scenario"))
        w.ext = None
        cfg = Obj("config", {"poi_index": c(0)})
        pdf = Obj("pdf", {"config": cfg})

        def cfg_method(value):
            def f(recv, a, k):
                if isinstance(recv, Obj) and recv.name == "config":
                    return value(recv)
                from ..alg import NotHandled
                raise NotHandled()
            return f

        w.base[".suggested_fixed"] = cfg_method(lambda r_: list(r_.attrs.get("suggested_fixed", [False, False])))
        w.base[".suggested_init"] = cfg_method(lambda r_: [at("SI0"), at("SI1")])
        w.base[".suggested_bounds"] = cfg_method(lambda r_: [(at("SL0"), at("SH0")), (at("SL1"), at("SH1"))])
        w.ext = None
    except errs as e:
        ctx.unrecognised(rid, hyp, "hypotest end to end", f"world not buildable: {type(e).__name__}: {e}")
        return
    data1, data2 = [at("d1_0"), at("d1_1")], [at("d2_0"), at("d2_1")]
    plan = [
        ("first call, qtilde, sqrt(q) < sqrt(qA)", "qtilde", at("mu_1"), data1, Fraction(1), Fraction(2)),
        ("second call, other mu and data, qtilde, sqrt(q) > sqrt(qA)", "qtilde", at("mu_2"), data2, Fraction(3), Fraction(2)),
        ("third call, q0 on the first data", "q0", at("mu_3"), data1, Fraction(3, 2), Fraction(5, 2)),
        ("fourth call, q", "q", at("mu_1"), data2, Fraction(1, 2), Fraction(3)),
        # other spellings of a statistic name: refused by the lookup, or -- where the lookup accepts them -- meaning the SAME
        # statistic everywhere (the Asimov hypothesis and what hypotest returns are chosen by comparing the name too)
        ("fifth call, the discovery statistic spelled 'Q0'", "Q0", at("mu_3"), data2, Fraction(3, 2), Fraction(5, 2)),
        ("sixth call, 'QTILDE', sqrt(q) > sqrt(qA)", "QTILDE", at("mu_2"), data1, Fraction(3), Fraction(2)),
        # the SAME model, statistic, start values, bounds and fixed flags (the very objects of the second call) with OTHER data:
        # nothing computed for the second call's data may be served again
        ("seventh call, everything as in the second call except the data", "qtilde", at("mu_2"), [at("d7_0"), at("d7_1")], Fraction(3), Fraction(2)),
    ]
    reuse_cfg = {"seven": "secon"}
    cfg_objs = {}
    cdf = lambda x: fn("normal_cdf", to_poly(x))
    for lab, stat, mu, data, s_rep, a_rep in plan:
        ck_ = reuse_cfg.get(lab[:5], lab[:5])
        init, bounds, fixed = cfg_objs.setdefault(ck_, (Obj("init_" + ck_), Obj("bounds_" + ck_), [False, False]))
        canon = accepted.get(stat)
        if canon is None:
            try:
                w.call_func(hyp, [mu, data, pdf, init, bounds, fixed], {"test_stat": stat})
                ctx.violated(rid, hyp, f"hypotest end to end [{lab}]", f"a statistic name the lookup refuses ({stat!r}) is accepted by hypotest")
            except RaisedInFragment:
                ctx.holds(rid, f"{INF}::hypotest [{lab}]", "refused: the name is not one the lookup knows")
            except errs as e:
                ctx.unrecognised(rid, hyp, f"hypotest end to end [{lab}]", f"not interpretable: {type(e).__name__}: {e}")
            continue
        raw, stat_label = stat, stat
        amu = 1 if canon == "q0" else 0
        # the tested value: q0 is always evaluated at the mu the caller passes (hypotest does not rewrite it)
        t_obs = f"{stat}:{to_poly(mu)};{tag(data)}"
        asimov_name = f"ASIMOV<BESTFIT<{to_poly(to_poly(amu))};{tag(data)}>>"
        t_asi = f"{stat}:{to_poly(mu)};{asimov_name}"
        Q, QA = at(f"Q<{t_obs}>"), at(f"Q<{t_asi}>")
        s_, a_ = fn("sqrt", Q), fn("sqrt", QA)
        region[str(s_)], region[str(a_)] = s_rep, a_rep
        region[str(Q)], region[str(QA)] = s_rep ** 2, a_rep ** 2
        n_s, n_f = len(rec["stat"]), len(rec["fpf"])
        try:
            out = w.call_func(hyp, [mu, data, pdf, init, bounds, fixed], {"test_stat": stat, "return_tail_probs": True, "return_expected": True, "return_expected_set": True})
        except RaisedInFragment as e:
            ctx.violated(rid, hyp, f"hypotest end to end [{lab}]", f"raises {e.exc_name} on a model with a floating POI")
            continue
        except errs as e:
            ctx.unrecognised(rid, hyp, f"hypotest end to end [{lab}]", f"not interpretable: {type(e).__name__}: {e}")
            continue
        T = (Q - QA) / (2 * a_) if (canon == "qtilde" and s_rep > a_rep) else s_ - a_
        CLsb, CLb = cdf(-(T + a_)), cdf(-T)
        band = [cdf(-(Poly.const(N) + a_)) / cdf(-Poly.const(N)) if canon != "q0" else cdf(-(Poly.const(N) + a_)) for N in (2, 1, 0, -1, -2)]
        want = [CLsb if canon == "q0" else CLsb / CLb, [CLb] if canon == "q0" else [CLsb, CLb], band[2], band]
        probs = []
        stats_, fpfs = rec["stat"][n_s:], rec["fpf"][n_f:]
        if [t for _, _, t in stats_] != [t_obs, t_asi]:
            probs.append(f"the test statistic is evaluated on {[t for _, _, t in stats_]}; needed: the observed data and the Asimov data of the mu={amu} conditional fit to THIS call's data, both at the tested mu")
        elif len(fpfs) != 1 or fpfs[0][1] != f"{to_poly(to_poly(amu))};{tag(data)}":
            probs.append(f"the Asimov data come from fixed-POI fit(s) {[t for _, t in fpfs]}, needed one at mu={amu} on this call's data")
        else:
            for what, kk in [("test statistic", stats_[0][1]), ("Asimov test statistic", stats_[1][1]), ("Asimov fit", fpfs[0][0])]:
                if kk.get("pdf") is not pdf or kk.get("init_pars") is not init or kk.get("par_bounds") is not bounds or kk.get("fixed_params") is not fixed:
                    probs.append(f"the {what} does not receive this call's model, start values, bounds and fixed flags")
                    break
        if not probs:
            ok = isinstance(out, (tuple, list)) and len(out) == 4
            if ok:
                try:
                    got = [to_poly(out[0]), [to_poly(x) for x in out[1]], to_poly(out[2]), [to_poly(x) for x in out[3]]]
                except (Undecided, TypeError):
                    got = None
                if got is None:
                    probs.append("the result is not laid out as (observed, [tail probabilities], median expected, [band of 5])")
                elif got[0] != want[0]:
                    probs.append(f"observed value {got[0]}, asymptotic formula {want[0]}")
                elif got[1] != want[1]:
                    probs.append(f"tail probabilities {[str(x) for x in got[1]]}, asymptotic formulae {[str(x) for x in want[1]]}")
                elif got[3] != want[3] or got[2] != want[2]:
                    probs.append(f"expected band {[str(x) for x in got[3]]} (median {got[2]}), asymptotic formulae {[str(x) for x in want[3]]}")
            else:
                probs.append("the result is not (observed, tail probabilities, median expected, band)")
        if probs:
            ctx.violated(rid, hyp, f"hypotest end to end [{lab}]", f"hypotest({stat}) composed with the asymptotic calculator does not give the asymptotic answer for this call: {probs[0]}", expected="observed / expected values of arXiv:1007.1727 from this call's statistic and Asimov statistic", found=probs[0])
        else:
            ctx.holds(rid, f"{INF}::hypotest -> AsymptoticCalculator [{lab}]", "statistic on data and on the Asimov data of this call; observed, tails, median and band by the asymptotic formulae")
    toy_history(ctx, rid, w, hyp, pdf, at, c)
    # ---- refusals, through hypotest itself (whatever helper does the checking, with whatever signature)
    nopoi = Obj("pdf", {"config": Obj("config", {"poi_index": None})})
    fixed_in_model = Obj("pdf", {"config": Obj("config", {"poi_index": c(0), "suggested_fixed": [True, False]})})
    for lab, model, fixed, want_exc in (
        ("no POI defined", nopoi, [False, False], "UnspecifiedPOI"),
        ("POI held fixed through the fixed_params argument", pdf, [True, False], "InvalidModel"),
        ("POI held fixed through the fixed_params argument (tuple)", pdf, (True, False), "InvalidModel"),
        ("POI fixed in the model, fixed_params left to the default", fixed_in_model, None, "InvalidModel"),
        ("POI fixed in the model, released through fixed_params", fixed_in_model, [False, False], None),
    ):
        n_s = len(rec["stat"])
        try:
            for nm_ in list(region):
                pass
            w.call_func(hyp, [at("mu_r"), [at("dr_0"), at("dr_1")], model, Obj("init_r"), Obj("bounds_r"), fixed], {"test_stat": "q"})
            if want_exc:
                ctx.violated(rid, hyp, f"hypotest refusal [{lab}]", f"a hypothesis test is run although {lab.split(' (')[0].lower() if not lab.startswith('no POI') else 'no POI is defined'}: the profile likelihood ratio is meaningless and a number is returned", expected=f"raise {want_exc}", found="a result")
            else:
                ctx.holds(rid, f"{INF}::hypotest [{lab}]", "runs")
        except RaisedInFragment as e:
            got = e.exc_name.split(".")[-1]
            if want_exc is None:
                ctx.violated(rid, hyp, f"hypotest [{lab}]", f"refused with {got} although the POI floats in this call")
            elif got == want_exc and len(rec["stat"]) == n_s:
                ctx.holds(rid, f"{INF}::hypotest [{lab}]", f"refused with {want_exc} before anything is fitted")
            elif got == want_exc:
                ctx.violated(rid, hyp, f"hypotest refusal [{lab}]", f"{want_exc} is raised only after test statistics were already evaluated")
            else:
                ctx.violated(rid, hyp, f"hypotest refusal [{lab}]", f"raises {got}", expected=want_exc)
        except errs as e:
            ctx.unrecognised(rid, hyp, f"hypotest refusal [{lab}]", f"not interpretable: {type(e).__name__}: {e}")


def toy_history(ctx, rid, w, hyp, pdf, at, c):
    """hypotest(calctype='toybased') three times on ONE model at ONE tested value with the same statistic and number of toys:
    other data in the second call, other fixed-parameter flags in the third.  The toy calculator is a recorder: every call
    must construct its own calculator from THIS call's data and fit configuration and take the observed statistic, the toy
    distributions and the p-values from that calculator (shared by C08.R6 and C14.R5)."""
    from ..alg import RaisedInFragment
    made, used = [], []

    def toy_ctor(a, k):
        n = len(made) + 1
        kk = dict(k)
        for nm, v in zip(("data", "pdf", "init_pars", "par_bounds", "fixed_params"), a):
            kk[nm] = v
        calc = Obj("toycalc", {"test_stat": kk.get("test_stat", "qtilde"), "ntoys": kk.get("ntoys", c(2000)), "serial": n}, closed=True)
        made.append(kk)
        calc.attrs["teststatistic"] = PyFunc(lambda a2, k2, n=n: at(f"TS{n}"), "teststatistic")
        calc.attrs["distributions"] = PyFunc(lambda a2, k2, n=n: (Obj(f"SB{n}"), Obj(f"B{n}")), "distributions")
        calc.attrs["pvalues"] = PyFunc(lambda a2, k2, n=n: (used.append(("pvalues", n, [getattr(x, "name", str(x)) for x in a2])) or (at(f"CLsb{n}"), at(f"CLb{n}"), at(f"CLs{n}"))), "pvalues")
        calc.attrs["expected_pvalues"] = PyFunc(lambda a2, k2, n=n: (used.append(("expected", n, [getattr(x, "name", str(x)) for x in a2])) or ([at(f"Esb{n}_{j}") for j in range(5)], [at(f"Eb{n}_{j}") for j in range(5)], [at(f"Es{n}_{j}") for j in range(5)])), "expected_pvalues")
        return calc

    saved = w.base.get("ToyCalculator")
    w.base["ToyCalculator"] = toy_ctor
    w.ext = None
    errs = (Undecided, KeyError, TypeError, ValueError, IndexError, AttributeError)
    try:
        mu = at("mu_toys")
        calls = [("first call", [at("t1_0"), at("t1_1")], [False, False]), ("second call, other data", [at("t2_0"), at("t2_1")], [False, False]), ("third call, the second nuisance parameter held constant", [at("t2_0"), at("t2_1")], [False, True])]
        probs = []
        for i, (lab, data, fixed) in enumerate(calls, 1):
            n_made, n_used = len(made), len(used)
            init, bounds = Obj(f"toy_init{i}"), Obj(f"toy_bounds{i}")
            out = w.call_func(hyp, [mu, data, pdf, init, bounds, fixed], {"calctype": "toybased", "ntoys": c(50), "test_stat": "qtilde", "return_expected_set": True})
            mine = made[n_made:]
            if len(mine) != 1 or mine[0].get("data") is not data or mine[0].get("pdf") is not pdf or mine[0].get("init_pars") is not init or mine[0].get("par_bounds") is not bounds or mine[0].get("fixed_params") is not fixed:
                probs.append(f"{lab}: the toy calculator is not constructed once from this call's data, model, start values, bounds and fixed flags ({len(mine)} constructions)")
                break
            n = len(made)
            want_used = [("pvalues", n, [f"TS{n}", f"SB{n}", f"B{n}"]), ("expected", n, [f"SB{n}", f"B{n}"])]
            if used[n_used:] != want_used:
                probs.append(f"{lab}: observed and expected p-values are computed from {used[n_used:]}; this call's calculator, statistic and toy distributions are {want_used} -- toys thrown for an EARLIER call (other data / other fit configuration) are reused")
                break
            got0 = str(to_poly(out[0])) if isinstance(out, (tuple, list)) and out else str(out)
            if got0 != f"CLs{n}":
                probs.append(f"{lab}: the observed value returned is {got0}, this call's is CLs{n}")
                break
        if probs:
            ctx.violated(rid, hyp, "toy-based hypotest history on one model", probs[0], expected="every call: its own calculator, statistic, toy distributions and p-values", found=probs[0])
        else:
            ctx.holds(rid, f"{INF}::hypotest [toybased, three calls on one model at one tested value: other data, other fixed flags]", "each call constructs its calculator from its own arguments and reports that calculator's p-values")
    except RaisedInFragment as e:
        ctx.violated(rid, hyp, "toy-based hypotest history", f"raises {e.exc_name} on valid arguments")
    except errs as e:
        ctx.unrecognised(rid, hyp, "toy-based hypotest history", f"not interpretable: {type(e).__name__}: {e}")
    finally:
        if saved is not None:
            w.base["ToyCalculator"] = saved
        w.ext = None


def toy_history_standalone(ctx, rid, repo):
    """the toy-based history in a world of its own: hypotest and its helpers, create_calculator, a stand-in model"""
    from ..alg import NotHandled
    from ..objmodel import World
    at, c = Poly.atom, Poly.const
    hyp = repo.func(INF, "hypotest")
    ctx.touch(hyp)
    try:
        w = World({"__strict__": True}, module_env={"log": Obj("log"), "exceptions": Obj("exceptions"), "utils": Obj("utils")})
        for rel in (INF, UT):
            for q, g in repo.module(rel).funcs.items():
                if "." not in q and q not in ("__dir__", "get_test_stat", "hypotest"):
                    w.add_func(g)
        w.add_func(hyp)
        w.base["AsymptoticCalculator"] = lambda a, k: (_ for _ in ()).throw(Undecided("asymptotic calculator not part of this scenario"))
        cfg = Obj("config", {"poi_index": c(0)})
        pdf = Obj("pdf", {"config": cfg})

        def cfg_method(value):
            def f(recv, a, k):
                if isinstance(recv, Obj) and recv.name == "config":
                    return value(recv)
                raise NotHandled()
            return f

        w.base[".suggested_fixed"] = cfg_method(lambda r_: [False, False])
        w.base[".suggested_init"] = cfg_method(lambda r_: [at("SI0"), at("SI1")])
        w.base[".suggested_bounds"] = cfg_method(lambda r_: [(at("SL0"), at("SH0")), (at("SL1"), at("SH1"))])
        w.ext = None
    except (Undecided, KeyError, TypeError, ValueError, IndexError, AttributeError) as e:
        ctx.unrecognised(rid, hyp, "toy-based hypotest history", f"world not buildable: {type(e).__name__}: {e}")
        return
    toy_history(ctx, rid, w, hyp, pdf, at, c)


def _factories_forward_poi(ctx, rid, repo):
    """pyhf.simplemodels: every public function that constructs a Model, interpreted with a recording Model."""
    from ..objmodel import World
    SM = "src/pyhf/simplemodels.py"
    mod = repo.module(SM)
    ctx.touch_file(mod.relpath)
    errs = (Undecided, KeyError, TypeError, ValueError, IndexError, AttributeError)
    for q, f in sorted(mod.funcs.items()):
        if "." in q or q.startswith("_"):
            continue
        params = A.params_of(f.node)
        if "poi_name" not in params or not any(A.call_attr(c_) == "Model" or A.unparse(c_.func) == "Model" for c_ in A.calls_in(f.node)):
            continue
        ctx.touch(f)
        dflt = A.param_defaults(f.node).get("poi_name")
        dflt_v = A.const_value(dflt) if dflt is not None and A.is_const(dflt) else "<no literal default>"
        bad = None
        try:
            for lab, given in (("poi_name=None (a POI-less model)", None), ("poi_name='' (a POI-less model)", ""), ("poi_name='strength'", "strength"), ("poi_name left out", "<omitted>")):
                calls = []
                w = World({"__strict__": True, "Model": lambda a, k, calls=calls: (calls.append((a, dict(k))) or Obj("MODEL"))}, module_env={"log": Obj("log")})
                w.add_func(f)
                kw = {p_: [Poly.atom(f"{p_}0"), Poly.atom(f"{p_}1")] for p_ in params if p_ not in ("batch_size", "validate", "poi_name")}
                kw.update({"batch_size": Obj("BATCH"), "validate": Obj("VALIDATE")} if {"batch_size", "validate"} <= set(params) else {})
                if given != "<omitted>":
                    kw["poi_name"] = given
                w.call_func(f, [], kw)
                if len(calls) != 1:
                    bad = f"{lab}: Model is constructed {len(calls)} times"
                    break
                a, k = calls[0]
                want = dflt_v if given == "<omitted>" else given
                got = k.get("poi_name", "<not passed>")
                if got != want or (got is None) != (want is None):
                    bad = f"{lab}: Model is built with poi_name={got!r}; the caller asked for {want!r} -- a request for a model WITHOUT a parameter of interest comes back with one, and hypotest, instead of refusing (UnspecifiedPOI), tests a parameter the caller never declared as POI"
                    break
                if "batch_size" in kw and (k.get("batch_size") is not kw["batch_size"] or k.get("validate") is not kw["validate"]):
                    bad = f"{lab}: batch_size / validate do not reach Model as given"
                    break
        except errs as e:
            ctx.unrecognised(rid, f, f"{q} [recording Model]", f"not interpretable: {type(e).__name__}: {e}")
            continue
        if bad:
            ctx.violated(rid, f, f"{q}: poi_name handed to Model", bad, expected="Model(spec, batch_size=batch_size, validate=validate, poi_name=<as given>)", found=bad, node=f.node)
        else:
            ctx.holds(rid, f"{SM}::{q} [None, '', a name, left out]", f"poi_name reaches Model verbatim (default {dflt_v!r}); batch_size and validate as given")
