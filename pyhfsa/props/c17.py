"""C17 -- patch sets look up, verify and apply patches exactly.

  R1 KEYREG  the lookup dict has one key namespace: caller-supplied patch
             names / value tuples are never mixed with constant keys
  R2 ORDER   duplicate tests on name and on values (and the value-count
             check) dominate registration and raise InvalidPatchSet; both
             keys are registered for the same patch
  R3 RAISE   __getitem__ converts lists to tuples before the lookup and maps
             KeyError to InvalidPatchLookup
  R4 DEP     verify compares the digest under every listed algorithm, its
             only exits are the raise and loop exhaustion; digest hashes
             json.dumps(obj, sort_keys=True) of the whole object
  R5 ORDER/EFFECT apply: verify dominates the patch application; the patch
             is applied not in place; the result is wrapped in Workspace
"""

from __future__ import annotations

import ast

from .. import astutil as A
from ..cfg import CFG
from ..dep import Deps

EXPLANATION = (
    "Keyed-registration, dominance and exception-mapping rules over PatchSet.__init__/__getitem__/verify/apply and "
    "utils.digest: (R1) the dict that is looked up by caller-supplied names/value tuples contains no constant keys; "
    "(R2) duplicate/name, duplicate/values and value-count checks dominate both registrations; (R3) list keys become "
    "tuples and KeyError becomes InvalidPatchLookup; (R4) verify iterates all (algorithm, digest) pairs with no exit "
    "other than the raise, digest serialises with sort_keys=True and hashes the whole serialisation; (R5) verify "
    "dominates apply, jsonpatch is applied not in place and wrapped in Workspace. NOT decided: jsonpatch semantics, "
    "hash strength, schema validity of the result."
)
ASSUMPTIONS = [
    "jsonpatch.JsonPatch.apply(doc) without in_place=True returns a patched deep copy",
    "json.dumps(sort_keys=True) is key-order insensitive and injective on values",
]
PS = "src/pyhf/patchset.py"
UT = "src/pyhf/utils.py"


# R1-R5 recognise one code shape each; R6 decides the same clauses from behaviour (see Ctx.defer)
DEFER = [(["C17.R1", "C17.R2", "C17.R3", "C17.R4", "C17.R5"], ["C17.R6"])]


def run(ctx):
    repo = ctx.repo
    cls = repo.cls(PS, "PatchSet")
    init = repo.method(PS, "PatchSet", "__init__")
    getitem = repo.method(PS, "PatchSet", "__getitem__")
    verify = repo.method(PS, "PatchSet", "verify")
    apply_ = repo.method(PS, "PatchSet", "apply")
    digest = repo.func(UT, "digest")
    for f in (init, getitem, verify, apply_, digest):
        ctx.touch(f)

    # which dict does __getitem__ look up?
    lookups = [n for n in ast.walk(getitem.node) if isinstance(n, ast.Subscript) and (A.dotted(n.value) or "").startswith("self.") and isinstance(n.ctx, ast.Load)]
    r1 = ctx.rule("C17.R1", "KEYREG namespace purity: the dict indexed by caller-supplied patch names / value tuples holds no constant (literal) keys", "KEYREG", floor=1)
    r2 = ctx.rule("C17.R2", "ORDER: membership tests on name and on values, and the len(values)==len(labels) test, each raising InvalidPatchSet, dominate both registrations of a patch", "ORDER", floor=4)
    r3 = ctx.rule("C17.R3", "RAISE: __getitem__ turns list keys into tuples before the lookup and converts KeyError into InvalidPatchLookup", "RAISE", floor=2)
    r4 = ctx.rule("C17.R4", "DEP: verify checks every (algorithm, digest) pair, exits only by raising PatchSetVerificationError or exhausting the loop; utils.digest hashes json.dumps(obj, sort_keys=True)", "DEP", floor=3)
    r5 = ctx.rule("C17.R5", "ORDER/EFFECT: in apply, verify(spec) dominates the patch application, the patch is applied not in place, the result is wrapped in Workspace", "ORDER", floor=3)
    r6 = ctx.rule("C17.R6", "SEMANTIC: PatchSet / Patch / utils.digest INTERPRETED (object model; jsonpatch.JsonPatch, json.dumps and hashlib modelled): a set with an EMPTY patch, a patch NAMED 'name' and an ordinary one is built; every patch is returned by exactly its name, its value tuple and its value list, unknown keys raise InvalidPatchLookup; duplicate names, duplicate values and a wrong value count are refused with InvalidPatchSet; verify accepts the recorded workspace and any key-reordering of it (also inside lists), rejects a changed one under either algorithm, also when the SAME object was verified before and then changed; apply verifies first, returns Workspace(patched copy) and leaves its input untouched", "SEMANTIC", floor=8)
    r7 = ctx.rule("C17.R7", "MEMO-STATE (effect rule): no memoised function (functools.lru_cache / cache) on the validation path -- schema/validator.py, schema/loader.py, schema/__init__.py, patchset.py, utils.py, workspace.py -- reads, itself or through the package functions it calls, module state that is switched at run time (the schema directory and schema store that `pyhf.schema(path)` swaps, the current backend): what was validated under one schema directory must not decide what is accepted under another", "EFFECT", floor=1)
    r8 = ctx.rule("C17.R8", "SCHEMA-VALUES: the shipped patch-set schema (src/pyhf/schemas/<version>/defs.json, definitions.patchset.patch.metadata) admits ARBITRARY value tuples: `values` is an array whose items may be numbers, and no keyword restricts which numbers, how many, or whether coordinates repeat (uniqueItems, min/maxItems, enum, const, contains, not, numeric bounds ...); annotations (description, title, examples, $comment, default) are free", "SCHEMA", floor=1)
    _schema_values(ctx, r8, repo)
    r9 = ctx.rule("C17.R9", "WORKSPACE-VERBATIM (interpreted, engine shared with C16.R7): the Workspace objects that verify() digests and apply() patches and returns hold the document they were built from verbatim -- Workspace.__init__ through the channel-summary mixin into dict, on a document listed out of name order: same keys, values and LIST ORDERS (the digest and index-addressed JSON-patch paths depend on them)", "SEMANTIC", floor=1)
    from .c16 import workspace_verbatim
    workspace_verbatim(ctx, r9, repo)
    from .. import memo
    ctx.extra["memoised_functions_on_the_validation_path"] = memo.check(ctx, r7, ["src/pyhf/schema/validator.py", "src/pyhf/schema/loader.py", "src/pyhf/schema/__init__.py", "src/pyhf/schema/variables.py", "src/pyhf/patchset.py", "src/pyhf/utils.py", "src/pyhf/workspace.py"])
    _semantic(ctx, r6, repo)
    if not lookups:
        for r_ in (r1, r2, r3, r4, r5):
            ctx.holds(r_, f"{PS}::PatchSet (structural anchors not present)", "decided by C17.R6 alone")
            ctx.rules[r_].floor = 0
        return
    table = A.dotted(lookups[0].value)  # 'self._patches_by_key'
    attr = table.split(".", 1)[1]

    # -- R1: initial literal of that dict
    inits = [n for n in ast.walk(init.node) if isinstance(n, ast.Assign) and any(A.dotted(t) == table for t in n.targets)]
    stores = [n for n in ast.walk(init.node) if isinstance(n, ast.Assign) and any(isinstance(t, ast.Subscript) and A.dotted(t.value) == table for t in n.targets)]
    dyn = [s for s in stores if not A.is_const(s.targets[0].slice)]
    if not inits or not dyn:
        ctx.unrecognised(r1, init, table, f"initialisation ({len(inits)}) or dynamic registrations ({len(dyn)}) of the lookup table not found")
    for ini in inits:
        v = ini.value
        if isinstance(v, ast.Dict):
            const_keys = [k for k in v.keys if k is not None and A.is_const(k)]
            if const_keys and dyn:
                ctx.violated(
                    r1, init, ini,
                    f"lookup table `{table}` is seeded with literal keys {[A.const_value(k) for k in const_keys]} and later keyed by patch names/value tuples: "
                    f"a patch named like a literal key is rejected as duplicate and looking up that key returns the placeholder instead of raising",
                    expected=f"{table} = {{}}", found=A.short(v, 80), node=ini,
                )
            else:
                ctx.holds(r1, f"{PS}::PatchSet.__init__: {A.short(ini, 60)}", "no constant keys")
        elif isinstance(v, ast.Call) and A.call_name(v) == "dict" and not v.args and not v.keywords:
            ctx.holds(r1, f"{PS}::PatchSet.__init__: {A.short(ini, 60)}", "empty dict")
        else:
            ctx.unrecognised(r1, init, ini, "lookup table initialised by something other than a dict literal")
    for s in stores:
        if A.is_const(s.targets[0].slice) and dyn:
            ctx.violated(r1, init, s, f"constant key stored into the name/values lookup table `{table}`", node=s)

    # -- R2: guards dominate registrations
    g = CFG.build(init.node.body)
    dom = g.dominators()
    pm = A.parent_map(init.node)
    guards = []  # (kind, If node)
    for n in ast.walk(init.node):
        if isinstance(n, ast.If):
            raises = [r for r in n.body if isinstance(r, ast.Raise)]
            if not raises:
                continue
            exc = _raised_name(raises[0])
            t = n.test
            kind = None
            if isinstance(t, ast.Compare) and len(t.ops) == 1 and isinstance(t.ops[0], ast.In) and A.dotted(t.comparators[0]) == table:
                kind = ("in", A.short(t.left, 40))
            elif isinstance(t, ast.Compare) and any(isinstance(c, ast.Call) and A.call_name(c) == "len" for c in [t.left] + t.comparators) and "labels" in A.unparse(t):
                kind = ("len", "values vs labels")
            if kind:
                guards.append((kind, n, exc))
    keys_registered = []
    for s in dyn:
        key = A.short(s.targets[0].slice, 40)
        keys_registered.append((key, s))
    for key, s in keys_registered:
        matching = [gd for gd in guards if gd[0] == ("in", key)]
        if not matching:
            ctx.violated(r2, init, s, f"registration under key `{key}` is not preceded by a duplicate test `{key} in {table}` that raises", expected=f"if {key} in {table}: raise InvalidPatchSet", node=s)
            continue
        for kind, ifn, exc in matching:
            if not g.dominates(ifn, s, dom):
                ctx.violated(r2, init, s, f"duplicate test for `{key}` does not dominate the registration", node=s)
            elif exc != "InvalidPatchSet":
                ctx.violated(r2, init, ifn, f"duplicate `{key}` raises {exc}, not pyhf.exceptions.InvalidPatchSet", node=ifn)
            else:
                ctx.holds(r2, f"{PS}::PatchSet.__init__: {A.short(s, 60)}", f"guarded by `{key} in {table}` -> InvalidPatchSet")
    lens = [gd for gd in guards if gd[0][0] == "len"]
    if not lens:
        ctx.violated(r2, init, "len(patch.values) != len(self.labels)", "no check that a patch has one value per label before it is registered", node=init.node)
    for kind, ifn, exc in lens:
        if all(g.dominates(ifn, s, dom) for _, s in keys_registered) and exc == "InvalidPatchSet":
            ctx.holds(r2, f"{PS}::PatchSet.__init__: {A.short(ifn.test, 60)}", "value-count check dominates registration")
        else:
            ctx.violated(r2, init, ifn, "value-count check does not dominate the registrations or raises a foreign exception", node=ifn)
    # both keys registered for the same object, and the list of patches gets the same object
    vals = {A.short(s.value, 30) for _, s in keys_registered}
    if len(keys_registered) >= 2 and len(vals) == 1:
        ctx.holds(r2, f"{PS}::PatchSet.__init__", f"name and values keys both map to `{vals.pop()}`")
    else:
        ctx.violated(r2, init, "registrations", f"expected name and values registered for the same patch, found keys {[k for k, _ in keys_registered]} -> {sorted(vals)}", node=init.node)

    # -- R3
    conv = False
    for n in ast.walk(getitem.node):
        if isinstance(n, ast.If) and isinstance(n.test, ast.Call) and A.call_name(n.test) == "isinstance" and "list" in A.unparse(n.test):
            for st in n.body:
                if isinstance(st, ast.Assign) and isinstance(st.value, ast.Call) and A.call_name(st.value) == "tuple":
                    conv = True
                    lk = A.stmt_of(lookups[0], A.parent_map(getitem.node))
                    gg = CFG.build(getitem.node.body)
                    if st.lineno < lookups[0].lineno:
                        ctx.holds(r3, f"{PS}::PatchSet.__getitem__: {A.short(st, 40)}", "list -> tuple before lookup")
                    else:
                        ctx.violated(r3, getitem, st, "list->tuple conversion happens after the lookup", node=st)
    if not conv:
        ctx.violated(r3, getitem, "isinstance(key, list)", "list keys are not converted to tuples before the lookup (lists are unhashable: TypeError instead of the patch)", node=getitem.node)
    trys = [n for n in ast.walk(getitem.node) if isinstance(n, ast.Try)]
    mapped = False
    for t in trys:
        if any(l in [x for x in ast.walk(t)] for l in lookups):
            for h in t.handlers:
                hn = A.dotted(h.type) if h.type is not None else None
                if hn and hn.split(".")[-1] == "KeyError":
                    rs = [r for r in ast.walk(h) if isinstance(r, ast.Raise)]
                    if rs and _raised_name(rs[0]) == "InvalidPatchLookup":
                        mapped = True
    if mapped:
        ctx.holds(r3, f"{PS}::PatchSet.__getitem__", "KeyError -> InvalidPatchLookup")
    else:
        ctx.violated(r3, getitem, "except KeyError", "a missing key does not raise pyhf.exceptions.InvalidPatchLookup", node=getitem.node)

    # -- R4 verify
    loops = [n for n in ast.walk(verify.node) if isinstance(n, ast.For)]
    if len(loops) != 1 or "digests" not in A.unparse(loops[0].iter):
        ctx.unrecognised(r4, verify, "verify", "expected exactly one loop over self.digests.items()")
    else:
        lp = loops[0]
        bad_exits = [n for n in ast.walk(lp) if isinstance(n, (ast.Break, ast.Return, ast.Continue))]
        ok = not bad_exits
        cmp_ok = False
        for n in ast.walk(lp):
            if isinstance(n, ast.If):
                rs = [r for r in n.body if isinstance(r, ast.Raise)]
                if rs and _raised_name(rs[0]) == "PatchSetVerificationError":
                    d = Deps(verify.node)
                    tn = A.names_loaded(n.test)
                    tgt = {x for x in A.assigned_names(lp.target)}
                    # compares a computed digest (depends on utils.digest(spec, algorithm=<loop var>)) with the recorded one
                    calls = [c for c in A.calls_in(lp) if A.call_attr(c) == "digest"]
                    if calls and tn & tgt:
                        c0 = calls[0]
                        kws = {k.arg: k.value for k in c0.keywords}
                        alg = kws.get("algorithm") or (c0.args[1] if len(c0.args) > 1 else None)
                        if alg is not None and A.names_loaded(alg) & tgt and c0.args and "spec" in A.names_loaded(c0.args[0]) and _is_neq(n.test):
                            cmp_ok = True
        returns_early = [n for n in ast.walk(verify.node) if isinstance(n, ast.Return) and n.value is not None]
        gv = CFG.build(verify.node.body)
        through, wit = gv.all_paths_pass(lambda nd: nd.stmt is lp)
        if not through:
            ok = False
            ctx.violated(r4, verify, "early exit", "verify can return without comparing any digest (a path to the normal return bypasses the comparison loop): a workspace is accepted unverified, e.g. because it was verified before it was modified",
                         expected="every normal return passes the loop over self.digests", found=" > ".join(gv.describe(wit)), node=verify.node)
        if ok and cmp_ok and not returns_early:
            ctx.holds(r4, f"{PS}::PatchSet.verify", "every (algorithm, digest) pair compared; exits: raise or exhaustion")
        else:
            ctx.violated(r4, verify, lp, "verify does not compare the workspace digest under every listed algorithm (early exit, or comparison not of digest(spec, algorithm=alg) with the recorded digest)",
                         expected="for alg, d in digests.items(): if digest(spec, algorithm=alg) != d: raise", found=f"early exits={len(bad_exits)}, comparison recognised={cmp_ok}", node=lp)
    # digest
    dumps = [c for c in A.calls_in(digest.node) if A.call_attr(c) == "dumps"]
    if not dumps:
        ctx.unrecognised(r4, digest, "digest", "no json.dumps call")
    for c in dumps:
        kws = {k.arg: k.value for k in c.keywords}
        if A.const_value(kws.get("sort_keys", ast.Constant(False))) is True and c.args and "obj" in A.names_loaded(c.args[0]):
            ctx.holds(r4, f"{UT}::digest: {A.short(c, 60)}", "sort_keys=True over the whole object")
        else:
            ctx.violated(r4, digest, c, "digest serialisation is not key-order insensitive (sort_keys=True missing) or does not cover the whole object", expected="json.dumps(obj, sort_keys=True, ...)", node=c)
    dd = Deps(digest.node)
    rets = [n for n in ast.walk(digest.node) if isinstance(n, ast.Return) and n.value is not None]
    for r in rets:
        if dd.depends_on(r.value, "obj") and dd.depends_on(r.value, "algorithm") and "hexdigest" in A.unparse(r.value):
            ctx.holds(r4, f"{UT}::digest: {A.short(r, 50)}", "hash(algorithm) of the serialisation")
        else:
            ctx.violated(r4, digest, r, "returned digest does not depend on both the object and the requested algorithm", node=r)

    # -- R5 apply
    g2 = CFG.build(apply_.node.body)
    vcalls = [c for c in A.calls_in(apply_.node) if A.call_attr(c) == "verify"]
    acalls = [c for c in A.calls_in(apply_.node) if A.call_attr(c) == "apply"]
    pm2 = A.parent_map(apply_.node)
    if not acalls:
        ctx.unrecognised(r5, apply_, "apply", "no jsonpatch application found")
    for ac in acalls:
        ast_stmt = A.stmt_of(ac, pm2)
        okv = [vc for vc in vcalls if vc.args and "spec" in A.names_loaded(vc.args[0]) and (g2.dominates(A.stmt_of(vc, pm2), ast_stmt) and A.stmt_of(vc, pm2) is not ast_stmt)]
        if okv:
            ctx.holds(r5, f"{PS}::PatchSet.apply", "verify(spec) dominates the application")
        else:
            ctx.violated(r5, apply_, ast_stmt, "the patch is applied without (or before) verifying the workspace digest", expected="self.verify(spec) first", node=ast_stmt)
        kws = {k.arg: k.value for k in ac.keywords}
        ip = kws.get("in_place")
        if ip is not None and A.const_value(ip) is not False:
            ctx.violated(r5, apply_, ac, "jsonpatch applied in place: the caller's background workspace is modified", expected="apply(spec) (copy)", node=ac)
        elif ac.args and "spec" in A.names_loaded(ac.args[0]):
            ctx.holds(r5, f"{PS}::PatchSet.apply: {A.short(ac, 50)}", "not in place, applied to the given workspace")
        else:
            ctx.violated(r5, apply_, ac, "patch not applied to the given workspace", node=ac)
        # the patch comes from the keyed lookup
        recv = ac.func.value if isinstance(ac.func, ast.Attribute) else None
        if not (isinstance(recv, ast.Subscript) and A.dotted(recv.value) == "self" and "key" in A.names_loaded(recv.slice)):
            d5 = Deps(apply_.node)
            if recv is None or not d5.depends_on(recv, "key"):
                ctx.violated(r5, apply_, ac, "applied patch is not the one looked up by `key`", node=ac)
    rets = [n for n in ast.walk(apply_.node) if isinstance(n, ast.Return) and n.value is not None]
    for r in rets:
        if isinstance(r.value, ast.Call) and A.call_attr(r.value) == "Workspace":
            ctx.holds(r5, f"{PS}::PatchSet.apply: {A.short(r, 50)}", "wrapped in validating Workspace constructor")
        else:
            ctx.violated(r5, apply_, r, "apply does not return a Workspace built by the validating constructor", node=r)


def _raised_name(r: ast.Raise):
    e = r.exc
    if isinstance(e, ast.Call):
        e = e.func
    d = A.dotted(e) if e is not None else None
    return d.split(".")[-1] if d else None


def _is_neq(t):
    if isinstance(t, ast.Compare) and len(t.ops) == 1 and isinstance(t.ops[0], ast.NotEq):
        return True
    if isinstance(t, ast.UnaryOp) and isinstance(t.op, ast.Not) and isinstance(t.operand, ast.Compare) and isinstance(t.operand.ops[0], ast.Eq):
        return True
    return False


def _semantic(ctx, rid, repo):
    import copy
    from ..alg import NotHandled, Obj, Poly, PyFunc, RaisedInFragment, Undecided, to_poly
    from ..objmodel import Instance, World
    psc, pc = repo.cls(PS, "PatchSet"), repo.cls(PS, "Patch")
    for m_ in list(psc.methods.values()) + list(pc.methods.values()):
        ctx.touch(m_)

    def canon(obj, sort_keys):
        if isinstance(obj, dict):
            items = list(obj.items())
            if sort_keys:
                items = sorted(items, key=lambda kv: str(kv[0]))
            return "{" + ",".join(f"{k!r}:{canon(v, sort_keys)}" for k, v in items) + "}"
        if isinstance(obj, (list, tuple)):
            return "[" + ",".join(canon(v, sort_keys) for v in obj) + "]"
        if isinstance(obj, (str, bool)) or obj is None:
            return repr(obj)
        return str(to_poly(obj))

    def not_mine():
        raise NotHandled()

    def unserialisable(v):
        if isinstance(v, Obj) and v.name == "ndarray":
            return True
        if isinstance(v, dict):
            return any(unserialisable(x) for x in v.values())
        if isinstance(v, (list, tuple)):
            return any(unserialisable(x) for x in v)
        return False

    def _raise_type_error():
        from ..alg import _PyRaise
        raise _PyRaise("TypeError")  # json.dumps on an object it cannot serialise

    def ctor_copies(kind):
        """does the REAL Workspace constructor deep-copy a specification of this kind (a plain document / a Workspace object)?
        Decided by interpreting Workspace.__init__ (through the mixin into dict) with copy.deepcopy as a recorder."""
        if kind in _copies_memo:
            return _copies_memo[kind]
        from ..objmodel import World as _W, dict_base
        WSR = "src/pyhf/workspace.py"
        wsc_ = repo.cls(WSR, "Workspace")
        seen = []

        def deep(a, k):
            seen.append(a[0])
            return copy.deepcopy(a[0]) if not isinstance(a[0], Instance) else a[0]

        ww = _W({"__strict__": True, "deepcopy": deep, "__isinstance__": lambda v, cl: isinstance(v, Instance) and v.cls.name == getattr(cl, "name", None)},
                module_env={"log": Obj("log"), "schema": Obj("schema"), "exceptions": Obj("exceptions"), "copy": Obj("copy"), "jsonpatch": Obj("jsonpatch")})
        ww.add_foreign_base("dict", dict_base())
        ww.add_class(repo.cls("src/pyhf/mixins.py", "_ChannelSummaryMixin")).add_class(wsc_)
        doc = workspace()
        first = ww.new(wsc_, [doc], {"validate": False})
        if kind == "dict":
            _copies_memo[kind] = any(x is doc for x in seen)
        else:
            del seen[:]
            ww.new(wsc_, [first], {"validate": False})
            _copies_memo[kind] = any(x is first for x in seen)
        return _copies_memo[kind]

    _copies_memo = {}

    class WsDict(dict):
        """pyhf.Workspace: a validated copy of the document it is constructed from -- a DEEP copy exactly when the real
        constructor (interpreted, see ctor_copies) deep-copies a specification of that kind."""

        def __init__(self, spec):
            deep_ = ctor_copies("workspace" if isinstance(spec, WsDict) else "dict")
            super().__init__(copy.deepcopy(dict(spec)) if deep_ else dict(spec))
            self.built_from = canon(spec, True)

    def mk_world():
        made = []
        ext = {
            "__strict__": True,
            "dumps": lambda a, k: canon(a[0], k.get("sort_keys") is True) if not unserialisable(a[0]) else _raise_type_error(),
            ".encode": lambda recv, a, k: recv if isinstance(recv, str) else not_mine(),
            ".hexdigest": lambda recv, a, k: recv.attrs["hex"] if isinstance(recv, Obj) and "hex" in recv.attrs else not_mine(),
            "Workspace": lambda a, k: WsDict(a[0]),
        }

        def hasher(alg):
            return PyFunc(lambda a, k: Obj("hash", {"hex": f"{alg}:{a[0]}"}), alg)

        w = World(ext, module_env={"log": Obj("log"), "schema": Obj("schema"), "exceptions": Obj("exceptions"), "json": Obj("json"), "utils": Obj("utils"), "jsonpatch": Obj("jsonpatch"),
                                   "hashlib": Obj("hashlib", {alg_: hasher(alg_) for alg_ in sorted({"sha256", "md5"} | set(_schema_digest_algorithms(repo)))}, closed=True)})
        w.add_class(psc).add_class(pc)
        for q, f in repo.module(UT).funcs.items():
            if "." not in q:
                w.add_func(f)

        def jp_init(inst, a, k):
            inst.attrs["patch"] = list(a[0])

        def jp_apply(inst, a, k):
            doc = a[0]
            inplace = k.get("in_place", a[1] if len(a) > 1 else False)
            tgt = doc if inplace is True else copy.deepcopy(doc)  # jsonpatch copies the document (keeping its class) ...
            tgt["__patched_by__"] = inst.attrs["_metadata"]["name"]
            for op_ in inst.attrs["patch"]:
                if isinstance(op_, dict) and isinstance(op_.get("value"), (dict, list)):
                    tgt["__added__"] = op_["value"]  # ... and inserts an operation's value BY REFERENCE
            if isinstance(tgt.get("channels"), list) and tgt["channels"] and isinstance(tgt["channels"][0], dict):
                tgt["channels"][0]["__patched__"] = True  # real patches edit NESTED containers: a shallow copy shares them
            return tgt

        w.add_foreign_base("JsonPatch", {"__init__": jp_init, "apply": jp_apply, "__bool__": lambda inst, a, k: bool(inst.attrs["patch"])})
        return w, made

    c = Poly.const

    def pspec(name, vals, ops):
        return {"metadata": {"name": name, "values": [c(v) for v in vals]}, "patch": list(ops)}

    def setspec(patches, digests=None):
        return {"metadata": {"references": {}, "description": "d", "digests": dict(digests or {"sha256": "X"}), "labels": ["x", "y"]}, "patches": patches, "version": "1.0.0"}

    errs = (Undecided, KeyError, TypeError, ValueError, IndexError, AttributeError)
    good = [pspec("p_empty", [1, 2], []), pspec("p1", [3, 4], [{"op": "add", "path": "/channels/0/samples/1", "value": {"name": "added_sample", "data": [Poly.atom("a0")], "modifiers": []}}]), pspec("name", [5, 6], [{"op": "replace"}])]
    # ---- lookup
    try:
        w, _ = mk_world()
        ps = w.new(psc, [setspec(copy.deepcopy(good))], {})
        n_pat = len(w.call_method(ps, "__len__", []) if False else ps.attrs.get("_patches", []))
        probs = []
        for nm, vals in (("p_empty", (1, 2)), ("p1", (3, 4)), ("name", (5, 6))):
            for key, how in ((nm, "name"), (tuple(c(v) for v in vals), "value tuple"), ([c(v) for v in vals], "value list")):
                try:
                    r = w.call_method(ps, "__getitem__", [key])
                    got = r.attrs["_metadata"]["name"] if isinstance(r, Instance) else repr(r)
                    if got != nm:
                        probs.append(f"patch {nm!r} looked up by its {how} gives {got}")
                except RaisedInFragment as e:
                    probs.append(f"patch {nm!r} (registered) looked up by its {how} raises {e.exc_name}" + (" -- its operation list is empty, which the schema allows" if nm == "p_empty" else ""))
        for key in ("nope", (c(9), c(9)), "values", "metadata"):
            try:
                r = w.call_method(ps, "__getitem__", [key])
                probs.append(f"unknown key {key!r} returns {getattr(r, 'name', r)!r} instead of raising")
            except RaisedInFragment as e:
                if e.exc_name.split(".")[-1] != "InvalidPatchLookup":
                    probs.append(f"unknown key {key!r} raises {e.exc_name}, not InvalidPatchLookup")
        if n_pat != 3:
            probs.append(f"{n_pat} patches registered, 3 given")
        if probs:
            ctx.violated(rid, psc.methods["__getitem__"], "lookup by name / values", "a registered patch is not retrievable by exactly its name and by exactly its value tuple, or an unknown key does not raise InvalidPatchLookup: " + probs[0], expected="3 patches x 3 key forms found; 4 unknown keys -> InvalidPatchLookup", found=f"{len(probs)} deviation(s)")
        else:
            ctx.holds(rid, f"{PS}::PatchSet lookup", "3 patches (one empty, one named 'name') x {name, value tuple, value list}; 4 unknown keys raise InvalidPatchLookup")
    except errs as e:
        ctx.unrecognised(rid, psc, "PatchSet lookup", f"not interpretable: {type(e).__name__}: {e}")
    # ---- refusals at construction
    for lab, patches in (("duplicate name", [pspec("a", [1, 2], []), pspec("a", [3, 4], [])]), ("duplicate values", [pspec("a", [1, 2], []), pspec("b", [1, 2], [])]), ("wrong number of values", [pspec("a", [1, 2, 3], [])])):
        try:
            w, _ = mk_world()
            w.new(psc, [setspec(patches)], {})
            ctx.violated(rid, psc.methods["__init__"], f"construction [{lab}]", f"a patch set with a {lab} is accepted", expected="raise InvalidPatchSet", found="accepted")
        except RaisedInFragment as e:
            if e.exc_name.split(".")[-1] == "InvalidPatchSet":
                ctx.holds(rid, f"{PS}::PatchSet.__init__ [{lab}]", "refused with InvalidPatchSet")
            else:
                ctx.violated(rid, psc.methods["__init__"], f"construction [{lab}]", f"{lab} raises {e.exc_name}, not InvalidPatchSet")
        except errs as e:
            ctx.unrecognised(rid, psc, f"construction [{lab}]", f"not interpretable: {type(e).__name__}: {e}")
    # ---- verify / apply
    def workspace(order=0, yield_="n0"):
        s1 = {"name": "s", "data": [Poly.atom(yield_)], "modifiers": [{"name": "mu", "type": "normfactor", "data": None}]}
        ch = {"name": "c", "samples": [s1]}
        if order:
            s1 = dict(reversed(list(s1.items())))
            ch = {"samples": [s1], "name": "c"}
            return {"version": "1.0.0", "observations": [{"data": [Poly.atom("o0")], "name": "c"}], "measurements": [], "channels": [ch]}
        return {"channels": [ch], "measurements": [], "observations": [{"name": "c", "data": [Poly.atom("o0")]}], "version": "1.0.0"}

    try:
        w, made = mk_world()
        dg = {alg: w.call_func(repo.func(UT, "digest"), [workspace()], {"algorithm": alg}) for alg in ("sha256", "md5")}
        ps = w.new(psc, [setspec(copy.deepcopy(good), dg)], {})
        probs = []

        def verdict(ws_):
            try:
                w.call_method(ps, "verify", [ws_])
                return "accepted"
            except RaisedInFragment as e:
                return e.exc_name.split(".")[-1]

        if verdict(workspace()) != "accepted":
            probs.append("the recorded workspace is rejected")
        if verdict(workspace(order=1)) != "accepted":
            probs.append("the recorded workspace with its keys listed in another order (top level and inside lists) is rejected: the digest depends on key order")
        if verdict(workspace(yield_="n_changed")) != "PatchSetVerificationError":
            probs.append(f"a workspace with a changed yield is {verdict(workspace(yield_='n_changed'))}")
        ps2 = w.new(psc, [setspec(copy.deepcopy(good), {"sha256": dg["sha256"], "md5": "md5:something else"})], {})
        try:
            w.call_method(ps2, "verify", [workspace()])
            probs.append("a wrong md5 digest is ignored when the sha256 digest matches")
        except RaisedInFragment:
            pass
        # every algorithm the SHIPPED schema admits in a patch set's `digests` takes part in verification: a set listing it with a
        # digest that does not match is refused, whatever else matches
        for alg_ in sorted(_schema_digest_algorithms(repo)):
            others = {a_: w.call_func(repo.func(UT, "digest"), [workspace()], {"algorithm": a_}) for a_ in _schema_digest_algorithms(repo) if a_ != alg_}
            ps3 = w.new(psc, [setspec(copy.deepcopy(good), {**others, alg_: f"{alg_}:not the digest of this workspace"})], {})
            try:
                w.call_method(ps3, "verify", [workspace()])
                probs.append(f"a patch set whose recorded {alg_} digest does not match verifies all the same (the schema admits `{alg_}`; verification does not look at it)")
            except RaisedInFragment:
                pass
        same = workspace()
        if verdict(same) == "accepted":
            same["channels"][0]["samples"][0]["data"][0] = Poly.atom("n_changed_later")
            if verdict(same) != "PatchSetVerificationError":
                probs.append("a workspace OBJECT that verified once still verifies after its content was changed")
        if probs:
            ctx.violated(rid, psc.methods["verify"], "verification", "verification does not succeed if and only if the workspace's digest (insensitive to key order) equals the recorded one for every listed algorithm: " + probs[0], found=f"{len(probs)} deviation(s)")
        else:
            ctx.holds(rid, f"{PS}::PatchSet.verify", "accepts the recorded workspace and its key-reorderings; rejects a changed one (any algorithm, also after an earlier successful verification of the same object)")
        # apply
        src = workspace()
        before = canon(src, True)
        res = w.call_method(ps, "apply", [src, "p1"])
        if not (isinstance(res, WsDict) and res.get("__patched_by__") == "p1"):
            ctx.violated(rid, psc.methods["apply"], "apply result", "apply does not return a Workspace holding the document patched with the requested patch", found=f"{type(res).__name__} patched_by={res.get('__patched_by__') if isinstance(res, dict) else None}")
        elif res.built_from != canon(res, True):
            ctx.violated(rid, psc.methods["apply"], "apply result", "the Workspace returned was constructed (validated, summarised) from the UNPATCHED document and patched afterwards: its derived state describes the background, not the result")
        elif canon(src, True) != before:
            ctx.violated(rid, psc.methods["apply"], "apply input", "apply modifies the caller's background workspace")
        else:
            ctx.holds(rid, f"{PS}::PatchSet.apply", "Workspace constructed from the patched copy; input untouched")
        try:
            w.call_method(ps, "apply", [workspace(yield_="n_changed"), "p1"])
            ctx.violated(rid, psc.methods["apply"], "apply without verification", "a patch is applied to a workspace that does not verify")
        except RaisedInFragment as e:
            if e.exc_name.split(".")[-1] == "PatchSetVerificationError":
                ctx.holds(rid, f"{PS}::PatchSet.apply [foreign workspace]", "refused with PatchSetVerificationError")
            else:
                ctx.violated(rid, psc.methods["apply"], "apply on a foreign workspace", f"raises {e.exc_name}")
        # HISTORY: the background is a Workspace OBJECT; the result of a first apply is edited in place; the patch set is used again
        try:
            bg = WsDict(workspace())
            first_res = w.call_method(ps, "apply", [bg, "p1"])
            stored_before = canon(ps.attrs["_patches"][1].attrs["patch"] if isinstance(ps.attrs.get("_patches"), list) else None, True) if isinstance(ps.attrs.get("_patches"), list) else None
            if isinstance(first_res, dict) and isinstance(first_res.get("__added__"), dict):
                first_res["__added__"]["data"].append(Poly.atom("edited_by_the_caller"))
                first_res["__added__"]["name"] = "renamed_by_the_caller"
            second_res = w.call_method(ps, "apply", [WsDict(workspace()), "p1"])
            added2 = second_res.get("__added__") if isinstance(second_res, dict) else None
            if not (isinstance(added2, dict) and added2.get("name") == "added_sample" and [str(x) for x in added2.get("data", [])] == ["a0"]):
                ctx.violated(rid, psc.methods["apply"], "apply after the caller edited an earlier result in place", "the workspace returned by apply() shares containers with the patch stored in the patch set (the background was a Workspace object, which the constructor does not copy again): editing the result rewrites the patch, and every later apply() of it returns the edited content", expected="the background plus the JSON patch as recorded", found=str(canon(added2, True))[:160])
            else:
                ctx.holds(rid, f"{PS}::PatchSet.apply [background a Workspace object; first result edited in place; applied again]", "the second result carries the patch as recorded")
        except RaisedInFragment as e:
            ctx.violated(rid, psc.methods["apply"], "apply on a Workspace object", f"raises {e.exc_name}")
        # HISTORY: the object that was applied successfully is edited in place and applied again
        try:
            src["channels"][0]["samples"][0]["data"][0] = Poly.atom("n_edited_after_apply")
            w.call_method(ps, "apply", [src, "p1"])
            ctx.violated(rid, psc.methods["apply"], "apply after an in-place edit of a workspace applied before", "a workspace OBJECT that was verified by an earlier apply() is patched again without verification after its content changed: the patch lands on a background whose digest is not the recorded one")
        except RaisedInFragment as e:
            if e.exc_name.split(".")[-1] == "PatchSetVerificationError":
                ctx.holds(rid, f"{PS}::PatchSet.apply [same object, edited in place]", "refused with PatchSetVerificationError")
            else:
                ctx.violated(rid, psc.methods["apply"], "apply after an in-place edit", f"raises {e.exc_name}")
        # a workspace whose digest cannot be computed (a numpy array as a leaf passes pyhf's schema validation) never verifies
        for what in ("verify", "apply"):
            try:
                odd = workspace()
                odd["channels"][0]["samples"][0]["data"] = Obj("ndarray")
                w.call_method(ps, what, [odd] + (["p1"] if what == "apply" else []))
                ctx.violated(rid, psc.methods[what], f"{what} of a workspace whose digest cannot be computed", f"{what}() succeeds for a workspace that is not JSON-serialisable (an array-valued leaf): no digest was compared, yet verification is reported as passed" + (" and the patch is applied" if what == "apply" else ""), expected="an exception (the digest cannot equal the recorded one)")
            except RaisedInFragment as e:
                ctx.holds(rid, f"{PS}::PatchSet.{what} [digest not computable]", f"refused ({e.exc_name.split('.')[-1]})")
        try:
            w.call_method(ps, "apply", [workspace(), "nope"])
            ctx.violated(rid, psc.methods["apply"], "apply with an unknown key", "no InvalidPatchLookup")
        except RaisedInFragment as e:
            if e.exc_name.split(".")[-1] == "InvalidPatchLookup":
                ctx.holds(rid, f"{PS}::PatchSet.apply [unknown key]", "InvalidPatchLookup")
            else:
                ctx.violated(rid, psc.methods["apply"], "apply with an unknown key", f"raises {e.exc_name}")
    except errs as e:
        ctx.unrecognised(rid, psc, "verify / apply", f"not interpretable: {type(e).__name__}: {e}")


def _schema_values(ctx, rid, repo):
    import json
    ANNOT = {"description", "title", "examples", "$comment", "default", "$id"}
    root = repo.root / "src" / "pyhf" / "schemas"
    files = sorted(root.glob("*/defs.json"))
    if not files:
        ctx.unrecognised(rid, repo.module(PS), "schemas/*/defs.json", "no shipped schema definitions found")
        return
    for fpath in files:
        rel = fpath.relative_to(repo.root).as_posix()
        ctx.files_analysed.add(rel) if hasattr(ctx, "files_analysed") and isinstance(ctx.files_analysed, set) else None
        site = f"{rel}::definitions.patchset.patch.metadata.values"
        try:
            doc = json.loads(fpath.read_text(encoding="utf-8"))
            meta = doc["definitions"]["patchset"]["patch"]["properties"]["metadata"]
            values = meta["properties"]["values"]
        except (KeyError, TypeError, ValueError) as e:
            ctx.unrecognised(rid, repo.module(PS), site, f"the patch metadata definition is not where this rule looks for it: {type(e).__name__}: {e}")
            continue
        if "$ref" in values:
            ctx.unrecognised(rid, repo.module(PS), site, "`values` is defined by reference; this rule reads inline definitions only")
            continue
        problems = []
        if values.get("type") != "array":
            problems.append(f"type is {values.get('type')!r}, not 'array'")
        extra = sorted(set(values) - {"type", "items"} - ANNOT)
        if extra:
            problems.append(f"restricting keyword(s) {extra} on the tuple")
        items = values.get("items", {})
        alts = items.get("anyOf") or items.get("oneOf") or [items]
        numeric = [a for a in alts if isinstance(a, dict) and a.get("type") in ("number", ["number"]) ] if isinstance(alts, list) else []
        if isinstance(items, dict) and items and not numeric and items != {}:
            problems.append("no alternative of `items` admits a plain number")
        for a in numeric:
            ex = sorted(set(a) - {"type"} - ANNOT)
            if ex:
                problems.append(f"restricting keyword(s) {ex} on the numbers")
        if isinstance(items, dict):
            ex = sorted(set(items) - {"anyOf", "oneOf", "type"} - ANNOT)
            if ex:
                problems.append(f"restricting keyword(s) {ex} on the items")
        if "values" not in meta.get("required", []):
            pass  # optional or required: not this rule's business
        if problems:
            ctx.violated(rid, repo.module(PS), site, "the shipped schema no longer admits arbitrary numeric value tuples for a patch: " + "; ".join(problems) + " -- a patch set whose names and value tuples are pairwise distinct is refused (e.g. a grid point with two equal coordinates)", expected='{"type": "array", "items": {"anyOf": [{"type": "number"}, ...]}} and annotations only', found=json.dumps(values)[:200])
        else:
            ctx.holds(rid, site, f"array of {json.dumps(items)[:80]}; no restricting keyword")


def _schema_digest_algorithms(repo):
    """algorithm names the shipped patch-set schema(s) admit under metadata.digests"""
    import json
    out = set()
    for fpath in sorted((repo.root / "src" / "pyhf" / "schemas").glob("*/defs.json")):
        try:
            out |= set(json.loads(fpath.read_text(encoding="utf-8"))["definitions"]["patchset"]["digests"].get("properties", {}))
        except (KeyError, TypeError, ValueError):
            pass
    return sorted(out) or ["md5", "sha256"]
