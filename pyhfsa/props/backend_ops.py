"""The array operations of the four tensor backends, decided as ROLE WRAPPERS.

Every model evaluation (rates, constraint terms, batching) is written against `tensorlib.<op>(...)`.  Each backend method is
interpreted with the array library replaced by *role recorders*: a library function bound with the library's own
signature (table below: positional order and keyword names of numpy / jax.numpy / torch / tensorflow functions) yields
the canonical term OP<op>(role=value, ...).  The method's result must be the canonical term of the operation the method
is named after, with the method's own arguments in their roles -- for the scalar and the axis-given situations, for both
clip bounds absent/present.  So `torch.where(mask, b, a)`, a `dim` that is not the caller's axis, `cat` along a constant
axis, a `clamp` with min and max exchanged, a `tile` with the operand order of `repeat` ... are reported with the
method and the role that is wrong.  Nothing is executed; the library signatures are the assumption of the rule."""

from __future__ import annotations

import ast

from .. import astutil as A
from ..alg import Interp, NotHandled, Obj, Poly, PyFunc, RaisedInFragment, Undecided, to_poly

FLATTEN = (Poly.const(-1),)  # the shape every batched arm flattens its parameter rows with

T = "src/pyhf/tensor/"
BACKENDS = {"numpy": (T + "numpy_backend.py", "numpy_backend", ("np", "numpy")), "jax": (T + "jax_backend.py", "jax_backend", ("jnp",)),
            "pytorch": (T + "pytorch_backend.py", "pytorch_backend", ("torch",)), "tensorflow": (T + "tensorflow_backend.py", "tensorflow_backend", ("tf",))}

# library function (last dotted component) -> (canonical operation, [(library parameter name, canonical role), ...] in positional order)
_NP = {
    "clip": ("clip", [("a", "x"), ("a_min", "lo"), ("a_max", "hi")]), "tile": ("tile", [("A", "x"), ("reps", "repeats")]), "outer": ("outer", [("a", "x"), ("b", "y")]),
    "isfinite": ("isfinite", [("x", "x")]), "sum": ("sum", [("a", "x"), ("axis", "axis")]), "prod": ("product", [("a", "x"), ("axis", "axis")]), "abs": ("abs", [("x", "x")]),
    "power": ("power", [("x1", "x"), ("x2", "y")]), "sqrt": ("sqrt", [("x", "x")]), "divide": ("divide", [("x1", "x"), ("x2", "y")]), "log": ("log", [("x", "x")]), "exp": ("exp", [("x", "x")]),
    "stack": ("stack", [("arrays", "seq"), ("axis", "axis")]), "where": ("where", [("condition", "mask"), ("x", "x"), ("y", "y")]), "concatenate": ("concatenate", [("arrays", "seq"), ("axis", "axis")]),
    "reshape": ("reshape", [("a", "x"), ("newshape", "shape"), ("order", "order")]), "ravel": ("ravel", [("a", "x"), ("order", "order")]), "ones": ("ones", [("shape", "shape"), ("dtype", "dtype")]), "zeros": ("zeros", [("shape", "shape"), ("dtype", "dtype")]),
    "asarray": ("astensor", [("a", "x"), ("dtype", "dtype")]), "array": ("astensor", [("object", "x"), ("dtype", "dtype")]),
    "minimum": ("minimum", [("x1", "x"), ("x2", "y")]), "maximum": ("maximum", [("x1", "x"), ("x2", "y")]),
    "min": ("min_of", [("a", "x")]), "max": ("max_of", [("a", "x")]), "amin": ("min_of", [("a", "x")]), "amax": ("max_of", [("a", "x")]),
}
_TORCH = {
    "clamp": ("clip", [("input", "x"), ("min", "lo"), ("max", "hi")]), "clip": ("clip", [("input", "x"), ("min", "lo"), ("max", "hi")]), "outer": ("outer", [("input", "x"), ("vec2", "y")]),
    "masked_select": ("boolean_mask", [("input", "x"), ("mask", "mask")]), "reshape": ("reshape", [("input", "x"), ("shape", "shape")]), "ravel": ("ravel", [("input", "x")]),
    "sum": ("sum", [("input", "x"), ("dim", "axis")]), "prod": ("product", [("input", "x"), ("dim", "axis")]), "abs": ("abs", [("input", "x")]), "pow": ("power", [("input", "x"), ("exponent", "y")]),
    "sqrt": ("sqrt", [("input", "x")]), "div": ("divide", [("input", "x"), ("other", "y")]), "divide": ("divide", [("input", "x"), ("other", "y")]), "log": ("log", [("input", "x")]), "exp": ("exp", [("input", "x")]),
    "stack": ("stack", [("tensors", "seq"), ("dim", "axis")]), "where": ("where", [("condition", "mask"), ("input", "x"), ("other", "y")]), "cat": ("concatenate", [("tensors", "seq"), ("dim", "axis")]),
    "concatenate": ("concatenate", [("tensors", "seq"), ("dim", "axis")]), "isfinite": ("isfinite", [("input", "x")]), "ones": ("ones", [("size", "shape"), ("dtype", "dtype")]), "zeros": ("zeros", [("size", "shape"), ("dtype", "dtype")]),
    "tile": ("tile", [("input", "x"), ("dims", "repeats")]), "min": ("min_of", [("input", "x")]), "max": ("max_of", [("input", "x")]),
}
_TF = {
    "clip_by_value": ("clip", [("t", "x"), ("clip_value_min", "lo"), ("clip_value_max", "hi")]), "tile": ("tile", [("input", "x"), ("multiples", "repeats")]),
    "boolean_mask": ("boolean_mask", [("tensor", "x"), ("mask", "mask")]), "is_finite": ("isfinite", [("x", "x")]), "reduce_sum": ("sum", [("input_tensor", "x"), ("axis", "axis")]),
    "reduce_prod": ("product", [("input_tensor", "x"), ("axis", "axis")]), "abs": ("abs", [("x", "x")]), "pow": ("power", [("x", "x"), ("y", "y")]), "sqrt": ("sqrt", [("x", "x")]),
    "reshape": ("reshape", [("tensor", "x"), ("shape", "shape")]), "divide": ("divide", [("x", "x"), ("y", "y")]), "log": ("log", [("x", "x")]), "exp": ("exp", [("x", "x")]),
    "stack": ("stack", [("values", "seq"), ("axis", "axis")]), "where": ("where", [("condition", "mask"), ("x", "x"), ("y", "y")]), "concat": ("concatenate", [("values", "seq"), ("axis", "axis")]),
    "gather": ("gather", [("params", "x"), ("indices", "indices")]), "ones": ("ones", [("shape", "shape"), ("dtype", "dtype")]), "zeros": ("zeros", [("shape", "shape"), ("dtype", "dtype")]),
    "reduce_min": ("min_of", [("input_tensor", "x")]), "reduce_max": ("max_of", [("input_tensor", "x")]),
    "minimum": ("minimum", [("x", "x"), ("y", "y")]), "maximum": ("maximum", [("x", "x"), ("y", "y")]),
}
LIB_TABLES = {"numpy": _NP, "jax": _NP, "pytorch": _TORCH, "tensorflow": _TF}
# tensor METHOD forms used by the backends: x.tile(reps) (torch), x.transpose()
_METHODS = {"tile": ("tile", ["repeats"])}

# backend method -> (canonical operation, {method parameter: role}, situations: list of {parameter: value-kind})
OPS = {
    # clipping from below only is what the evaluation uses (test statistics at 0, clip_sample_data / clip_bin_data); an
    # absent LOWER bound is not used anywhere in pyhf and not part of this rule
    "clip": ("clip", {"tensor_in": "x", "min_value": "lo", "max_value": "hi"}, [{}, {"max_value": None}]),
    "tile": ("tile", {"tensor_in": "x", "repeats": "repeats"}, [{}]),
    "outer": ("outer", {"tensor_in_1": "x", "tensor_in_2": "y"}, [{}]),
    "isfinite": ("isfinite", {"tensor": "x"}, [{}]),
    "sum": ("sum", {"tensor_in": "x", "axis": "axis"}, [{}, {"axis": None}]),
    "product": ("product", {"tensor_in": "x", "axis": "axis"}, [{}, {"axis": None}]),
    "abs": ("abs", {"tensor": "x"}, [{}]),
    "power": ("power", {"tensor_in_1": "x", "tensor_in_2": "y"}, [{}]),
    "sqrt": ("sqrt", {"tensor_in": "x"}, [{}]),
    "divide": ("divide", {"tensor_in_1": "x", "tensor_in_2": "y"}, [{}]),
    "log": ("log", {"tensor_in": "x"}, [{}]),
    "exp": ("exp", {"tensor_in": "x"}, [{}]),
    "stack": ("stack", {"sequence": "seq", "axis": "axis"}, [{}]),
    "where": ("where", {"mask": "mask", "tensor_in_1": "x", "tensor_in_2": "y"}, [{}]),
    "concatenate": ("concatenate", {"sequence": "seq", "axis": "axis"}, [{}]),
    "reshape": ("reshape", {"tensor": "x", "newshape": "shape"}, [{}, {"newshape": FLATTEN}]),  # FLATTEN: the (-1,) every batched arm flattens its parameter rows with
    "boolean_mask": ("boolean_mask", {"tensor": "x", "mask": "mask"}, [{}]),
    "gather": ("gather", {"tensor": "x", "indices": "indices"}, [{}]),
    "einsum": ("einsum", {"subscripts": "spec", "operands": "operands"}, [{}]),
}
FLOOR = 60


class _Canon:
    """OP<op>(role=value...) as a comparable value."""

    def __init__(self, op, roles):
        self.op, self.roles = op, dict(roles)

    def key(self):
        return (self.op, tuple(sorted((k, _show(v)) for k, v in self.roles.items())))

    def __repr__(self):
        return f"{self.op}(" + ", ".join(f"{k}={_show(v)}" for k, v in sorted(self.roles.items())) + ")"


def _show(v):
    if isinstance(v, _Canon):
        return repr(v)
    if isinstance(v, Obj):
        return v.name
    if v is None or isinstance(v, (str, bool)):
        return repr(v)
    if isinstance(v, (list, tuple)):
        return "[" + ", ".join(_show(x) for x in v) + "]"
    try:
        return str(to_poly(v))
    except Undecided:
        return repr(v)


_REQUIRED = {"tile": 2, "where": 3, "outer": 2, "power": 2, "divide": 2, "reshape": 2, "boolean_mask": 2, "gather": 2}


def _recorder(table, fname):
    op, sig = table[fname]

    def f(a, k):
        roles = {}
        if len(a) + sum(1 for pname, _ in sig if pname in k) < _REQUIRED.get(op, 1):
            raise NotHandled()  # too few arguments for the function form: this is the METHOD form x.<name>(...)
        if len(a) > len(sig):
            raise Undecided(f"{fname}() called with {len(a)} positional arguments, the library takes {len(sig)}")
        for (pname, role), v in zip(sig, a):
            roles[role] = v
        for kw, v in k.items():
            hit = next((role for pname, role in sig if pname == kw), None)
            if hit is None:
                if kw in ("out", "keepdims", "name", "validate_args"):
                    continue
                raise Undecided(f"{fname}() has no parameter `{kw}` in the library signature table")
            roles[hit] = v
        for pname, role in sig:
            roles.setdefault(role, None)
        return _Wrap(_Canon(op, roles))
    return f


class _Wrap(Obj):
    """an Obj carrying a canonical term (so that it can flow through the interpreter as an opaque value)"""

    def __init__(self, canon):
        super().__init__(repr(canon), {}, closed=True)
        self.canon = canon


def _externals(backend):
    table = LIB_TABLES[backend]
    ext = {"__strict__": True}
    for fname in table:
        ext[fname] = _recorder(table, fname)

    def tile_method(recv, a, k):
        if isinstance(recv, Obj) and recv.name == "TENSOR:x":
            return _Wrap(_Canon("tile", {"x": recv, "repeats": a[0] if a else k.get("dims")}))
        raise NotHandled()

    def type_method(recv, a, k):  # tensor.type(torch.LongTensor): an index cast, the indices stay the indices
        if isinstance(recv, Obj) and recv.name.startswith("TENSOR:"):
            return recv
        raise NotHandled()

    def getitem(base, idx):
        if isinstance(base, Obj) and base.name.startswith("TENSOR:") and isinstance(idx, Obj) and idx.name.startswith("TENSOR:"):
            role = "mask" if idx.name == "TENSOR:mask" else "indices"
            return _Wrap(_Canon("boolean_mask" if role == "mask" else "gather", {"x": base, role: idx}))
        raise NotHandled()

    def einsum(a, k):
        spec, ops = a[0], list(a[1:])
        if len(ops) == 1 and isinstance(ops[0], (list, tuple)):
            ops = list(ops[0])  # torch accepts the operands as one sequence
        return _Wrap(_Canon("einsum", {"spec": spec, "operands": ops}))

    ext.update({".tile": tile_method, ".type": type_method, "__getitem__": getitem, "einsum": einsum,
                "cast": lambda a, k: a[0], "Size": lambda a, k: Obj("EMPTY_SHAPE"), "TensorShape": lambda a, k: Obj("EMPTY_SHAPE")})
    return ext


def check(ctx, rid):
    repo = ctx.repo
    n_ok = 0
    for backend, (rel, cname, roots) in BACKENDS.items():
        cls = repo.cls(rel, cname)
        for mname, (op, roles, situations) in OPS.items():
            m = cls.methods.get(mname)
            if m is None:
                ctx.violated(rid, cls, mname, f"the {backend} backend has no `{mname}`")
                continue
            ctx.touch(m)
            params = [p.lstrip("*") for p in A.params_of(m.node) if p != "self"]
            if set(roles) - set(params):
                ctx.unrecognised(rid, m, mname, f"parameters {sorted(set(roles) - set(params))} not in the signature {params}")
                continue
            for sit in situations:
                env = {}
                want_roles = {}
                for p in params:
                    role = roles.get(p)
                    if role is None:
                        continue
                    if p in sit:
                        env[p] = sit[p]
                    elif role in ("axis",):
                        env[p] = Poly.atom("AXIS")
                    elif role in ("lo", "hi"):
                        env[p] = Poly.atom(role.upper())
                    elif role in ("repeats", "shape"):
                        env[p] = Obj(f"VALUE:{role}", closed=True)
                    elif role == "seq":
                        env[p] = Obj("SEQUENCE", closed=True)
                    elif role == "spec":
                        env[p] = "ab,bc->ac"
                    elif role == "operands":
                        env[p] = [Obj("TENSOR:a", {}), Obj("TENSOR:b", {})]
                    else:
                        env[p] = Obj(f"TENSOR:{role}", {"shape": Obj("SHAPE_OF_" + role), "dtype": Obj("DTYPE_OF_" + role)})
                    want_roles[role] = env[p]
                for p in params:
                    if p not in env:
                        d = A.param_defaults(m.node).get(p)
                        env[p] = A.const_value(d) if d is not None else None
                for r_ in roots:
                    env[r_] = Obj(r_)
                env.update({"tf": Obj("tf"), "torch": Obj("torch"), "np": Obj("np"), "jnp": Obj("jnp"), "log": Obj("log")})
                label = f"{mname}({', '.join(f'{p}=None' if v is None else f'{p}={_show(v)[:24]}' for p, v in sit.items())})" if sit else mname
                site = f"{rel}::{cname}.{label}"
                try:
                    selfattrs = {"precision": "64b", "name": backend, "dtypemap": {"float": Obj("FLOAT"), "int": Obj("INT"), "bool": Obj("BOOL")}}
                    it = Interp(env, selfattrs, {}, methods={k_: v_.node for k_, v_ in cls.methods.items()}, cls_name=cname, externals=_externals(backend))
                    out = it.run(A.strip_docstring(m.node.body))
                except RaisedInFragment as e:
                    ctx.violated(rid, m, label, f"raises {e.exc_name} on ordinary arguments")
                    continue
                except (Undecided, KeyError, TypeError, ValueError, IndexError, AttributeError) as e:
                    ctx.unrecognised(rid, m, label, f"not interpretable: {type(e).__name__}: {e}")
                    continue
                got = out.canon if isinstance(out, _Wrap) else None
                if got is None:
                    ctx.unrecognised(rid, m, label, f"the result is not a single library call ({_show(out)[:80]})")
                    continue
                got = _normalise(got, backend)
                want = _Canon(op, {r_: want_roles.get(r_) for r_ in roles.values()})
                if got.key() == want.key():
                    n_ok += 1
                    ctx.holds(rid, site, repr(want))
                else:
                    wrong = [r_ for r_ in want.roles if _show(got.roles.get(r_)) != _show(want.roles.get(r_))] + [r_ for r_ in got.roles if r_ not in want.roles]
                    what = f"computes {got.op} where the interface says {want.op}" if got.op != want.op else f"passes {', '.join(f'{r_}={_show(got.roles.get(r_))}' for r_ in wrong)} to the library where the caller's {', '.join(f'{r_}={_show(want.roles.get(r_))}' for r_ in wrong)} belong"
                    ctx.violated(rid, m, label, f"tensorlib.{mname} of the {backend} backend {what}: every rate, constraint term and batched evaluation computed on this backend through `{mname}` is wrong while the other backends are right", expected=repr(want), found=repr(got))
        # ---- conditional(predicate, true_callable, false_callable): the branch taken is the predicate's
        m = cls.methods.get("conditional")
        if m is not None:
            ctx.touch(m)
            params = [p for p in A.params_of(m.node) if p != "self"]
            site = f"{rel}::{cname}.conditional"
            try:
                outs = []
                for pred in (True, False):
                    tf_, ff_ = PyFunc(lambda a, k: Obj("RESULT_OF_TRUE_BRANCH"), "true_callable"), PyFunc(lambda a, k: Obj("RESULT_OF_FALSE_BRANCH"), "false_callable")

                    def cond(a, k, pred=pred):
                        p_ = a[0] if a else k.get("pred")
                        t_ = a[1] if len(a) > 1 else k.get("true_fn")
                        f_ = a[2] if len(a) > 2 else k.get("false_fn")
                        chosen = t_ if p_ is True else (f_ if p_ is False else None)
                        if not isinstance(chosen, PyFunc):
                            raise Undecided("tf.cond with an unmodelled branch")
                        return chosen.f([], {})

                    env = dict(zip(params, [pred, tf_, ff_]))
                    env.update({"tf": Obj("tf")})
                    outs.append(Interp(env, {}, {}, cls_name=cname, externals={"__strict__": True, "cond": cond}).run(A.strip_docstring(m.node.body)))
                names = [getattr(o, "name", str(o)) for o in outs]
                if names == ["RESULT_OF_TRUE_BRANCH", "RESULT_OF_FALSE_BRANCH"]:
                    n_ok += 1
                    ctx.holds(rid, site, "true predicate -> true_callable(), false predicate -> false_callable()")
                else:
                    ctx.violated(rid, m, "conditional", f"tensorlib.conditional of the {backend} backend does not evaluate the branch the predicate selects (true -> {names[0]}, false -> {names[1]}): the asymptotic qtilde transform takes the wrong formula on this backend", expected="true_callable() / false_callable()", found=str(names))
            except (Undecided, KeyError, TypeError, ValueError, IndexError, AttributeError) as e:
                ctx.unrecognised(rid, m, "conditional", f"not interpretable: {type(e).__name__}: {e}")
    return n_ok


def _normalise(c, backend=None):
    """tensorflow's clip replaces an absent upper bound by the tensor's own maximum.  tf.clip_by_value lets the LOWER bound
    win when the bounds cross (max(min(t, hi), lo)), so clip_by_value(t, lo, max(t)) == max(t, lo): no upper clipping.
    numpy / jax / torch let the UPPER bound win (min(max(t, lo), hi)): there the same substitution returns max(t) when every
    entry is below lo -- a negative test statistic survives the clip at zero -- and is NOT accepted."""
    if c.op == "clip" and backend == "tensorflow":
        roles = dict(c.roles)
        v = roles.get("hi")
        if isinstance(v, _Wrap) and v.canon.op == "max_of" and _show(v.canon.roles.get("x")) == _show(roles.get("x")):
            roles["hi"] = None
        return _Canon("clip", roles)
    if c.op == "minimum" and isinstance(c.roles.get("x"), _Wrap) and c.roles["x"].canon.op == "maximum":
        # min(max(t, lo), hi): a clip in which the UPPER bound wins when the bounds cross (numpy's order).  With the upper bound
        # substituted by the tensor's own maximum (tensorflow backend, max_value=None) that is NOT "no upper clipping": when every
        # entry is below lo the result is max(t) < lo
        inner = c.roles["x"].canon
        hi = c.roles.get("y")
        roles = {"x": inner.roles.get("x"), "lo": inner.roles.get("y"), "hi": hi}
        if isinstance(hi, _Wrap) and hi.canon.op == "max_of":
            roles["order"] = "upper bound wins, upper bound = max(tensor)"
        return _normalise(_Canon("clip", roles), None)
    if c.op == "ravel" and c.roles.get("order") in (None, "C"):
        # ravel(x) in row-major order IS reshape(x, (-1,))
        return _Canon("reshape", {"x": c.roles.get("x"), "shape": FLATTEN})
    if c.op in ("reshape", "ravel") and "order" in c.roles:
        # numpy / jax reshape(a, shape, order) and ravel(a, order): 'C' (row-major, the last axis fastest) is the default and what every
        # caller's flat indices assume; 'F' reads column-major and 'A' / 'K' do so for column-major (e.g. transposed) inputs
        roles = dict(c.roles)
        if roles["order"] in (None, "C"):
            del roles["order"]
        return _Canon(c.op, roles)
    if c.op == "einsum" and c.roles.get("spec") == "i,j->ij" and isinstance(c.roles.get("operands"), list) and len(c.roles["operands"]) == 2:
        return _Canon("outer", {"x": c.roles["operands"][0], "y": c.roles["operands"][1]})
    return c
