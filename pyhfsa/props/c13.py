"""C13 -- gradients handed to optimisers are the gradient of the objective returned.

  R1 ROLE/SIB  torch: autograd.grad(v, pars) with v the returned objective and pars the tensor made
               requires_grad BEFORE stitching; tf: tape.watch(pars) before stitching, objective
               evaluated inside the tape, tape.gradient(v, pars); jax: value_and_grad(_final_objective,
               argnums=0) with static_argnums excluding the traced arguments 0..2; in both arms the
               value returned is objective(stitch(pars), data, pdf)
  R2 TAINT     on the evaluation protocol reachable from Model.logpdf no parameter-derived value passes
               through a graph-breaking conversion (tolist, to_numpy, .numpy(), float/int, np.asarray);
               the _slow_ interpolators (which do) are not selectable by the modifiers
"""

from __future__ import annotations

import ast

from .. import astutil as A
from ..alg import Undecided, to_poly
from ..dep import Deps
from ..shims import OPT, run_shim, shim_table

EXPLANATION = (
    "The three automatic-differentiation shims are abstractly interpreted with the objective, the stitcher and the "
    "AD entry points replaced by recorders: the value differentiated must be the value returned, the variable "
    "differentiated against must be the un-stitched free-parameter tensor, and the tracking switch (requires_grad / "
    "tape.watch) must precede the stitch; for jax the value_and_grad/jit wrappers are read structurally (argnums=0, "
    "static_argnums disjoint from the traced arguments, same _final_objective in both arms). A taint rule forbids "
    "graph-breaking conversions of parameter-derived data on the methods of the evaluation protocol (logpdf, make_pdf, "
    "expected_data, modifications, apply, __call__, get, log_prob, split, stitch, ...). NOT decided: correctness of "
    "the AD engines, derivative values at regime boundaries."
)
ASSUMPTIONS = ["torch.autograd.grad(y, x), tf.GradientTape.gradient(y, x), jax.value_and_grad(f, argnums) semantics"]

BREAKERS = {"tolist", "to_numpy", "numpy", "item", "asarray", "float", "int", "array"}
PROTOCOL_METHODS = {
    "logpdf", "pdf", "make_pdf", "expected_data", "expected_actualdata", "expected_auxdata", "modifications", "apply", "__call__", "get",
    "log_prob", "split", "stitch", "_joint_logpdf", "mainlogpdf", "constraint_logpdf", "_precompute_alphasets",
}
PROTOCOL_FILES = [
    "src/pyhf/pdf.py", "src/pyhf/constraints.py", "src/pyhf/probability.py", "src/pyhf/parameters/paramview.py", "src/pyhf/tensor/common.py",
    "src/pyhf/modifiers/histosys.py", "src/pyhf/modifiers/normsys.py", "src/pyhf/modifiers/normfactor.py", "src/pyhf/modifiers/lumi.py",
    "src/pyhf/modifiers/shapesys.py", "src/pyhf/modifiers/staterror.py", "src/pyhf/modifiers/shapefactor.py",
    "src/pyhf/interpolators/code0.py", "src/pyhf/interpolators/code1.py", "src/pyhf/interpolators/code2.py", "src/pyhf/interpolators/code4.py", "src/pyhf/interpolators/code4p.py",
]


def run(ctx):
    repo = ctx.repo
    r1 = ctx.rule("C13.R1", "ROLE/SIB: each AD shim differentiates the objective value it returns with respect to the free-parameter tensor it was given, tracking switched on before the stitch; jax: value_and_grad(_final_objective, argnums=0), static_argnums excludes 0-2, both arms use the same objective function", "ROLE", floor=8)
    r2 = ctx.rule("C13.R2", "TAINT: no graph-breaking conversion (tolist/to_numpy/.numpy()/float/int/np.asarray) of parameter-derived data in the evaluation protocol reachable from Model.logpdf; modifiers cannot select the _slow_ reference interpolators", "TAINT", floor=30)
    r3 = ctx.rule("C13.R3", "BOUNDARY: for every interpolation code, at every breakpoint where the published function is differentiable (left and right pieces have the same first derivative there), the expression the vectorised code SELECTS at the breakpoint itself -- which is what automatic differentiation differentiates -- has that same derivative with respect to alpha (formal differentiation of the interpreted branch; default alpha0)", "BOUNDARY", floor=4)
    _boundary_gradients(ctx, r3, repo)
    table = shim_table(repo)
    r5 = ctx.rule("C13.R5", "POINT-HISTORY: the function each shim returns, called twice with ONE parameter buffer whose content was changed in place in between (astensor / detach / numpy do not copy a buffer of the backend's own dtype): the second call evaluates objective, value and gradient at the NEW content -- nothing remembered from the first call is returned", "HISTORY", floor=6)
    _shim_history(ctx, r5)
    r6 = ctx.rule("C13.R6", "HANDOVER: between the shim and the minimiser nothing alters the (value, gradient) function: OptimizerMixin._internal_minimize, interpreted with recording _get_minimizer / _minimize, hands over the function it was given -- or one that returns exactly that function's value and gradient, at interior points and at points on the bounds with the gradient pointing either way; minuit_optimizer._get_minimizer and scipy_optimizer._minimize, with the library entry points as recorders, give the library that value as cost function and that gradient (Minuit grad= / scipy jac=) and no gradient when gradients are off", "HANDOVER", floor=6)
    _handover(ctx, r6, repo)
    _handover_minimisers(ctx, r6, repo)
    r7 = ctx.rule("C13.R7", "STATIC-IDENTITY: jax.jit selects the traced (value, gradient) function by == / hash of its static arguments, the model among them: the model class keeps identity equality, or -- where it (or a base) defines __eq__ -- two models built from ONE specification object with different interpolation codes or different clipping options (different likelihood functions) do not compare equal (Model.__init__ and __eq__ interpreted over the real configuration and main-model classes)", "STATIC", floor=1)
    _static_identity(ctx, r7, repo)
    r4 = ctx.rule("C13.R4", "POINT: on the jax path the function that is differentiated is evaluated at the vector holding every fixed parameter at its own index with its own value and the free parameters in order in between -- shim and _final_objective composed by interpretation (real _TensorViewer), for fixed parameters listed in ascending and in other orders", "POINT", floor=4)
    from .c05 import jax_objective_point
    jax_objective_point(ctx, r4, repo, table, repo.func(OPT + "common.py", "_make_stitch_pars"), repo.func(OPT + "common.py", "shim"))
    for backend in ("pytorch", "tensorflow"):
        rel = table.get(backend)
        if rel is None:
            ctx.error(f"C13.R1: no shim registered for {backend}")
            continue
        w = repo.func(rel, "wrap_objective")
        ctx.touch(w)
        site = f"{rel}::wrap_objective"
        try:
            g = run_shim(repo, rel, True)
            n = run_shim(repo, rel, False)
        except Undecided as e:
            ctx.unrecognised(r1, w, "wrap_objective", f"not interpretable: {e}")
            continue
        if not isinstance(g.ret, (tuple, list)) or len(g.ret) != 2:
            ctx.violated(r1, w, "gradient arm return", "the gradient arm does not return (value, gradient)", found=str(g.ret))
            continue
        val, grad = to_poly(g.ret[0]), g.ret[1]
        nval = to_poly(n.ret)
        if val == nval and str(val) == "OBJ<STITCH<PARS>;data;pdf>":
            ctx.holds(r1, site, "value of the gradient arm == value of the plain arm == objective(stitch(pars), data, pdf)")
        else:
            ctx.violated(r1, w, "value returned with the gradient", "the value returned next to the gradient is not the objective of the non-differentiating path", expected=str(nval), found=str(val))
        if any(e_[0] == "backward" for e_ in g.events) or "ACCUMULATED_GRAD_ATTRIBUTE" in str(grad):
            ctx.violated(r1, w, "gradient read from tensor.grad", "the gradient is produced by backward() and read from the tensor's .grad attribute, which ACCUMULATES over calls: a second evaluation at the same tensor object returns the sum of the gradients (and the array returned earlier changes in place); the functional form autograd.grad(value, pars) does not", expected="torch.autograd.grad(value, pars)[0]", found=str(grad)[:120])
            continue
        if len(g.grad_calls) != 1:
            ctx.violated(r1, w, "gradient call", f"expected one AD call, found {len(g.grad_calls)}")
            continue
        kind, y, x = g.grad_calls[0]
        if y == val:
            ctx.holds(r1, site, f"differentiates the returned objective ({kind})")
        else:
            ctx.violated(r1, w, "differentiated value", "the gradient is taken of something other than the objective value that is returned", expected=str(val), found=str(y))
        if str(x) == "PARS":
            ctx.holds(r1, site, "with respect to the free parameters (pre-stitch tensor)")
        else:
            ctx.violated(r1, w, "differentiation variable", "the gradient is taken with respect to the stitched vector (wrong length, includes fixed parameters) instead of the free parameters", expected="PARS", found=str(x))
        # tracking precedes stitching
        ev = g.events
        names = [e[0] for e in ev]
        track = "pars.requires_grad" if backend == "pytorch" else "watch"
        if track in names and "stitch" in names and names.index(track) < names.index("stitch"):
            ok_t = True
            if backend == "pytorch":
                ok_t = ev[names.index(track)][1] is True
            if ok_t:
                ctx.holds(r1, site, f"{track} before stitch_pars")
            else:
                ctx.violated(r1, w, track, "gradient tracking is not switched on for the free parameters", found=str(ev[names.index(track)]))
        else:
            ctx.violated(r1, w, track, "gradient tracking of the free parameters is missing or happens after they were stitched into the full vector (the graph would not connect them)", expected=f"{track} ... stitch_pars(pars)", found=str(names))
        if backend == "tensorflow":
            # objective evaluated inside the tape
            clo = g.closure
            withs = [s for s in ast.walk(clo) if isinstance(s, ast.With)]
            inside = any(any(isinstance(c.func, ast.Name) and c.func.id == "objective" for c in A.calls_in(wi)) for wi in withs)
            if inside:
                ctx.holds(r1, site, "objective evaluated inside the GradientTape")
            else:
                ctx.violated(r1, w, "with tf.GradientTape()", "the objective is evaluated outside the gradient tape: tape.gradient returns None", node=clo)
    # ---- jax
    rel = table.get("jax")
    if rel is None:
        ctx.error("C13.R1: no shim registered for jax")
    else:
        m = repo.module(rel)
        fo = repo.func(rel, "_final_objective")
        ctx.touch(fo)
        jg, jn = m.assigns.get("_jitted_objective_and_grad"), m.assigns.get("_jitted_objective")
        if jg is None or jn is None:
            ctx.unrecognised(r1, (rel, "<module>"), "_jitted_objective_and_grad", "module-level jitted functions not found")
        else:
            site = f"{rel}::_jitted_objective_and_grad"
            vg = [c for c in A.calls_in(jg) if A.call_attr(c) == "value_and_grad"]
            if not vg or not (vg[0].args and A.dotted(vg[0].args[0]) == "_final_objective"):
                ctx.violated(r1, (rel, "<module>"), jg, "the gradient arm does not differentiate _final_objective", node=jg)
            else:
                kws = {k.arg: k.value for k in vg[0].keywords}
                an = A.const_value(kws["argnums"]) if "argnums" in kws else (A.const_value(vg[0].args[1]) if len(vg[0].args) > 1 else 0)
                params = A.params_of(fo.node)
                from ..shims import objective_roles
                roles_ = objective_roles(repo, rel) or {p_: p_ for p_ in params}
                if isinstance(an, int) and 0 <= an < len(params) and roles_.get(params[an]) == "pars" and an == 0:
                    ctx.holds(r1, site, "value_and_grad(_final_objective, argnums=0) and argument 0 is the free-parameter vector")
                else:
                    ctx.violated(r1, (rel, "<module>"), vg[0], "jax differentiates with respect to an argument that is not the free-parameter vector", expected="argnums=0 (pars)", found=f"argnums={an}, params={params}", node=vg[0])
            for nm, node in (("_jitted_objective_and_grad", jg), ("_jitted_objective", jn)):
                kws = {k.arg: k.value for k in node.keywords} if isinstance(node, ast.Call) else {}
                if isinstance(node, ast.Call) and isinstance(node.func, ast.Name) and isinstance(repo.module(rel).assigns.get(node.func.id), ast.Call):
                    pre_ = repo.module(rel).assigns[node.func.id]  # `jit_static = functools.partial(jax.jit, static_argnums=...)` shared by both
                    if A.call_attr(pre_) == "partial" and pre_.args and (A.dotted(pre_.args[0]) or "").endswith("jit"):
                        kws = {**{k.arg: k.value for k in pre_.keywords}, **kws}
                sa_node = kws.get("static_argnums")
                if isinstance(sa_node, ast.Name) and isinstance(repo.module(rel).assigns.get(sa_node.id), ast.AST):
                    sa_node = repo.module(rel).assigns[sa_node.id]  # a module-level constant shared by both jit calls
                sa = A.const_value(sa_node) if sa_node is not None and A.is_const(sa_node) else (() if sa_node is None else None)
                if sa is None:
                    ctx.unrecognised(r1, (rel, "<module>"), node, f"{nm}: static_argnums is not a literal")
                    continue
                sa = (sa,) if isinstance(sa, int) else tuple(sa or ())
                # in terms of the parameters of _final_objective as defined today: the arrays are traced, everything else is static
                traced_ = {i_ for i_, p_ in enumerate(params) if roles_.get(p_, p_) in ("pars", "data", "fixed_values")}
                if len(traced_) == 3 and len(params) == 8 and traced_ != {0, 1, 2}:
                    if set(sa) & traced_:
                        ctx.violated(r1, (rel, "<module>"), node, f"{nm}: a traced argument (pars/data/fixed values) is declared static: its value is baked into the compiled function (stale results, no gradient flow)", expected=f"static_argnums within {sorted(set(range(8)) - traced_)}", found=str(sa), node=node)
                    elif set(sa) >= set(range(8)) - traced_:
                        ctx.holds(r1, f"{rel}::{nm}", f"static_argnums={sa} (index pieces, objective, pdf), traced {sorted(traced_)}")
                    else:
                        ctx.violated(r1, (rel, "<module>"), node, f"{nm}: non-array arguments (index tuples, callables, model) are not all static", expected=str(tuple(sorted(set(range(8)) - traced_))), found=str(sa), node=node)
                    continue
                if set(sa) & {0, 1, 2}:
                    ctx.violated(r1, (rel, "<module>"), node, f"{nm}: a traced argument (pars/data/fixed values) is declared static: its value is baked into the compiled function (stale results, no gradient flow)", expected="static_argnums within 3..7", found=str(sa), node=node)
                elif set(sa) >= {3, 4, 5, 6, 7}:
                    ctx.holds(r1, f"{rel}::{nm}", f"static_argnums={sa} (index pieces, objective, pdf), traced 0-2")
                else:
                    ctx.violated(r1, (rel, "<module>"), node, f"{nm}: non-array arguments (index tuples, callables, model) are not all static", expected="(3, 4, 5, 6, 7)", found=str(sa), node=node)
            plain_target = jn.args[0] if isinstance(jn, ast.Call) and jn.args else None
            if plain_target is not None and A.dotted(plain_target) == "_final_objective":
                ctx.holds(r1, f"{rel}::_jitted_objective", "plain arm jits the same _final_objective")
            else:
                ctx.violated(r1, (rel, "<module>"), jn, "the plain arm evaluates a different function than the one the gradient arm differentiates", node=jn)
            rets = [r for r in ast.walk(fo.node) if isinstance(r, ast.Return) and r.value is not None]
            if rets and all(isinstance(r.value, ast.Subscript) and A.const_value(r.value.slice) == 0 for r in rets):
                ctx.holds(r1, f"{rel}::_final_objective", "returns the scalar objective[0]")
            else:
                ctx.violated(r1, fo, "return", "_final_objective does not return the scalar objective value", node=fo.node)

    # ------------------------------------------------------------ R2
    n_scanned = 0
    for rel in PROTOCOL_FILES:
        m = repo.module(rel)
        for c in m.classes.values():
            if c.name.startswith("_slow_") or c.name.endswith("_builder") or c.name == "_nominal_builder":
                continue
            for mname, f in c.methods.items():
                if mname not in PROTOCOL_METHODS:
                    continue
                ctx.touch(f)
                n_scanned += 1
                params = [p for p in A.params_of(f.node) if p not in ("self", "cls")]
                d = Deps(f.node)
                pm = A.parent_map(f.node)
                bad = []
                for call in A.calls_in(f.node, into_defs=True):
                    nm = A.call_attr(call)
                    if nm not in BREAKERS:
                        continue
                    if A.enclosing(call, pm, ast.ExceptHandler) is not None:
                        continue  # diagnostics on the failure path
                    recv = call.func.value if isinstance(call.func, ast.Attribute) else None
                    operands = list(call.args)
                    if recv is not None and not (isinstance(recv, ast.Name) and recv.id in ("tensorlib", "default_backend", "np", "tb", "numpy")):
                        operands.append(recv)
                    tainted = [o for o in operands if any(d.depends_on(o, p) for p in params)]
                    if tainted:
                        bad.append((call, tainted[0]))
                if bad:
                    for call, op in bad:
                        ctx.violated(r2, f, call, f"`{A.short(call, 50)}` converts a value derived from the method's tensor argument to python/numpy data: the AD graph is cut there and the gradient w.r.t. those parameters is silently zero/None", expected="backend tensor operations only", node=call)
                else:
                    ctx.holds(r2, f"{rel}::{c.name}.{mname}", "no graph-breaking conversion of argument-derived data")
    ctx.extra["protocol_methods_scanned"] = n_scanned
    # slow interpolators not selectable
    for rel, cname in (("src/pyhf/modifiers/histosys.py", "histosys_combined"), ("src/pyhf/modifiers/normsys.py", "normsys_combined")):
        init = repo.method(rel, cname, "__init__")
        ctx.touch(init)
        lists = [A.const_value(n.comparators[0]) for n in ast.walk(init.node) if isinstance(n, ast.Compare) and isinstance(n.ops[0], ast.In) and "interpcode" in A.unparse(n.left)]
        ga = [c for c in A.calls_in(init.node) if A.call_attr(c) == "getattr" and len(c.args) >= 2 and A.dotted(c.args[0]) == "interpolators"]
        if lists and isinstance(lists[0], (list, tuple)) and not any(str(x).startswith("_slow") for x in lists[0]) and ga:
            ctx.holds(r2, f"{rel}::{cname}.__init__", f"interpolator chosen from {list(lists[0])} (vectorised implementations only)")
        elif not lists:
            ctx.violated(r2, init, "interpcode whitelist", "the interpolation code is no longer restricted to the vectorised implementations: a `_slow_*` reference interpolator (python floats, tolist) could be selected and break differentiation", node=init.node)
        else:
            ctx.violated(r2, init, "interpcode whitelist", "a reference (_slow_) interpolator is selectable by the modifier", found=str(lists[0]), node=init.node)


def _boundary_gradients(ctx, rid, repo):
    from fractions import Fraction
    from ..alg import Poly
    from .c03 import Evaluator, pairs
    for key, fast, slow, _node in sorted(pairs(repo), key=lambda t: str(t[0])):
        init = fast.methods["__init__"].node
        a0 = Poly.const(1)
        if "alpha0" in A.params_of(init):
            dv = A.const_value(A.param_defaults(init).get("alpha0")) if A.param_defaults(init).get("alpha0") is not None else 1
            a0 = to_poly(dv if isinstance(dv, (int, float)) else 1)
        ev = Evaluator(key, fast, slow, a0)
        try:
            ths = ev.thresholds("fast")
        except Exception as e:  # noqa: BLE001
            ctx.unrecognised(rid, fast, f"code {key}", f"threshold discovery failed: {e}")
            continue
        pts = [t for t, _ in ths]
        for i, t in enumerate(pts):
            lo = (pts[i - 1] + t) / 2 if i > 0 else t - 1
            hi = (t + pts[i + 1]) / 2 if i + 1 < len(pts) else t + 1
            site = f"{fast.relpath}::{fast.name}.__call__ at alpha = {t}"
            try:
                e_lo, _ = ev.eval_fast(lo, [])
                e_hi, _ = ev.eval_fast(hi, [])
                e_pt, _ = ev.eval_fast(t, [])
                at_t = {"alpha": Poly.const(t)}
                d_lo, d_hi, d_pt = e_lo.diff("alpha").subs(at_t), e_hi.diff("alpha").subs(at_t), e_pt.diff("alpha").subs(at_t)
                v_ok = e_pt.subs(at_t) == e_lo.subs(at_t) or e_pt.subs(at_t) == e_hi.subs(at_t)
                if d_lo != d_hi:
                    ctx.holds(rid, site, "kink of the published function (one-sided derivatives differ): no unique derivative to demand")
                elif d_pt == d_lo and v_ok:
                    ctx.holds(rid, site, f"d/dalpha of the selected branch = {str(d_pt)[:80]}")
                else:
                    ctx.violated(rid, fast.methods["__call__"], f"code {key} gradient at alpha = {t}", f"the interpolation is differentiable at alpha = {t}, but the expression the vectorised code evaluates exactly AT that point has another derivative with respect to alpha (a term that should carry alpha is replaced by a constant there): automatic differentiation returns a wrong gradient component for a parameter sitting on the breakpoint, although every value is right", expected=str(d_lo)[:200], found=str(d_pt)[:200])
            except Undecided as e:
                ctx.unrecognised(rid, fast.methods["__call__"], f"code {key} at alpha = {t}", f"not interpretable: {e}")


def _handover(ctx, rid, repo):
    from ..alg import AutoRegion, Closure, Interp, NotHandled, Obj, Poly, PyFunc, RaisedInFragment
    from ..objmodel import Instance, World
    at = Poly.atom
    MIX = OPT + "mixins.py"
    cls = repo.cls(MIX, "OptimizerMixin")
    im = cls.methods.get("_internal_minimize") if cls else None
    if im is None:
        ctx.unrecognised(rid, repo.module(MIX), "OptimizerMixin._internal_minimize", "not found")
        return
    errs = (Undecided, KeyError, TypeError, ValueError, IndexError, AttributeError)
    for do_grad in (True, False):
        site = f"{MIX}::OptimizerMixin._internal_minimize [do_grad={do_grad}]"
        got, seen_at = [], []

        def objective(a, k, do_grad=do_grad):
            seen_at.append([str(to_poly(x)) for x in (a[0].tolist() if hasattr(a[0], "tolist") else list(a[0]))])
            return (at("V"), [at("g0"), at("g1")]) if do_grad else at("V")

        func = PyFunc(objective, "objective_and_grad")

        def getmin(a, k):
            got.append(("_get_minimizer", a[0] if a else k.get("objective_and_grad", k.get("func"))))
            return Obj("minimizer")

        def domin(a, k):
            got.append(("_minimize", a[1] if len(a) > 1 else k.get("func")))
            return Obj("result", {"success": True})

        try:
            from ..listnp import externals as list_tensors
            lt = list_tensors()
            lt.setdefault("asarray", lt["astensor"])
            lt.setdefault("array", lt["astensor"])

            def _numbers(v, reg_):
                return [float(to_poly(x).evalf(reg_)) for x in (v if isinstance(v, (list, tuple)) else [v])]

            def allclose(a, k):
                # numpy.allclose / array_equal / isclose(...).all() on the point the scenario is evaluated at
                reg_ = current_region[0]
                x, y = _numbers(a[0], reg_), _numbers(a[1], reg_)
                rtol = float(to_poly(k.get("rtol", a[2] if len(a) > 2 else 1e-5)).evalf(reg_)) if not isinstance(k.get("rtol", None), float) else k["rtol"]
                atol = float(to_poly(k.get("atol", a[3] if len(a) > 3 else 1e-8)).evalf(reg_)) if not isinstance(k.get("atol", None), float) else k["atol"]
                return len(x) == len(y) and all(abs(p_ - q_) <= atol + rtol * abs(q_) for p_, q_ in zip(x, y))

            def array_equal(a, k):
                reg_ = current_region[0]
                x, y = _numbers(a[0], reg_), _numbers(a[1], reg_)
                return x == y

            current_region = [AutoRegion()]
            lt["allclose"], lt["array_equal"] = allclose, array_equal
            w = World({**lt, "__strict__": True, "get_backend": (lambda tl_: (lambda a, k: (tl_, Obj("optimizer"))))(_tl())},
                      module_env={"log": Obj("log"), "exceptions": Obj("exceptions"), "np": __import__("pyhfsa.alg", fromlist=["MODULE"]).MODULE})
            w.add_class(cls)
            for q_, f2_ in repo.module(MIX).funcs.items():
                if "." not in q_ and q_ != "__dir__":
                    w.add_func(f2_)
            opt = Instance(cls)
            # the two methods every concrete optimizer supplies, as recorders
            opt.attrs["_get_minimizer"], opt.attrs["_minimize"] = PyFunc(getmin, "_get_minimizer"), PyFunc(domin, "_minimize")
            bounds = [(at("l0"), at("h0")), (at("l1"), at("h1"))]
            w.call_method(opt, "_internal_minimize", [func, [at("x0"), at("x1")]], {"do_grad": do_grad, "bounds": bounds, "fixed_vals": None, "options": {}, "par_names": None})
            if len(got) < 2:
                ctx.violated(rid, im, "handover", "the minimiser is not constructed / run with the function produced by the shim", found=str([g for g, _ in got]))
                continue
            bad = None
            for where, f_ in got:
                if f_ is func:
                    continue
                if not isinstance(f_, (Closure, PyFunc)):
                    bad = f"{where} receives {type(f_).__name__} instead of the shim's function"
                    break
                # a wrapper: it must return what the wrapped function returns, wherever it is called
                from fractions import Fraction
                where_ = {"p0": 1, "p1": 2, "n0": Fraction(1) + Fraction(1, 10 ** 7), "n1": Fraction(2) + Fraction(2, 10 ** 7), "l0": 0, "l1": 0, "h0": 10, "h1": 10}
                points = {
                    "an interior point": ([at("p0"), at("p1")], {"g0": 3, "g1": -3}),
                    "a point 1e-7 (relative) away from the one just evaluated": ([at("n0"), at("n1")], {"g0": 3, "g1": -3}),
                    "a point on the lower bounds, gradient pointing outwards": ([at("l0"), at("l1")], {"g0": 3, "g1": 5}),
                    "a point on the upper bounds, gradient pointing outwards": ([at("h0"), at("h1")], {"g0": -3, "g1": -5}),
                }
                for lab, (pt, reg) in points.items():
                    del seen_at[:]
                    from ..listnp import T
                    region = AutoRegion({k_: Fraction(v_) for k_, v_ in {**where_, **reg}.items()})
                    if isinstance(f_, PyFunc):
                        out = f_.f([T(pt)], {})
                    else:
                        home = f_.interp if isinstance(getattr(f_, "interp", None), Interp) else Interp({}, {}, region, externals=w.externals())
                        home.region = region
                        current_region[0] = region
                        out = home._call_closure(f_, [T(pt)], {})
                    if do_grad:
                        v_, g_ = out
                        g_ = g_.tolist() if hasattr(g_, "tolist") else list(g_)
                        res = (str(to_poly(v_)), [str(to_poly(x)) for x in g_])
                        want = ("V", ["g0", "g1"])
                    else:
                        res, want = str(to_poly(out)), "V"
                    if res != want or seen_at != [[str(x) for x in pt]]:
                        bad = f"{where} receives a wrapper that, at {lab}, returns {res} (objective evaluated at {seen_at}); the shim's function returns {want} at {[str(x) for x in pt]}"
                        break
                if bad:
                    break
            if bad:
                ctx.violated(rid, im, "function handed to the minimiser", "value and gradient reaching the minimiser are not those of the shim's objective: " + bad, expected="the shim's (value, gradient) function, unaltered", found=bad, node=im.node)
            else:
                ctx.holds(rid, site, "minimiser constructed and run with the shim's function itself" if all(f_ is func for _, f_ in got) else "wrapper returns the wrapped value and gradient at interior and boundary points")
        except RaisedInFragment as e:
            ctx.violated(rid, im, "handover", f"raises {e.exc_name} on valid inputs")
        except errs as e:
            ctx.unrecognised(rid, im, f"_internal_minimize [do_grad={do_grad}]", f"not interpretable: {type(e).__name__}: {e}")


def _handover_minimisers(ctx, rid, repo):
    """The two concrete optimizers: what the LIBRARY is given.  Minuit(fcn, start, grad=...) and
    scipy.optimize.minimize(fun, x0, jac=...) are recorders; fcn / grad / fun are then called at a point."""
    from fractions import Fraction
    from ..alg import AutoRegion, Closure, Interp, Obj, Poly, PyFunc, RaisedInFragment
    from ..listnp import T
    from ..objmodel import Instance, World
    at, c = Poly.atom, Poly.const
    errs = (Undecided, KeyError, TypeError, ValueError, IndexError, AttributeError)
    pt = [at("p0"), at("p1")]

    def call(w, f_, args):
        if isinstance(f_, PyFunc):
            return f_.f(args, {})
        if isinstance(f_, Closure):
            home = f_.interp if isinstance(getattr(f_, "interp", None), Interp) else Interp({}, {}, AutoRegion(), externals=w.externals())
            return home._call_closure(f_, args, {})
        raise Undecided(f"not a function: {type(f_).__name__}")

    def show(v):
        if isinstance(v, tuple):
            return tuple(show(x) for x in v)
        if isinstance(v, list):
            return [show(x) for x in v]
        return str(to_poly(v))

    for do_grad in (True, False):
        seen_at = []

        def objective(a, k, do_grad=do_grad):
            seen_at.append(show(list(a[0])))
            return (at("V"), [at("g0"), at("g1")]) if do_grad else at("V")

        func = PyFunc(objective, "objective_and_grad")
        want_v, want_g = "V", ["g0", "g1"]
        # ---- minuit
        mc_ = repo.cls(OPT + "opt_minuit.py", "minuit_optimizer")
        gm = mc_.methods.get("_get_minimizer") if mc_ else None
        if gm is None:
            ctx.unrecognised(rid, repo.module(OPT + "opt_minuit.py"), "minuit_optimizer._get_minimizer", "not found")
        else:
            try:
                made = []
                w = World({"__strict__": True, "Minuit": lambda a, k: (made.append((a, k)) or Obj("MINUIT"))}, region=AutoRegion(), module_env={"iminuit": Obj("iminuit"), "exceptions": Obj("exceptions")})
                w.add_class(mc_)
                inst = Instance(mc_)
                inst.attrs.update({"verbose": False, "errordef": at("ERRORDEF"), "strategy": None, "steps": c(1000), "tolerance": at("TOLERANCE")})  # a non-default errordef (0.5 is documented)
                w.call_method(inst, "_get_minimizer", [func, [at("i0"), at("i1")], [(at("l0"), at("h0")), (at("l1"), at("h1"))]], {"fixed_vals": None, "do_grad": do_grad, "par_names": None})
                a, k = made[-1]
                fcn, grad = (a[0] if a else k.get("fcn")), k.get("grad", a[2] if len(a) > 2 else None)
                del seen_at[:]
                v_ = show(call(w, fcn, [T(pt)]))
                g_ = show(_aslist(call(w, grad, [T(pt)]))) if isinstance(grad, (Closure, PyFunc)) else grad
                at_ok = all(x == ["p0", "p1"] for x in seen_at) and seen_at
                # cost and gradient scaled by ONE common factor are still value and gradient of one function
                if do_grad and isinstance(grad, (Closure, PyFunc)) and at_ok and v_ != want_v:
                    try:
                        vp_, gp_ = to_poly(call(w, fcn, [T(pt)])), [to_poly(x) for x in _aslist(call(w, grad, [T(pt)]))]
                        if len(gp_) == 2 and all(vp_ * at(n_) == at("V") * g__ for n_, g__ in zip(("g0", "g1"), gp_)) and not vp_.is_zero():
                            v_, g_ = want_v, want_g
                    except (Undecided, TypeError):
                        pass
                if not do_grad and at_ok and v_ != want_v and not isinstance(grad, (Closure, PyFunc)):
                    # no gradient is handed over: a cost that is a constant multiple of the objective has the same minimum
                    try:
                        vp_ = to_poly(call(w, fcn, [T(pt)]))
                        r1 = vp_.evalf(AutoRegion({"V": Fraction(1)}))
                        r2 = vp_.evalf(AutoRegion({"V": Fraction(2)}))
                        if r1 != 0 and r2 == 2 * r1:
                            v_ = want_v
                    except (Undecided, TypeError):
                        pass
                if v_ != want_v or not at_ok:
                    ctx.violated(rid, gm, f"Minuit cost function [do_grad={do_grad}]", "the function Minuit minimises is not the shim's objective value at the point Minuit asks for", expected=f"{want_v} at ['p0', 'p1']", found=f"{v_} (objective evaluated at {seen_at})", node=gm.node)
                elif do_grad and grad is not None and g_ != want_g:
                    ctx.violated(rid, gm, "Minuit gradient function [do_grad=True]", "the gradient Minuit is given is not the gradient the shim returns together with the value (it belongs to a different function than the one being minimised)", expected=str(want_g), found=str(g_), node=gm.node)
                elif not do_grad and grad not in (None, False):
                    ctx.violated(rid, gm, "Minuit gradient function [do_grad=False]", "Minuit is given a gradient function although the objective returns a value only", found=str(g_), node=gm.node)
                else:
                    ctx.holds(rid, f"{OPT}opt_minuit.py::minuit_optimizer._get_minimizer [do_grad={do_grad}]", f"Minuit(fcn -> {v_}, grad -> {g_})")
            except RaisedInFragment as e:
                ctx.violated(rid, gm, f"_get_minimizer [do_grad={do_grad}]", f"raises {e.exc_name} on valid inputs", node=gm.node)
            except errs as e:
                ctx.unrecognised(rid, gm, f"minuit_optimizer._get_minimizer [do_grad={do_grad}]", f"not interpretable: {type(e).__name__}: {e}")
        # ---- scipy
        sc = repo.cls(OPT + "opt_scipy.py", "scipy_optimizer")
        mm = sc.methods.get("_minimize") if sc else None
        if mm is None:
            ctx.unrecognised(rid, repo.module(OPT + "opt_scipy.py"), "scipy_optimizer._minimize", "not found")
            continue
        try:
            rec = []
            w = World({"__strict__": True}, region=AutoRegion(), module_env={"exceptions": Obj("exceptions")})
            w.add_class(sc)
            inst = Instance(sc)
            inst.attrs.update({"maxiter": at("DEFAULT_MAXITER"), "verbose": False, "tolerance": None, "solver_options": {}})
            solver = PyFunc(lambda a, k: (rec.append((a, k)) or Obj("RESULT")), "minimizer")
            w.call_method(inst, "_minimize", [solver, func, [at("x0"), at("x1")]], {"do_grad": do_grad, "bounds": [(at("l0"), at("h0")), (at("l1"), at("h1"))], "fixed_vals": None, "options": {}})
            a, k = rec[-1]
            fun, jac = (a[0] if a else k.get("fun")), k.get("jac")
            del seen_at[:]
            out = call(w, fun, [T(pt)])
            at_ok = all(x == ["p0", "p1"] for x in seen_at) and seen_at
            if isinstance(jac, (Closure, PyFunc)):
                v_, g_ = show(out), show(_aslist(call(w, jac, [T(pt)])))
            elif jac is True:
                v_, g_ = (show(out[0]), show(_aslist(out[1]))) if isinstance(out, tuple) and len(out) == 2 else (show(out), "<fun returns no gradient although jac=True>")
            else:
                v_, g_ = show(out), None
            if v_ != want_v or not at_ok:
                ctx.violated(rid, mm, f"scipy objective [do_grad={do_grad}]", "the function scipy minimises is not the shim's objective value at the point scipy asks for", expected=f"{want_v} at ['p0', 'p1']", found=f"{v_} (objective evaluated at {seen_at})", node=mm.node)
            elif do_grad and g_ != want_g:
                ctx.violated(rid, mm, "scipy jac [do_grad=True]", "with gradients on, scipy is not given the gradient the shim returns together with the value (jac must be True for a (value, gradient) function, or a function returning that gradient)", expected=f"jac=True, gradient {want_g}", found=f"jac={jac if not isinstance(jac, (Closure, PyFunc)) else 'function'}, gradient {g_}", node=mm.node)
            elif not do_grad and (jac is True or isinstance(jac, (Closure, PyFunc))):
                ctx.violated(rid, mm, "scipy jac [do_grad=False]", "scipy is told the objective returns a gradient although it returns a value only", found=f"jac={jac}", node=mm.node)
            else:
                ctx.holds(rid, f"{OPT}opt_scipy.py::scipy_optimizer._minimize [do_grad={do_grad}]", f"minimize(fun -> {v_}, jac={jac if not isinstance(jac, (Closure, PyFunc)) else 'function'} -> {g_})")
        except RaisedInFragment as e:
            ctx.violated(rid, mm, f"_minimize [do_grad={do_grad}]", f"raises {e.exc_name} on valid inputs", node=mm.node)
        except errs as e:
            ctx.unrecognised(rid, mm, f"scipy_optimizer._minimize [do_grad={do_grad}]", f"not interpretable: {type(e).__name__}: {e}")


def _static_identity(ctx, rid, repo):
    from .. import listnp
    from ..alg import AutoRegion, Obj, Poly, PyFunc, RaisedInFragment
    from ..objmodel import Instance
    from . import viewers
    PDF = "src/pyhf/pdf.py"
    at, c = Poly.atom, Poly.const
    mdl = repo.cls(PDF, "Model")
    jx = repo.module(OPT + "opt_jax.py")
    if mdl is None:
        ctx.unrecognised(rid, repo.module(PDF), "Model", "class not found")
        return
    errs = (Undecided, KeyError, TypeError, ValueError, IndexError, AttributeError)
    try:
        w = viewers.world(repo, {"__strict__": True, "__isinstance__": lambda v, cl: isinstance(v, Instance) and v.cls.name == getattr(cl, "name", None)})
        mm, mc, mix = repo.cls(PDF, "_MainModel"), repo.cls(PDF, "_ModelConfig"), repo.cls("src/pyhf/mixins.py", "_ChannelSummaryMixin")
        w.add_class(mix).add_class(mc).add_class(mm).add_class(mdl)
        eq = w.methods_of(mdl).get("__eq__")
        if eq is None:
            ctx.holds(rid, f"{PDF}::Model [no __eq__ on the class or its bases]", "models are equal only to themselves: a jit cache entry is never shared between two model objects")
            return
        ctx.touch(eq)
        cm_obj = Obj("constraint_model")
        nominal = listnp.T([[[[at("n0"), at("n1")]]]])
        w.base.update({
            "_nominal_and_modifiers_from_spec": lambda a, k: ({}, nominal),
            "_ConstraintModel": lambda a, k: cm_obj,
            ".has_pdf": lambda recv, a, k: False if recv is cm_obj else _nh(),
        })
        w.module_env.update({"histfactory_set": Obj("histfactory_set"), "schema": Obj("schema"), "log": Obj("log"), "prob": Obj("prob"), "exceptions": Obj("exceptions"), "NotImplemented": Obj("NotImplemented")})
        spec = {"channels": [{"name": "SR", "samples": [{"name": "bkg", "data": [at("n0"), at("n1")], "modifiers": [{"name": "sys", "type": "normsys", "data": {"hi": at("hi"), "lo": at("lo")}}]}]}]}
        base = {"batch_size": None, "validate": False}
        pairs = (
            ("default interpolation codes / piecewise-linear codes", {}, {"modifier_settings": {"normsys": {"interpcode": "code1"}, "histosys": {"interpcode": "code0"}}}),
            ("no sample clipping / clip_sample_data=0", {}, {"clip_sample_data": c(0)}),
            ("no bin clipping / clip_bin_data=0", {}, {"clip_bin_data": c(0)}),
        )
        for lab, ka, kb in pairs:
            a_ = w.new(mdl, [spec], {**base, **ka})
            b_ = w.new(mdl, [spec], {**base, **kb})
            same_twin = w.new(mdl, [spec], {**base, **ka})
            r_ = w.call_method(a_, "__eq__", [b_])
            r2 = w.call_method(a_, "__eq__", [same_twin])
            if r_ is True or (not isinstance(r_, (bool, Obj)) and r_ is not None and w_truth(r_)):
                ctx.violated(rid, eq, f"Model.__eq__ [{lab}]", "two models that evaluate DIFFERENT likelihoods compare equal: jax.jit (static argument `pdf`) hands the second model the function traced for the first, so value and gradient belong to another model's objective", expected="models with different options are not equal", found=f"a == b is {r_} (same options: {r2})", node=eq.node)
            else:
                ctx.holds(rid, f"{PDF}::Model.__eq__ [{lab}]", f"not equal ({getattr(r_, 'name', r_)})")
    except RaisedInFragment as e:
        ctx.unrecognised(rid, mdl, "Model.__eq__", f"interpretation raised {e.exc_name}")
    except errs as e:
        ctx.unrecognised(rid, mdl, "Model.__eq__", f"not interpretable: {type(e).__name__}: {e}")


def w_truth(v):
    try:
        p_ = to_poly(v)
    except Undecided:
        return False
    return p_.is_const() and p_.const_value() != 0


def _nh():
    from ..alg import NotHandled
    raise NotHandled()


def _aslist(v):
    return list(v) if isinstance(v, (list, tuple)) else v


def _tl():
    from .c05 import _tensorlib_obj
    return _tensorlib_obj()


def _shim_history(ctx, rid):
    from ..alg import RaisedInFragment
    from ..shims import run_shim_history
    repo = ctx.repo
    for b, rel in sorted(shim_table(repo).items()):
        w = repo.func(rel, "wrap_objective")
        for do_grad in (True, False):
            site = f"{rel}::wrap_objective.func [do_grad={do_grad}, same buffer, new content]"
            try:
                calls = run_shim_history(repo, rel, do_grad)
            except RaisedInFragment:
                continue  # this backend refuses the mode (numpy has no gradients)
            except (Undecided, KeyError, TypeError, ValueError, IndexError, AttributeError) as e:
                ctx.unrecognised(rid, w, f"wrap_objective [{b}, do_grad={do_grad}]", f"not interpretable: {type(e).__name__}: {e}")
                continue
            first, second = calls
            stale = [x for x in second["returned"] if "q0" in x or "q1" in x]
            if not first["objective"] or not all("q0" in x for x in first["objective"]):
                ctx.violated(rid, w, f"first evaluation [{b}, do_grad={do_grad}]", "the wrapped objective is not evaluated at the parameters it is given", expected="objective at (q0, q1)", found=str(first))
            elif stale or not second["objective"] or not all("r0" in x and "q0" not in x for x in second["objective"]) or not all("r0" in x for x in second["returned"]):
                ctx.violated(rid, w, f"second evaluation after the buffer changed in place [{b}, do_grad={do_grad}]", "value / gradient returned for the new point are those of an EARLIER point: the function keeps a reference to (not a copy of) the caller's parameter buffer and compares the buffer with itself", expected="objective, value and gradient at (r0, r1)", found=f"objective evaluated at {second['objective']}, returned {second['returned']}")
            else:
                ctx.holds(rid, site, f"second call: {second['returned']}")
