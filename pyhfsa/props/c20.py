"""C20 -- structurally inconsistent specifications are refused, never partly evaluated.

  R1 RAISE   on the model-construction scope every `raise` names a pyhf exception class and no
             `assert` guards specification-derived data
  R2 KEYREG  registrations keyed by names taken from the specification (channel, sample,
             (type, name) modifier, parameter config) are guarded by a membership test that raises
  R3 KEYREG  no first-wins registration (`setdefault`) of a parameter requirement that depends on
             per-site data in a builder whose modifiers are shared by name
  R4 SIB     every builder that consumes per-bin modifier data compares its length with the nominal
             and raises InvalidModifier; the nominal builder checks sample length against the channel
  R5 NULL    requirement keys whose default is the literal placeholder None are rejected with a pyhf
             exception when no value was supplied
  R6 RAISE   set_poi refuses undeclared / multi-component POIs; override length and unsupported
             attributes raise InvalidModel; conflicting requirements raise InvalidNameReuse
"""

from __future__ import annotations

import ast

from .. import astutil as A
from ..alg import FragmentFault, Interp, Obj, Poly, RaisedInFragment, Undecided, to_poly
from ..cfg import CFG
from ..dep import Deps
from .c01 import build_args, registry

EXPLANATION = (
    "The functions that run during Model construction (spec walk, builders, appliers' constructors, parameter "
    "reduction, paramsets, configuration mixin) are scanned: (R1) raise statements must name classes defined in "
    "pyhf.exceptions and assert statements may not sit in spec-processing code; (R2) dict registrations keyed by a "
    "specification element's name must be dominated by a membership test that raises; (R3) a shared builder may not "
    "register data-dependent requirements first-wins; (R4) per-bin data length checks are compared across the sibling "
    "builders; (R5) None placeholders must be refused; (R6) the documented refusals exist with pyhf exception types. "
    "Genuine, un-repaired acceptances of the pinned tree are listed in known_findings.json and printed as KNOWN-FINDING."
)
ASSUMPTIONS = ["the construction scope is the set of functions listed in pyhfsa/props/c20.py::scope (closure of Model.__init__ read from the source)"]
PDF, MIX, PU, PS = "src/pyhf/pdf.py", "src/pyhf/mixins.py", "src/pyhf/parameters/utils.py", "src/pyhf/parameters/paramsets.py"
ASSERT_EXCEPTIONS = {
    ("src/pyhf/modifiers/histosys.py", "histosys_combined.__init__"): "condition depends on the modifier_settings keyword argument, not on the specification",
    ("src/pyhf/modifiers/normsys.py", "normsys_combined.__init__"): "condition depends on the modifier_settings keyword argument, not on the specification",
    (PDF, "_ConstraintModel.__init__"): "internal invariant between sub-objects (batch size), no specification dependence",
}
RAISE_EXCEPTIONS = {
    (PS, "paramset.__init__"): "internal scalar/size invariant of a modifier's own requirement (ValueError), unreachable from specification content",
}


def scope(repo):
    out = []
    reg = registry(repo)
    for rel, names in (
        (PDF, ["_finalize_parameters_specs", "_create_parameters_from_spec", "_nominal_and_modifiers_from_spec", "_nominal_builder.__init__", "_nominal_builder.append", "_nominal_builder.finalize",
               "_ModelConfig.__init__", "_ModelConfig.set_parameters", "_ModelConfig.set_auxinfo", "_ModelConfig.set_poi", "_ModelConfig._create_and_register_paramsets",
               "_ConstraintModel.__init__", "_MainModel.__init__", "Model.__init__"]),
        (MIX, ["_ChannelSummaryMixin.__init__"]),
        (PU, ["reduce_paramsets_requirements"]),
    ):
        for q in names:
            out.append(repo.func(rel, q))
    psm = repo.module(PS)
    for c in psm.classes.values():
        if "__init__" in c.methods:
            out.append(c.methods["__init__"])
    for key, (b, c) in sorted(reg.items()):
        for m in b.methods.values():
            out.append(m)
        for mname in ("__init__", "_reindex_access_field"):
            if mname in c.methods:
                out.append(c.methods[mname])
        rp = b.module.funcs.get("required_parset")
        if rp is not None:
            out.append(rp)
    for cname in ("gaussian_constraint_combined", "poisson_constraint_combined"):
        out.append(repo.method("src/pyhf/constraints.py", cname, "__init__"))
    return out, reg


def _reads_handed_data(f, assert_node):
    """does the assert's condition read a parameter of the function (other than self) or a local computed from one?"""
    own = f.node
    for q, g in f.module.funcs.items():
        if any(x is assert_node for x in ast.walk(g.node)) and (own is f.node or len(q) > len(f.qualname)):
            own = g.node if len(q) >= len(f.qualname) else own
    params = {p.lstrip("*") for p in A.params_of(own)} - {"self", "cls"}
    bound = set()
    for c in ast.walk(assert_node.test):
        if isinstance(c, ast.comprehension):
            bound |= {x.id for x in ast.walk(c.target) if isinstance(x, ast.Name)}
        elif isinstance(c, ast.Lambda):
            bound |= {a.arg for a in c.args.args}
    deps = Deps(own)
    clo = deps.closure()
    for nm in A.names_loaded(assert_node.test) - bound:
        if nm in params or (clo.get(nm, set()) & params):
            return True
    return False


def run(ctx):
    repo = ctx.repo
    fns, reg = scope(repo)
    for f in fns:
        ctx.touch(f)
    exc_mod = repo.module("src/pyhf/exceptions/__init__.py")
    pyhf_exc = set(exc_mod.classes)
    r1 = ctx.rule("C20.R1", "RAISE: every raise on the construction scope names a class of pyhf.exceptions (bare re-raise allowed); no assert in specification-processing code", "RAISE", floor=15)
    r2 = ctx.rule("C20.R2", "KEYREG: a dict store keyed by a specification element's name (channel['name'], s['name'], type/name key, parameter['name']) is dominated by a membership test on that key that raises a pyhf exception", "KEYREG", floor=4)
    r3 = ctx.rule("C20.R3", "KEYREG: a builder with is_shared = True whose required_parset depends on its arguments does not register it with setdefault (first site wins, later sites with different data are silently bound to it)", "KEYREG", floor=5)
    r4 = ctx.rule("C20.R4", "SIB: builders carrying per-bin modifier data compare its length with the nominal in finalize and raise InvalidModifier; the nominal builder compares the sample length with channel_nbins and raises InvalidModel", "SIB", floor=4)
    r5 = ctx.rule("C20.R5", "NULL: requirement keys defaulting to the literal None placeholder are rejected with a pyhf exception by the requirement merge when still None", "NULL", floor=1)
    r6 = ctx.rule("C20.R6", "RAISE: set_poi -> InvalidModel (undeclared, multi-component); override length / unsupported attribute -> InvalidModel; conflicting requirements -> InvalidNameReuse; duplicate parameter configs -> InvalidModel; unknown modifier type -> InvalidModifier; no parameters -> InvalidModel", "RAISE", floor=6)

    # ------------------------------------------------------------ R1
    n_raise = n_assert = 0
    for f in fns:
        for n in ast.walk(f.node):
            if isinstance(n, ast.Raise):
                n_raise += 1
                if n.exc is None:
                    ctx.holds(r1, f"{f.relpath}::{f.qualname}: raise", "re-raise")
                    continue
                e = n.exc.func if isinstance(n.exc, ast.Call) else n.exc
                nm = (A.dotted(e) or "?").split(".")[-1]
                if nm in pyhf_exc:
                    ctx.holds(r1, f"{f.relpath}::{f.qualname}: raise {nm}")
                elif (f.relpath, f.qualname) in RAISE_EXCEPTIONS:
                    ctx.holds(r1, f"{f.relpath}::{f.qualname}: raise {nm}", "explained exception: " + RAISE_EXCEPTIONS[(f.relpath, f.qualname)])
                else:
                    ctx.violated(r1, f, n, f"model construction raises {nm}, which is not one of pyhf's own exception types", expected="a class of pyhf.exceptions", found=nm, node=n)
            elif isinstance(n, ast.Assert):
                n_assert += 1
                if (f.relpath, f.qualname) in ASSERT_EXCEPTIONS:
                    ctx.holds(r1, f"{f.relpath}::{f.qualname}: {A.short(n, 50)}", "explained exception: " + ASSERT_EXCEPTIONS[(f.relpath, f.qualname)])
                elif not _reads_handed_data(f, n):
                    # an assertion over the object's own bookkeeping documents an invariant of the code; the specification
                    # reaches this code through the function's parameters only
                    ctx.holds(r1, f"{f.relpath}::{f.qualname}: {A.short(n, 50)}", "asserts an invariant of the object's own state: no data handed to the function is tested")
                else:
                    ctx.violated(r1, f, n, "a consistency condition on specification-derived data is only guarded by an assert: it raises AssertionError (not a pyhf exception) and vanishes under `python -O`", expected="raise pyhf.exceptions.InvalidModifier/InvalidModel", node=n)
    ctx.extra["raise_sites"] = n_raise
    ctx.extra["assert_sites"] = n_assert

    # ------------------------------------------------------------ R2
    keyreg_fns = []
    for f in fns:
        if f.relpath in (PDF, MIX) and f.qualname in ("_nominal_and_modifiers_from_spec", "_finalize_parameters_specs", "_ChannelSummaryMixin.__init__"):
            keyreg_fns.append(f)
            keyreg_fns.extend(h_ for h_ in repo.helpers_of(f, depth=2) if all(h_.node is not k_.node for k_ in keyreg_fns))  # a registration walk moved into a helper is judged there
    for f in keyreg_fns:
        g = CFG.build(f.node.body)
        dom = g.dominators()
        pm = A.parent_map(f.node)
        d = Deps(f.node)
        for n in ast.walk(f.node):
            key = store = table = None
            if isinstance(n, ast.Assign) and isinstance(n.targets[0], ast.Subscript):
                t = n.targets[0]
                key, store, table = t.slice, n, A.unparse(t.value)
            if key is None or not _name_key(key, d):
                continue
            st = A.stmt_of(store, pm)
            guards = []
            for gnode in ast.walk(f.node):
                if isinstance(gnode, ast.If) and any(isinstance(x, ast.Raise) for x in gnode.body):
                    for cmpn in ast.walk(gnode.test):
                        if isinstance(cmpn, ast.Compare) and isinstance(cmpn.ops[0], (ast.In, ast.NotIn)) and _same_key(cmpn.left, key, d):
                            guards.append((gnode, cmpn))
            site = f"{f.relpath}::{f.qualname}: {A.short(store, 70)}"
            cons = A.norm_locals(store, f.node)
            if isinstance(key, ast.Name):
                fdefs = [v for v in d.defs.get(key.id, []) if isinstance(v, ast.JoinedStr)]
                if fdefs:
                    cons = f"<dict>[{A.norm_locals(fdefs[0], f.node)}] = <spec element>"
            full = [gn for gn, cm in guards if g.dominates(gn, st, dom) and _unconditional(gn.test, cm)]
            if full:
                ctx.holds(r2, site, "guarded by a membership test that raises")
            elif guards:
                gn, cm = guards[0]
                ctx.violated(r2, f, cons, f"the registration under {A.short(key, 30)} is guarded against duplicates only under a side condition (`{A.short(gn.test, 70)}`): when it does not hold, a second entry with the same key silently replaces the first",
                             expected=f"if {A.short(key, 30)} in <table>: raise", found="partial guard", node=store)
            elif f.relpath == MIX and _model_builder_refuses_duplicate_channels(repo):
                ctx.holds(r2, site, "no guard here, but every Model construction passes _nominal_and_modifiers_from_spec, whose duplicate-channel test dominates its own registration and raises: no model with merged channels can be built (a Workspace is not a model)")
            else:
                ctx.violated(r2, f, cons, f"`{table}` is keyed by a name taken from the specification without a duplicate check: two elements with the same name are silently merged / the last one wins",
                             expected=f"membership test on {A.short(key, 30)} that raises a pyhf exception", found="no guard", node=store)

    # ------------------------------------------------------------ R3
    for key, (b, c) in sorted(reg.items()):
        shared = A.const_value(b.attrs.get("is_shared")) if "is_shared" in b.attrs else None
        rp = b.module.funcs.get("required_parset")
        site = f"{b.relpath}::{b.name}"
        if rp is None:
            ctx.unrecognised(r3, b, b.name, "module has no required_parset")
            continue
        params = set(A.params_of(rp.node))
        rets = [r for r in ast.walk(rp.node) if isinstance(r, ast.Return) and r.value is not None]
        dd = Deps(rp.node)
        data_dep = any(dd.roots_of(r.value) & params for r in rets)
        regs = [(m, cc) for m in b.methods.values() for cc in A.calls_in(m.node) if A.call_attr(cc) == "setdefault" and "required_parsets" in (A.dotted(cc.func.value) or "")]
        first_wins = [(m, cc) for m, cc in regs if m.name == "append"]
        if shared and data_dep and first_wins:
            m, cc = first_wins[0]
            ctx.violated(r3, m, A.norm_locals(cc, m.node), f"{b.name} is shared by name and its parameter requirement depends on the sample's data ({sorted(dd.roots_of(rets[0].value) & params)}), but it is registered with setdefault: the first (channel, sample) visited fixes the size, every other place with a different bin count is bound to it silently",
                         expected="accumulate all requirements and let reduce_paramsets_requirements refuse conflicting sizes", found=A.short(cc, 70), node=cc)
        else:
            why = "not shared" if not shared else ("requirement independent of per-site data" if not data_dep else "not registered per site")
            ctx.holds(r3, site, why)

    # ------------------------------------------------------------ R4
    for key, (b, c) in sorted(reg.items()):
        col = b.methods.get("collect")
        if col is None:
            continue
        consumes = any(isinstance(n, ast.Subscript) and "thismod['data']" in A.unparse(n) for n in ast.walk(col.node)) and any(k in A.unparse(col.node) for k in ("'uncrt'", "'lo_data'", "'hi_data'"))
        if not consumes:
            continue
        fin = b.methods.get("finalize")
        ok = False
        for meth in (b.methods.get("append"), fin, col):
            if meth is None:
                continue
            for n in ast.walk(meth.node):
                if isinstance(n, ast.If) and "len(" in A.unparse(n.test):
                    rs = [r for r in ast.walk(n) if isinstance(r, ast.Raise)]
                    if rs and _exc(rs[0]) == "InvalidModifier":
                        ok = True
        if ok:
            ctx.holds(r4, f"{b.relpath}::{b.name}", "a length comparison raising InvalidModifier exists (append / finalize); which inputs it refuses is decided by interpretation below")
        else:
            ctx.violated(r4, fin or b, "bin-count check", f"{b.name} consumes per-bin modifier data but does not compare its length with the sample's bin count (its sibling builders do): a wrong-length modifier is accepted or fails with a foreign exception", expected="if len(nom_data) != len(<modifier data>): raise InvalidModifier", node=(fin or b).node)
    nb = repo.method(PDF, "_nominal_builder", "append")
    okn = any(isinstance(n, ast.If) and "len(" in A.unparse(n.test) and "channel_nbins" in A.unparse(A.expand_locals(nb.node, n.test)) and any(_exc(r) == "InvalidModel" for r in ast.walk(n) if isinstance(r, ast.Raise)) for n in ast.walk(nb.node))
    if okn:
        ctx.holds(r4, f"{PDF}::_nominal_builder.append", "sample length vs channel_nbins -> InvalidModel")
    else:
        ctx.violated(r4, nb, "sample length check", "samples whose length differs from the channel's bin count are no longer refused", node=nb.node)

    _lengths_interpreted(ctx, r4, r6, repo, reg)

    r7 = ctx.rule("C20.R7", "COMPOSE: the merge of requirements and user settings takes every TUPLE for a built-in default and does not length-check it, so a wrong-length override written as a tuple (a specification built in python) is rejected only if the schema's array type refuses tuples; decided as a pair: schema/validator.py's array type check (the classes it accepts) and reduce_paramsets_requirements interpreted on a three-entry tuple override for a two-component parameter set -- at least one of them refuses", "PAIR", floor=1)
    _tuple_overrides(ctx, r7, repo)
    r8 = ctx.rule("C20.R8", "MODEL-HISTORY (interpreted, engine shared with C16.R7 / C12.R12): whether a workspace's measurement defines a POI is decided by the measurement as stored, on every call: Workspace.model() on one real Workspace object with a POI override or a POI-less request in between hands Model the measurement's own POI again afterwards and never rewrites the stored measurement (an undefined POI stays undefined, hence refused, whatever was asked before)", "HISTORY", floor=1)
    from .c16 import model_history
    model_history(ctx, r8, repo)

    # ------------------------------------------------------------ R5
    none_keys = set()
    for key, (b, c) in sorted(reg.items()):
        rp = b.module.funcs.get("required_parset")
        if rp is None:
            continue
        for n in ast.walk(rp.node):
            if isinstance(n, ast.Dict):
                for k, v in zip(n.keys, n.values):
                    if isinstance(v, ast.Constant) and v.value is None and isinstance(A.const_value(k), str):
                        none_keys.add((b.relpath, A.const_value(k)))
    red = repo.func(PU, "reduce_paramsets_requirements")
    checks = []
    for n in ast.walk(red.node):
        if isinstance(n, ast.If):
            t = A.unparse(n.test).replace(" ", "")
            if ("isNone" in t) and any(_exc(r) in set(repo.module("src/pyhf/exceptions/__init__.py").classes) for r in ast.walk(n) if isinstance(r, ast.Raise)):
                checks.append(n)
    # the merge interpreted on a requirement with two None placeholders: refused unless BOTH are configured
    pyhf_excs = set(repo.module("src/pyhf/exceptions/__init__.py").classes)

    def has_none(v):
        return v is None or (isinstance(v, (list, tuple)) and any(has_none(x) for x in v))

    def lumi_requirement():
        """the requirement the luminosity modifier's own module declares (interpreted), not a copy of it"""
        rp_ = reg["lumi"][0].module.funcs.get("required_parset") if "lumi" in reg else None
        if rp_ is None:
            raise Undecided("lumi module has no required_parset")
        ctx.touch(rp_)
        return Interp({"sample_data": [Poly.atom("n0"), Poly.atom("n1")], "modifier_data": None}, {}, {}).run(A.strip_docstring(rp_.node.body))

    def merged(user):
        req = lumi_requirement()
        out_ = Interp({"paramsets_requirements": {"lumi": [dict(req)]}, "paramsets_user_configs": user, "exceptions": Obj("exceptions")}, {}, {}).run(A.strip_docstring(red.node.body))
        return out_

    full_cfg = {"inits": [Poly.atom("I")], "bounds": [[Poly.atom("L"), Poly.atom("H")]], "auxdata": [Poly.atom("A")], "sigmas": [Poly.atom("S")]}
    for lab, user, must_raise in (("no entry for the parameter", {}, True), ("entry gives inits only", {"lumi": {"inits": [Poly.atom("I")]}}, True),
                                  ("entry gives everything but sigmas", {"lumi": {k: v for k, v in full_cfg.items() if k != "sigmas"}}, True), ("entry gives every required setting", {"lumi": dict(full_cfg)}, False)):
        site = f"{PU}::reduce_paramsets_requirements [None placeholders; {lab}]"
        try:
            out = merged(user)
            if not must_raise and any(has_none(v) for k, v in out["lumi"].items() if k in ("inits", "bounds", "auxdata", "sigmas")):
                ctx.violated(r5, red, f"None placeholder [{lab}]", "a fully configured luminosity parameter comes out of the merge with a placeholder None among its settings", found=str({k: v for k, v in out["lumi"].items() if has_none(v)}))
                continue
            if must_raise:
                left = sorted(k for k, v in out["lumi"].items() if has_none(v) and k in ("inits", "bounds", "auxdata", "sigmas"))
                ctx.violated(r5, red, f"None placeholder [{lab}]", "a parameter set whose required settings are not all configured is accepted: the placeholder None reaches the model and construction later dies with a TypeError (or the setting is silently missing) instead of a pyhf exception", expected="raise exceptions.InvalidModel", found=f"merged settings with None for {left}")
            else:
                ctx.holds(r5, site, "accepted")
        except RaisedInFragment as e:
            cls_ = e.exc_name.split(".")[-1]
            if must_raise and cls_ in pyhf_excs:
                ctx.holds(r5, site, f"refused with {cls_}")
            elif must_raise:
                ctx.violated(r5, red, f"None placeholder [{lab}]", "unconfigured required settings are refused with an exception that is not one of pyhf's own", expected="a class of pyhf.exceptions", found=e.exc_name)
            else:
                ctx.violated(r5, red, f"None placeholder [{lab}]", "a fully configured parameter set is refused", found=f"raise {e.exc_name}")
        except (Undecided, KeyError, TypeError, AttributeError) as e:
            ctx.unrecognised(r5, red, f"None placeholder [{lab}]", f"not interpretable: {type(e).__name__}: {e}")
    if not none_keys:
        ctx.holds(r5, "required_parset defaults", "no None placeholders")
    elif checks:
        ctx.holds(r5, f"{PU}::reduce_paramsets_requirements", f"None placeholders {sorted(k for _, k in none_keys)} are refused with a pyhf exception")
    else:
        rel0 = sorted(none_keys)[0][0]
        ctx.violated(r5, red, "None placeholder", f"requirement keys {sorted(k for _, k in none_keys)} default to the placeholder None ({rel0}) and the merge accepts None when the measurement supplies no value: construction later dies with a TypeError instead of a pyhf exception",
                     expected="if v is None: raise exceptions.InvalidModel(...)", found="no None check", node=red.node)

    # ------------------------------------------------------------ R6
    wants = [
        (PDF, "_ModelConfig.set_poi", "InvalidModel", 2, "undeclared / multi-component POI"),
        (PU, "reduce_paramsets_requirements", "InvalidNameReuse", 1, "conflicting requirements for one name"),
        (PU, "reduce_paramsets_requirements", "InvalidModel", 2, "override length / unsupported attribute"),
        (PDF, "_finalize_parameters_specs", "InvalidModel", 1, "duplicate parameter configuration"),
        (PDF, "_nominal_and_modifiers_from_spec", "InvalidModifier", 1, "unknown modifier type"),
        (PDF, "_nominal_and_modifiers_from_spec", "InvalidModel", 2, "paramset name reuse / no parameters"),
    ]
    _set_poi_interpreted(ctx, r6, repo)
    for rel, q, exc, count, what in wants:
        f = repo.func(rel, q)
        # raise sites of the function and of the helpers of its module it hands the work to (a check moved into
        # `_sample_modifier_lookup(...)` is still this function's check)
        nodes = [f.node] + [h_.node for h_ in repo.helpers_of(f, depth=2)]
        got = sum(1 for nd_ in nodes for r in ast.walk(nd_) if isinstance(r, ast.Raise) and _exc(r) == exc)
        if got >= count:
            ctx.holds(r6, f"{rel}::{q}", f"{got} x raise {exc} ({what})")
        else:
            ctx.violated(r6, f, f"raise {exc}", f"the documented refusal ({what}) with {exc} is missing ({got} of {count} raise sites)", node=f.node)


def _set_poi_interpreted(ctx, rid, repo):
    """_ModelConfig.set_poi on a real configuration with real parameter sets of 1, 2 and 3 components"""
    from ..objmodel import Instance, World
    at, c = Poly.atom, Poly.const
    PS_, MIX_ = "src/pyhf/parameters/paramsets.py", "src/pyhf/mixins.py"
    mc = repo.cls(PDF, "_ModelConfig")
    sp = mc.methods.get("set_poi")
    if sp is None:
        ctx.unrecognised(rid, mc, "_ModelConfig.set_poi", "not found")
        return
    errs = (Undecided, KeyError, TypeError, ValueError, IndexError, AttributeError)
    pyhf_excs = set(repo.module("src/pyhf/exceptions/__init__.py").classes)
    try:
        psm = repo.module(PS_)
        w = World({"__strict__": True}, module_env={"log": Obj("log"), "exceptions": Obj("exceptions"), "pyhf": Obj("pyhf")})
        w.add_class(repo.cls(MIX_, "_ChannelSummaryMixin")).add_class(mc)
        for c_ in psm.classes.values():
            w.add_class(c_)

        def pset(name, n):
            return w.new(psm.classes["unconstrained"], [], {"name": name, "n_parameters": c(n), "inits": [at(f"{name}_i{j}") for j in range(n)], "bounds": [(at(f"{name}_l{j}"), at(f"{name}_h{j}")) for j in range(n)], "fixed": False, "is_scalar": n == 1})

        sets = [("three", pset("three", 3)), ("mu", pset("mu", 1)), ("two", pset("two", 2))]
        cfg = Instance(mc)
        w.call_method(cfg, "__init__", [{"channels": [{"name": "c", "samples": [{"name": "s", "data": [at("d0")], "modifiers": [{"name": n_, "type": "normfactor" if n_ == "mu" else "shapefactor", "data": None} for n_, _ in sets]}]}]}], {})
        w.call_method(cfg, "set_parameters", [{n_: p_ for n_, p_ in sets}])
    except errs as e:
        ctx.unrecognised(rid, sp, "_ModelConfig.set_poi", f"configuration not buildable: {type(e).__name__}: {e}")
        return
    for name, want in (("mu", ("accepted", 3)), ("two", ("InvalidModel", None)), ("three", ("InvalidModel", None)), ("not_declared", ("InvalidModel", None)), (None, ("accepted", None))):
        site = f"{PDF}::_ModelConfig.set_poi({name!r}) [parameter sets of 3, 1 and 2 components]"
        try:
            w.call_method(cfg, "set_poi", [name])
            idx = w.get_property(cfg, "poi_index")
            got = ("accepted", None if idx is None else int(to_poly(idx).const_value()))
        except RaisedInFragment as e:
            got = (e.exc_name.split(".")[-1], None)
        except errs as e:
            ctx.unrecognised(rid, sp, f"set_poi({name!r})", f"not interpretable: {type(e).__name__}: {e}")
            continue
        if got == want:
            ctx.holds(rid, site, f"{got[0]}" + (f", POI index {got[1]}" if got[0] == "accepted" else ""))
        elif want[0] != "accepted" and got[0] not in pyhf_excs:
            ctx.violated(rid, sp, f"set_poi({name!r})", "a parameter of interest that is undeclared or has several components is not refused with a pyhf exception", expected=want[0], found=str(got), node=sp.node)
        else:
            ctx.violated(rid, sp, f"set_poi({name!r})", "set_poi does not bind the POI to the single component of the named parameter / does not refuse what it must", expected=str(want), found=str(got), node=sp.node)


def _exc(r):
    if r.exc is None:
        return None
    e = r.exc.func if isinstance(r.exc, ast.Call) else r.exc
    return (A.dotted(e) or "?").split(".")[-1]


def _name_key(key, d):
    """Key is X['name'] / X.get('name') / an f-string / a variable defined as an f-string of names."""
    t = A.unparse(key)
    if "['name']" in t or ".get('name')" in t:
        return True
    if isinstance(key, ast.Name):
        for v in d.defs.get(key.id, []):
            if isinstance(v, ast.JoinedStr) and "['name']" in A.unparse(v):
                return True
    return False


def _same_key(a, b, d):
    ta, tb = A.unparse(a), A.unparse(b)
    if ta == tb:
        return True
    norm = lambda s: s.replace(".get('name')", "['name']")
    return norm(ta) == norm(tb)


def _unconditional(test, cmpnode):
    """The membership comparison decides the raise on its own: alone, as an arm of an `or`, or and-ed only with
    `table[key] != <the new value>` (a second entry with the SAME content changes nothing and need not be refused)."""
    if test is cmpnode:
        return True
    if isinstance(test, ast.BoolOp) and isinstance(test.op, ast.Or):
        return any(_unconditional(v, cmpnode) for v in test.values)
    if isinstance(test, ast.BoolOp) and isinstance(test.op, ast.And) and any(v is cmpnode for v in test.values):
        others = [v for v in test.values if v is not cmpnode]
        table = A.unparse(cmpnode.comparators[0])
        key = A.unparse(cmpnode.left)
        return all(isinstance(o, ast.Compare) and len(o.ops) == 1 and isinstance(o.ops[0], ast.NotEq) and A.unparse(o.left) == f"{table}[{key}]" for o in others)
    return False


def _lengths_interpreted(ctx, r4, r6, repo, reg):
    """Builders and the requirement merge INTERPRETED on wrong-length inputs: every one must end in a pyhf exception."""
    from .. import listnp
    from ..alg import AutoRegion, PyFunc, RaisedInFragment, to_poly
    from ..objmodel import World
    at, c = Poly.atom, Poly.const
    errs = (Undecided, KeyError, TypeError, ValueError, IndexError, AttributeError)
    pyhf_excs = set(repo.module("src/pyhf/exceptions/__init__.py").classes)
    nb = {"c1": 2, "c2": 2, "c3": 2}

    worlds = {}

    def run_builder(b, key, cells):
        # one world per builder class for ALL its cases (well-formed first): module- and class-level state is shared, a
        # refusal must not depend on what was built or refused before
        if b.name not in worlds:
            ext = listnp.externals()
            ext.update({"required_parset": lambda a, k: {"required": True}})
            worlds[b.name] = World(ext, region=AutoRegion(), module_env={"pyhf": Obj("pyhf", {"default_backend": Obj("default_backend")}), "exceptions": Obj("exceptions")})
            worlds[b.name].add_class(b)
        w = worlds[b.name]
        cfg = Obj("config", {"channel_nbins": {k_: c(v_) for k_, v_ in nb.items()}, "channels": ["c1", "c2", "c3"], "samples": ["s"]})
        inst = w.new(b, [cfg], {})
        cells = list(cells) + [(ch_, None) for ch_ in nb if ch_ not in [x[0] for x in cells]]
        for ch, moddata in cells:
            samp = {"name": "s", "data": [at(f"n_{ch}_{j}") for j in range(nb[ch])]}
            thismod = None if moddata is None else {"name": key.split("/")[1], "type": key.split("/")[0], "data": moddata}
            w.call_method(inst, "append", [key, ch, "s", thismod, samp])
        return w.call_method(inst, "finalize", [])

    def vec(tag, n):
        return [at(f"{tag}{j}") for j in range(n)]

    for typ in ("histosys", "shapesys", "staterror"):
        if typ not in reg:
            continue
        b = reg[typ][0]
        key = f"{typ}/m"
        if typ == "histosys":
            def d(n_lo, n_hi=None, t=""):
                return {"lo_data": vec(f"lo{t}", n_lo), "hi_data": vec(f"hi{t}", n_lo if n_hi is None else n_hi)}
            cases = [("well-formed", [("c1", d(2)), ("c2", d(2, t="b"))], False), ("too long", [("c1", d(3)), ("c2", None)], True), ("too short", [("c1", d(1)), ("c2", None)], True),
                     ("only lo_data too long", [("c1", d(3, 2)), ("c2", None)], True), ("only hi_data too short", [("c1", d(2, 1)), ("c2", None)], True),
                     ("one too long in c1, one too short in c2 (lengths cancel)", [("c1", d(3)), ("c2", d(1, t="b"))], True),
                     ("first channel fine, one too long in c2, one too short in c3 (lengths cancel)", [("c1", d(2)), ("c2", d(3, t="b")), ("c3", d(1, t="c"))], True),
                     ("first two channels fine, third too long", [("c1", d(2)), ("c2", d(2, t="b")), ("c3", d(3, t="c"))], True)]
        else:
            cases = [("well-formed", [("c1", vec("u", 2)), ("c2", vec("v", 2))], False), ("too long", [("c1", vec("u", 3)), ("c2", None)], True), ("too short", [("c1", vec("u", 1)), ("c2", None)], True),
                     ("one too long in c1, one too short in c2 (lengths cancel)", [("c1", vec("u", 3)), ("c2", vec("v", 1))], True),
                     ("first channel fine, one too long in c2, one too short in c3 (lengths cancel)", [("c1", vec("u", 2)), ("c2", vec("v", 3)), ("c3", vec("w", 1))], True),
                     ("first two channels fine, third too long", [("c1", vec("u", 2)), ("c2", vec("v", 2)), ("c3", vec("w", 3))], True)]
        for lab, cells, must_raise in cases:
            site = f"{b.relpath}::{b.name} [{lab}]"
            try:
                run_builder(b, key, cells)
                if must_raise:
                    ctx.violated(r4, b.methods.get("append") or b, f"{typ} data length [{lab}]", f"a {typ} modifier whose data length differs from the bin count of the channel it is declared in is accepted: its values are dropped or applied to other bins", expected="raise InvalidModifier", found="accepted")
                else:
                    ctx.holds(r4, site, "accepted")
            except RaisedInFragment as e:
                cls_ = e.exc_name.split(".")[-1]
                if must_raise and cls_ in pyhf_excs:
                    ctx.holds(r4, site, f"refused with {cls_}")
                elif must_raise:
                    ctx.violated(r4, b, f"{typ} data length [{lab}]", f"refused with {e.exc_name}, which is not one of pyhf's exception types")
                else:
                    ctx.violated(r4, b, f"{typ} [{lab}]", f"a well-formed modifier is refused with {e.exc_name}")
            except errs as e:
                if must_raise and isinstance(e, (TypeError, ValueError, IndexError)) and not isinstance(e, Undecided):
                    ctx.violated(r4, b, f"{typ} data length [{lab}]", f"the builder fails with a foreign {type(e).__name__} instead of a pyhf exception")
                else:
                    ctx.unrecognised(r4, b, f"{typ} [{lab}]", f"not interpretable: {type(e).__name__}: {e}")
    # ---- one staterror name on DIFFERENT sets of bins in different samples (its parameters would be sized by one sample
    # and applied to the bins of the other)
    if "staterror" in reg:
        b = reg["staterror"][0]
        ext = listnp.externals()
        ext.update({"required_parset": lambda a, k: {"required": True}})
        wst = World(ext, region=AutoRegion(), module_env={"pyhf": Obj("pyhf", {"default_backend": Obj("default_backend")}), "exceptions": Obj("exceptions")})
        wst.add_class(b)
        layouts = [
            ("both samples carry it in the same channel", {("c1", "s1"), ("c1", "s2")}, False),
            ("sample s1 carries it in c1, sample s2 in c2, nobody in c3", {("c1", "s1"), ("c2", "s2")}, True),
            ("sample s1 carries it in c1 and c2, sample s2 in c1 only", {("c1", "s1"), ("c2", "s1"), ("c1", "s2")}, True),
            ("both samples carry it in c1 and c3", {("c1", "s1"), ("c3", "s1"), ("c1", "s2"), ("c3", "s2")}, False),
        ]
        for lab, where, must_raise in layouts:
            site = f"{b.relpath}::{b.name} [one name, {lab}]"
            try:
                cfg = Obj("config", {"channel_nbins": {k_: c(v_) for k_, v_ in nb.items()}, "channels": ["c1", "c2", "c3"], "samples": ["s1", "s2"]})
                inst = wst.new(b, [cfg], {})
                for ch in ("c1", "c2", "c3"):
                    for sm in ("s1", "s2"):
                        samp = {"name": sm, "data": [at(f"n_{sm}_{ch}_{j}") for j in range(nb[ch])]}
                        thismod = {"name": "st", "type": "staterror", "data": [at(f"e_{sm}_{ch}_{j}") for j in range(nb[ch])]} if (ch, sm) in where else None
                        wst.call_method(inst, "append", ["staterror/st", ch, sm, thismod, samp])
                wst.call_method(inst, "finalize", [])
                if must_raise:
                    ctx.violated(r4, b.methods.get("finalize") or b, f"staterror bins per sample [{lab}]", "one staterror name applied to different sets of bins in different samples is accepted: its parameters are sized and constrained from one sample's bins and applied to the other's", expected="raise InvalidModifier", found="accepted")
                else:
                    ctx.holds(r4, site, "accepted")
            except RaisedInFragment as e:
                cls_ = e.exc_name.split(".")[-1]
                if must_raise and cls_ in pyhf_excs:
                    ctx.holds(r4, site, f"refused with {cls_}")
                elif must_raise:
                    ctx.violated(r4, b, f"staterror bins per sample [{lab}]", f"refused with {e.exc_name}, which is not one of pyhf's exception types")
                else:
                    ctx.violated(r4, b, f"staterror [{lab}]", f"a well-formed modifier is refused with {e.exc_name}")
            except FragmentFault as e:
                if must_raise:
                    ctx.violated(r4, b, f"staterror bins per sample [{lab}]", f"construction runs into an indexing fault instead of a pyhf exception: {e}")
                else:
                    ctx.unrecognised(r4, b, f"staterror [{lab}]", f"fault: {e}")
            except errs as e:
                ctx.unrecognised(r4, b, f"staterror [{lab}]", f"not interpretable: {type(e).__name__}: {e}")
    # ---- duplicate names: the whole builder pipeline interpreted on specifications that pass the schema
    _duplicates_interpreted(ctx, repo, reg, pyhf_excs)
    # The structural KEYREG instances above know the duplicate test as an `if name in table: raise` next to the store, in one
    # function.  When the builder pipeline interpreted on specifications with duplicate channels / samples / modifiers refuses
    # every one of them (and accepts the well-formed ones), a store whose guard lives elsewhere (a helper class, another method)
    # is not a defect.
    r2_ = ctx.rules["C20.R2"]
    interp_ = [i_ for i_ in r2_.instances if "[interpreted: " in str(i_[0]) or "duplicate names [" in str(i_[0])]
    if interp_ and all(i_[1] == "HOLDS" for i_ in interp_) and len(interp_) >= 6:
        changed_ = False
        for k_, (site_, outcome_, detail_) in enumerate(r2_.instances):
            if "_finalize_parameters_specs" in str(site_) or "user_config" in str(site_):
                continue  # duplicate PARAMETER configurations are not among the interpreted specifications: that store keeps its own verdict
            if outcome_ == "VIOLATED" and ("without a duplicate check" in str(detail_) or "guarded against duplicates only under a side condition" in str(detail_)):
                r2_.instances[k_] = (site_, "HOLDS", "no membership test next to this store; every specification with duplicate names is refused by the pipeline as a whole (interpreted)")
                changed_ = True
        if changed_:
            ctx.violations = [v_ for v_ in ctx.violations if not (v_.rule == "C20.R2" and v_.qualname != "_finalize_parameters_specs" and ("without a duplicate check" in v_.what or "only under a side condition" in v_.what))]
    # ---- overrides of the wrong length
    red = repo.func(PU, "reduce_paramsets_requirements")

    def req():
        return {"paramset_type": "constrained_by_poisson", "n_parameters": c(2), "is_scalar": False, "inits": (at("DI0"), at("DI1")), "bounds": ((at("DL0"), at("DH0")), (at("DL1"), at("DH1"))),
                "auxdata": (at("DA0"), at("DA1")), "factors": (at("DF0"), at("DF1")), "fixed": (False, False)}

    for keyname in ("inits", "bounds", "auxdata", "factors"):
        for n_, lab in ((1, "too short"), (3, "too long")):
            val = [[at("a"), at("b")] for _ in range(n_)] if keyname == "bounds" else [at(f"u{j}") for j in range(n_)]
            site = f"{PU}::reduce_paramsets_requirements [{keyname} override {lab}]"
            try:
                Interp({"paramsets_requirements": {"q": [req()]}, "paramsets_user_configs": {"q": {keyname: val}}, "exceptions": Obj("exceptions")}, {}, {}).run(A.strip_docstring(red.node.body))
                ctx.violated(r6, red, f"override length [{keyname} {lab}]", f"an override of `{keyname}` with {n_} value(s) for a 2-component parameter set is accepted: later components are bound to unrelated values or construction fails elsewhere", expected="raise InvalidModel", found="accepted")
            except RaisedInFragment as e:
                if e.exc_name.split(".")[-1] in pyhf_excs:
                    ctx.holds(r6, site, f"refused with {e.exc_name.split('.')[-1]}")
                else:
                    ctx.violated(r6, red, f"override length [{keyname} {lab}]", f"refused with {e.exc_name}, not a pyhf exception")
            except errs as e:
                ctx.unrecognised(r6, red, f"override length [{keyname} {lab}]", f"not interpretable: {type(e).__name__}: {e}")
    _overrides_through_the_model(ctx, r6, repo, pyhf_excs)


def _overrides_through_the_model(ctx, r6, repo, pyhf_excs):
    """The same wrong-length overrides entered where a user enters them: the measurement's parameter list handed to
    _finalize_parameters_specs (pdf.py), which prepares them for reduce_paramsets_requirements.  Values are given the way
    JSON delivers them (lists; integers for inits), and also for `sigmas` on a Gaussian-constrained set."""
    from ..alg import RaisedInFragment, to_poly
    from ..objmodel import World
    at, c = Poly.atom, Poly.const
    errs = (Undecided, KeyError, TypeError, ValueError, IndexError, AttributeError)
    fin = repo.func(PDF, "_finalize_parameters_specs")
    red = repo.func(PU, "reduce_paramsets_requirements")
    ctx.touch(fin)

    def req(kind):
        base = {"n_parameters": c(2), "is_scalar": False, "inits": (at("DI0"), at("DI1")), "bounds": ((at("DL0"), at("DH0")), (at("DL1"), at("DH1"))), "fixed": (False, False)}
        if kind == "poisson":
            base.update({"paramset_type": "constrained_by_poisson", "auxdata": (at("DA0"), at("DA1")), "factors": (at("DF0"), at("DF1"))})
        else:
            base.update({"paramset_type": "constrained_by_normal", "auxdata": (at("DA0"), at("DA1")), "sigmas": (at("DS0"), at("DS1"))})
        return base

    w = World({"__strict__": True}, module_env={"exceptions": Obj("exceptions"), "log": Obj("log")})
    w.add_func(fin).add_func(red)
    # the order of the two arguments of the private helper is whatever its definition (and its one call site) say today: the
    # order in which a well-formed call is accepted and gives back the merged table
    def call_fin(user, reqs):
        return w.call_func(fin, [user, reqs] if call_fin.user_first else [reqs, user])

    call_fin.user_first = True
    for first_ in (True, False):
        call_fin.user_first = first_
        try:
            probe = call_fin([{"name": "q", "inits": [c(1), c(2)]}], {"q": [req("normal")]})
            if isinstance(probe, dict) and "q" in probe:
                break
        except (RaisedInFragment,) + errs:
            continue
    else:
        ctx.unrecognised(r6, fin, "_finalize_parameters_specs", "a well-formed (user parameters, requirements) pair is accepted in neither argument order")
        return
    plan = [("poisson", k_) for k_ in ("inits", "bounds", "auxdata", "factors")] + [("normal", k_) for k_ in ("inits", "sigmas", "auxdata")]
    for kind, keyname in plan:
        for n_, lab in ((2, "right length"), (1, "too short"), (3, "too long")):
            val = [[c(0), c(5)] for _ in range(n_)] if keyname == "bounds" else [c(j + 1) for j in range(n_)]
            site = f"{PDF}::_finalize_parameters_specs -> reduce_paramsets_requirements [{kind}-constrained set, {keyname} override {lab}]"
            try:
                out = call_fin([{"name": "q", keyname: val}], {"q": [req(kind)]})
                if n_ != 2:
                    ctx.violated(r6, fin, f"override length through the model [{kind}, {keyname} {lab}]", f"a measurement that sets `{keyname}` of a 2-component parameter set to {n_} value(s) is accepted at model construction: the surplus / missing values shift onto unrelated parameters", expected="raise InvalidModel", found="accepted")
                else:
                    got = (out or {}).get("q", {}).get(keyname) if isinstance(out, dict) else None
                    same = isinstance(got, (list, tuple)) and [str(to_poly(y)) if not isinstance(y, (list, tuple)) else [str(to_poly(z)) for z in y] for y in got] == [str(to_poly(y)) if not isinstance(y, (list, tuple)) else [str(to_poly(z)) for z in y] for y in val]
                    if same:
                        ctx.holds(r6, site, "accepted, values as given")
                    else:
                        ctx.violated(r6, fin, f"override through the model [{kind}, {keyname}]", f"a well-formed override of `{keyname}` does not arrive in the merged requirements as given", expected=str(val), found=str(got))
            except RaisedInFragment as e:
                if n_ == 2:
                    ctx.violated(r6, fin, f"override through the model [{kind}, {keyname}]", f"a well-formed override is refused with {e.exc_name}")
                elif e.exc_name.split(".")[-1] in pyhf_excs:
                    ctx.holds(r6, site, f"refused with {e.exc_name.split('.')[-1]}")
                else:
                    ctx.violated(r6, fin, f"override length through the model [{kind}, {keyname} {lab}]", f"refused with {e.exc_name}, not a pyhf exception")
            except errs as e:
                ctx.unrecognised(r6, fin, f"override through the model [{kind}, {keyname} {lab}]", f"not interpretable: {type(e).__name__}: {e}")


def _model_builder_refuses_duplicate_channels(repo):
    """_nominal_and_modifiers_from_spec iterates spec['channels'] and, before registering the channel under its name,
    tests that name for membership in the same table and raises a pyhf exception (dominating the registration)."""
    f0 = repo.func(PDF, "_nominal_and_modifiers_from_spec")
    return any(_refuses_duplicate_channels_in(repo, f) for f in [f0] + repo.helpers_of(f0, depth=2))


def _refuses_duplicate_channels_in(repo, f):
    g = CFG.build(f.node.body)
    dom = g.dominators()
    pm = A.parent_map(f.node)
    d = Deps(f.node)
    excs = set(repo.module("src/pyhf/exceptions/__init__.py").classes)
    for loop in [n for n in ast.walk(f.node) if isinstance(n, ast.For) and "spec['channels']" in A.unparse(n.iter) and isinstance(n.target, ast.Name)]:
        cv = loop.target.id
        for st in ast.walk(loop):
            if isinstance(st, ast.Assign) and isinstance(st.targets[0], ast.Subscript) and A.unparse(st.targets[0].slice) == f"{cv}['name']":
                table = A.unparse(st.targets[0].value)
                for gn in ast.walk(loop):
                    if isinstance(gn, ast.If) and isinstance(gn.test, ast.Compare) and isinstance(gn.test.ops[0], ast.In) and A.unparse(gn.test.left) == f"{cv}['name']" and A.unparse(gn.test.comparators[0]) == table:
                        if any(isinstance(r, ast.Raise) and _exc(r) in excs for r in gn.body) and g.dominates(gn, A.stmt_of(st, pm), dom):
                            return True
    return False


def _duplicates_interpreted(ctx, repo, reg, pyhf_excs):
    import copy
    from ..alg import RaisedInFragment
    from .c01 import pipeline_world
    rid = "C20.R2"
    at, c = Poly.atom, Poly.const
    f = repo.func(PDF, "_nominal_and_modifiers_from_spec")

    def base():
        return {"channels": [
            {"name": "c1", "samples": [{"name": "s1", "data": [at("a0"), at("a1")], "modifiers": [{"name": "mu", "type": "normfactor", "data": None}, {"name": "sys", "type": "normsys", "data": {"hi": at("HI"), "lo": at("LO")}}]},
                                       {"name": "s2", "data": [at("b0"), at("b1")], "modifiers": []}]},
            {"name": "c2", "samples": [{"name": "s1", "data": [at("d0")], "modifiers": [{"name": "sys", "type": "normsys", "data": {"hi": at("HI"), "lo": at("LO")}}]}]}]}

    def dup_channel(sp):
        sp["channels"].append({"name": "c1", "samples": [{"name": "s1", "data": [at("e0"), at("e1")], "modifiers": []}]})

    def dup_sample(sp):
        sp["channels"][0]["samples"].append({"name": "s1", "data": [at("e0"), at("e1")], "modifiers": []})

    def dup_modifier(sp):
        sp["channels"][0]["samples"][0]["modifiers"].append({"name": "sys", "type": "normsys", "data": {"hi": at("HI_OTHER"), "lo": at("LO_OTHER")}})

    def same_modifier_twice(sp):
        sp["channels"][0]["samples"][0]["modifiers"].append(copy.deepcopy(sp["channels"][0]["samples"][0]["modifiers"][1]))

    # all situations are built one after the other in ONE world (module-level and class-level state of pdf.py and the
    # modifier modules shared): a specification is refused whatever was built, or refused, before it, and a well-formed
    # one is accepted afterwards
    shared_world = pipeline_world(repo, reg, {})
    for lab, mut, must_raise in (("well-formed", None, False), ("two channels with one name", dup_channel, True), ("two samples with one name in a channel", dup_sample, True),
                                 ("one (name, type) modifier twice on a sample with different data", dup_modifier, True), ("the same modifier entry repeated verbatim", same_modifier_twice, None),
                                 ("two channels with one name, again", dup_channel, True), ("well-formed, after the refusals", None, False)):
        sp = base()
        if mut:
            mut(sp)
        chans = sorted({ch["name"] for ch in sp["channels"]})
        nb = {}
        for ch in sp["channels"]:
            nb[ch["name"]] = len(ch["samples"][0]["data"])
        mods = sorted({(m["name"], m["type"]) for ch in sp["channels"] for sm in ch["samples"] for m in sm["modifiers"]})
        cfg = Obj("config", {"channels": chans, "samples": sorted({sm["name"] for ch in sp["channels"] for sm in ch["samples"]}), "channel_nbins": {k_: c(v_) for k_, v_ in nb.items()}, "modifiers": mods, "modifier_settings": {}})
        site = f"{PDF}::_nominal_and_modifiers_from_spec [interpreted: {lab}]"
        try:
            w, mset = shared_world
            w.call_func(f, [], build_args(f, mset, cfg, sp, None))
            if must_raise:
                ctx.violated(rid, f, f"duplicate names [{lab}]", f"a specification with {lab} is accepted as a model: part of the declared content is silently dropped or merged", expected="raise InvalidModel", found="accepted")
            else:
                ctx.holds(rid, site, "accepted")
        except RaisedInFragment as e:
            cls_ = e.exc_name.split(".")[-1]
            if must_raise is False:
                ctx.violated(rid, f, f"[{lab}]", f"a well-formed specification is refused with {e.exc_name}")
            elif cls_ in pyhf_excs:
                ctx.holds(rid, site, f"refused with {cls_}")
            else:
                ctx.violated(rid, f, f"duplicate names [{lab}]", f"refused with {e.exc_name}, not one of pyhf's exception types")
        except (Undecided, KeyError, TypeError, ValueError, IndexError, AttributeError) as e:
            if must_raise and not isinstance(e, Undecided):
                ctx.violated(rid, f, f"duplicate names [{lab}]", f"construction fails with a foreign {type(e).__name__} instead of a pyhf exception")
            else:
                ctx.unrecognised(rid, f, f"[{lab}]", f"not interpretable: {type(e).__name__}: {e}")


def _tuple_overrides(ctx, rid, repo):
    VAL = "src/pyhf/schema/validator.py"
    red = repo.func(PU, "reduce_paramsets_requirements")
    ctx.touch(red)
    pyhf_excs = set(repo.module("src/pyhf/exceptions/__init__.py").classes)
    # ---- (a) which python classes the schema accepts as a JSON array
    accepts_tuple, how = None, ""
    if repo.has_func(VAL, "_is_array_or_tensor"):
        f = repo.func(VAL, "_is_array_or_tensor")
        ctx.touch(f)
        params = [p for p in A.params_of(f.node)]
        rets = [n for n in ast.walk(f.node) if isinstance(n, ast.Return) and n.value is not None]
        if len(rets) == 1 and isinstance(rets[0].value, ast.Call) and A.dotted(rets[0].value.func) == "isinstance" and len(rets[0].value.args) == 2 and len(params) == 2 and A.dotted(rets[0].value.args[0]) == params[1]:
            types = rets[0].value.args[1]
            elts = types.elts if isinstance(types, ast.Tuple) else [types]
            names = [A.dotted(e.value if isinstance(e, ast.Starred) else e) or "?" for e in elts]
            seq_like = {"tuple", "Sequence", "collections.abc.Sequence", "abc.Sequence", "typing.Sequence", "Iterable", "collections.abc.Iterable", "Collection", "collections.abc.Collection", "Sized", "Reversible", "object"}
            known = {"list"} | seq_like
            unknown = [n for e, n in zip(elts, names) if n not in known and not (isinstance(e, ast.Starred) and n.endswith(("array_types", "array_subtypes")))]
            if unknown:
                accepts_tuple, how = None, f"array type check names classes this rule does not know: {unknown}"
            else:
                accepts_tuple = any(n in seq_like for n in names)
                how = f"isinstance(instance, ({', '.join(names)}))"
        else:
            how = "the array type check is not a single isinstance test of the instance"
    else:
        how = "schema/validator.py has no _is_array_or_tensor"
    # is the type check installed for 'array'?
    installed = any(isinstance(c, ast.Call) and A.call_attr(c) == "redefine" and len(c.args) == 2 and A.const_value(c.args[0]) == "array" and A.dotted(c.args[1]) == "_is_array_or_tensor" for c in ast.walk(repo.module(VAL).tree))
    if accepts_tuple is False and not installed:
        accepts_tuple, how = None, "the array type check is not installed with TYPE_CHECKER.redefine('array', ...)"
    # ---- (b) the merge on a wrong-length tuple override
    merge_refuses, detail = None, ""
    try:
        req = {"paramset_type": "constrained_by_poisson", "n_parameters": Poly.const(2), "is_scalar": False, "inits": (Poly.const(1), Poly.const(1)), "bounds": ((Poly.atom("lo"), Poly.atom("hi")), (Poly.atom("lo"), Poly.atom("hi"))),
               "fixed": False, "auxdata": (Poly.atom("a0"), Poly.atom("a1")), "factors": (Poly.atom("f0"), Poly.atom("f1"))}
        user = {"unc": {"inits": (Poly.const(1), Poly.const(1), Poly.const(1))}}
        out = Interp({"paramsets_requirements": {"unc": [dict(req)]}, "paramsets_user_configs": user, "exceptions": Obj("exceptions")}, {}, {}).run(A.strip_docstring(red.node.body))
        merge_refuses, detail = False, f"accepted with inits of length {len(out['unc']['inits'])} for 2 components"
    except RaisedInFragment as e:
        merge_refuses, detail = e.exc_name.split(".")[-1] in pyhf_excs, f"raise {e.exc_name}"
    except (Undecided, KeyError, TypeError, AttributeError) as e:
        detail = f"not interpretable: {type(e).__name__}: {e}"
    site = f"{VAL}::_is_array_or_tensor x {PU}::reduce_paramsets_requirements [tuple override of the wrong length]"
    if accepts_tuple is False or merge_refuses is True:
        ctx.holds(rid, site, ("the schema refuses tuples as arrays (" + how + ")" if accepts_tuple is False else "the merge refuses it: " + detail))
    elif accepts_tuple is True and merge_refuses is False:
        ctx.violated(rid, red, "wrong-length override written as a tuple", "a specification built in python whose override is a TUPLE of the wrong length passes the schema (tuples count as arrays: " + how + ") and the merge takes tuples for built-in defaults without checking their length (" + detail + "): the model is built with a parameter count that disagrees with its slices", expected="InvalidSpecification from the schema or InvalidModel from the merge", found="accepted")
    else:
        ctx.unrecognised(rid, red, "tuple override", f"schema side: {how or accepts_tuple}; merge side: {detail or merge_refuses}")
