"""C18 -- export to HistFactory XML+ROOT and re-import preserves the model (structural necessary conditions).

  R1 TABLE  writer's type->tag map and the reader's tag->type chain are inverse on the exportable
            types; every attribute the reader requires of an element is emitted by the writer
  R2 UNIT   reader o writer == identity for the relative/absolute conversions: luminosity uncertainty,
            StatError and ShapeSys histograms, OverallSys High/Low, NormFactor Val/Low/High,
            HistoSys low/high histograms
  R3 TABLE  ROOT parameter-name prefixes: writer == compat.paramset_to_rootnames, and
            compat.interpret_rootname inverts them
  R4 CACHE  the module-level file cache cannot serve data of a previous import for a different file:
            parse() starts from an empty cache (or keys carry file identity); the ROOT output handle is
            bound only by writexml's `with` block and only used beneath it
"""

from __future__ import annotations

import ast

from .. import astutil as A
from .. import rxmodel
from ..alg import Interp, Obj, Poly, Undecided, fn, to_poly

EXPLANATION = (
    "Writer (writexml.py) and reader (readxml.py) are compared as tables (modifier type <-> XML tag, attributes "
    "emitted vs attributes required, parameter-name prefixes vs pyhf.compat) and, for every field that changes "
    "units on the way, by composing the writer's and the reader's expressions symbolically (exact rational "
    "functions over atoms sigma, L, nominal, uncertainty): the composition must be the identity. The cache rule "
    "requires that readxml.parse clears the module-level ROOT file cache before importing (the cache key is only "
    "the resolved path, so a rewritten file would otherwise be served from the old handle) and that the writer's "
    "global output handle is used only under the `with` that binds it. NOT decided: equality of likelihoods after "
    "the round trip, uproot I/O, DTD conformance."
)
ASSUMPTIONS = ["HistFactory XML semantics: LumiRelErr relative, StatError/ShapeSys histograms relative to the nominal", "uproot.open(path) returns a handle to the file content at open time"]
W, R, C = "src/pyhf/writexml.py", "src/pyhf/readxml.py", "src/pyhf/compat.py"
MODVAR, MEASVAR = "modtag", "x"
EXPORTABLE = {"histosys", "staterror", "normsys", "shapesys", "normfactor", "shapefactor"}


def run(ctx):
    repo = ctx.repo
    bm = repo.func(W, "build_modifier")
    bmeas = repo.func(W, "build_measurement")
    bs = repo.func(W, "build_sample")
    wx = repo.func(W, "writexml")
    ps = repo.func(R, "process_sample")
    pmz = repo.func(R, "process_measurements")
    parse = repo.func(R, "parse")
    irh = repo.func(R, "import_root_histogram")
    for f in (bm, bmeas, bs, wx, ps, pmz, parse, irh):
        ctx.touch(f)
    r1 = ctx.rule("C18.R1", "TABLE: writer mod_map (type->tag) is the inverse of the reader's tag chain (tag->type) on the six exportable types; for each tag the attributes the reader indexes unconditionally are emitted by the writer", "TABLE", floor=14)
    r2 = ctx.rule("C18.R2", "UNIT: reader(writer(x)) == x for LumiRelErr (relative), Lumi, StatError and ShapeSys histograms (relative to nominal), OverallSys High/Low, HistoSys Low/High (NormFactor Val/Low/High: see R5)", "UNIT", floor=6)
    r3 = ctx.rule("C18.R3", "TABLE: writer prefixes {normsys, histosys: alpha_; shapesys, staterror: gamma_; lumi: Lumi} == compat.paramset_to_rootnames; compat.interpret_rootname maps them back", "TABLE", floor=5)
    r4 = ctx.rule("C18.R4", "CACHE: readxml.parse empties the module-level ROOT file cache before importing (or the cache key carries file identity); only import_root_histogram/clear_filecache write the cache; writexml's global ROOT handle is bound by its `with` and every function reading it is called only beneath that `with`", "CACHE", floor=4)

    # ------------------------------------------------------------ R1
    mod_map = None
    for n in ast.walk(bm.node):
        if isinstance(n, ast.Dict) and len(n.keys) >= 5 and all(isinstance(A.const_value(k), str) for k in n.keys) and all(isinstance(A.const_value(v), str) for v in n.values):
            mod_map = {A.const_value(k): A.const_value(v) for k, v in zip(n.keys, n.values)}
    if mod_map is None:
        ctx.unrecognised(r1, bm, "mod_map", "type->tag dict literal not found")
        return
    global MODVAR, MEASVAR
    MODVAR = next((A.unparse(n.target) for n in ast.walk(ps.node) if isinstance(n, ast.For) and any(".tag" in A.unparse(x) for x in ast.walk(n))), "modtag")
    MEASVAR = next((A.unparse(n.target) for n in ast.walk(pmz.node) if isinstance(n, ast.For) and "Measurement" in A.unparse(n.iter)), "x")
    reader_chain = {}  # tag -> (type, required attrs, optional attrs)
    for n in ast.walk(ps.node):
        if isinstance(n, ast.If):
            tag = _tag_of(n.test)
            if tag:
                typ = None
                for d in ast.walk(ast.Module(body=n.body, type_ignores=[])):
                    if isinstance(d, ast.Dict):
                        for k, v in zip(d.keys, d.values):
                            if A.const_value(k) == "type" and isinstance(A.const_value(v), str):
                                typ = typ or A.const_value(v)
                req, opt = set(), set()
                for d in ast.walk(ast.Module(body=n.body, type_ignores=[])):
                    if isinstance(d, ast.Subscript) and A.dotted(d.value) == f"{MODVAR}.attrib" and isinstance(A.const_value(d.slice), str):
                        req.add(A.const_value(d.slice))
                    if isinstance(d, ast.Call) and A.call_attr(d) == "get" and A.dotted(d.func.value) == f"{MODVAR}.attrib" and d.args:
                        opt.add(A.const_value(d.args[0]))
                for d in ast.walk(n.test):
                    if isinstance(d, ast.Subscript) and A.dotted(d.value) == f"{MODVAR}.attrib":
                        req.add(A.const_value(d.slice))
                reader_chain[tag] = (typ, req - opt, opt)  # a key that is also probed with .get() is optional
    writer_attrs = _writer_attrs(bm)
    for typ in sorted(EXPORTABLE):
        tag = mod_map.get(typ)
        if tag is None:
            ctx.violated(r1, bm, f"mod_map[{typ!r}]", f"modifier type {typ!r} has no XML tag: it is dropped on export", node=bm.node)
            continue
        back = reader_chain.get(tag)
        if back is None or back[0] != typ:
            ctx.violated(r1, ps, f"tag {tag}", f"the writer exports {typ!r} as <{tag}> but the reader maps <{tag}> to {back[0] if back else 'nothing'!r}", expected=typ, found=str(back[0] if back else None))
            continue
        ctx.holds(r1, f"{typ} <-> <{tag}>", "writer and reader tables are inverse")
        emitted = writer_attrs.get(typ, set())
        missing = back[1] - emitted
        if missing:
            ctx.violated(r1, bm, f"attributes of <{tag}>", f"the reader requires attribute(s) {sorted(missing)} of <{tag}> that the writer does not emit (KeyError on re-import)", expected=str(sorted(back[1])), found=str(sorted(emitted)))
        else:
            ctx.holds(r1, f"<{tag}> attributes", f"reader requires {sorted(back[1])} subset of emitted {sorted(emitted)}")
    # Measurement / Sample attributes
    meas_emit = set()
    for c in A.calls_in(bmeas.node):
        if A.call_attr(c) == "Element" and c.args and A.const_value(c.args[0]) == "Measurement":
            meas_emit = {k.arg for k in c.keywords if k.arg}
    meas_req = {A.const_value(n.slice) for n in ast.walk(pmz.node) if isinstance(n, ast.Subscript) and A.dotted(n.value) == f"{MEASVAR}.attrib"}
    if meas_req <= meas_emit and meas_req:
        ctx.holds(r1, "<Measurement> attributes", f"reader requires {sorted(meas_req)} subset of emitted {sorted(meas_emit)}")
    else:
        ctx.violated(r1, bmeas, "Measurement attributes", "the reader requires Measurement attributes the writer does not emit", expected=str(sorted(meas_req)), found=str(sorted(meas_emit)))
    samp_emit = set()
    for n in ast.walk(bs.node):
        if isinstance(n, ast.Dict) and any(A.const_value(k) == "HistoName" for k in n.keys if k is not None):
            samp_emit = {A.const_value(k) for k in n.keys if k is not None}
    samp_req = {A.const_value(n.slice) for n in ast.walk(ps.node) if isinstance(n, ast.Subscript) and A.dotted(n.value) == "sample.attrib"}
    if samp_req and samp_req <= samp_emit:
        ctx.holds(r1, "<Sample> attributes", f"reader requires {sorted(samp_req)} subset of emitted {sorted(samp_emit)}")
    else:
        ctx.violated(r1, bs, "Sample attributes", "the reader requires Sample attributes the writer does not emit", expected=str(sorted(samp_req)), found=str(sorted(samp_emit)))
    # lumi <-> NormalizeByTheory
    nbt_w = any(isinstance(n, ast.If) and "'lumi'" in A.unparse(n.test) and "NormalizeByTheory" in A.unparse(ast.Module(body=n.body, type_ignores=[])) for n in ast.walk(bs.node))
    nbt_r = any(isinstance(n, ast.If) and "NormalizeByTheory" in A.unparse(n.test) and "'lumi'" in A.unparse(ast.Module(body=n.body, type_ignores=[])) for n in ast.walk(ps.node))
    if nbt_w and nbt_r:
        ctx.holds(r1, "lumi <-> NormalizeByTheory='True'", "both directions")
    else:
        ctx.violated(r1, bs if not nbt_w else ps, "NormalizeByTheory", "the luminosity modifier is not carried by NormalizeByTheory='True' in both directions")

    # ------------------------------------------------------------ R2 lumi
    S, L = Poly.atom("SIGMA"), Poly.atom("LUMI")
    made = []
    ext = {"Element": lambda a, k: (made.append((a, k)) or Obj(f"el{len(made)}")), "str": lambda a, k: a[0], "float": lambda a, k: a[0]}
    try:
        mspec = {"name": "meas", "config": {"poi": "mu", "parameters": [{"name": "lumi", "auxdata": [L], "sigmas": [S]}]}}
        Interp({"measurementspec": mspec, "modifiertypes": {"lumi": "lumi"}, "ET": Obj("ET")}, {}, {}, externals=ext).run(A.strip_docstring(bmeas.node.body))
        kw = next(k for a, k in made if a and a[0] == "Measurement")
        w_lumi, w_rel = to_poly(kw["Lumi"]), to_poly(kw["LumiRelErr"])
        # reader: the statements assigning lumi / lumierr and the dict that stores them
        renv = {MEASVAR: Obj("x", {"attrib": {"Lumi": w_lumi, "LumiRelErr": w_rel, "Name": "meas"}})}
        rit = Interp(renv, {}, {}, externals={"float": lambda a, k: a[0]})
        stmts = [st for st in ast.walk(pmz.node) if isinstance(st, ast.Assign) and isinstance(st.targets[0], ast.Name) and any(isinstance(x, ast.Subscript) and A.dotted(x.value) == f"{MEASVAR}.attrib" and A.const_value(x.slice) in ("Lumi", "LumiRelErr") for x in ast.walk(st.value))]
        for st in sorted(stmts, key=lambda s: s.lineno):
            rit.exec(st)
        pdict = next(d for d in ast.walk(pmz.node) if isinstance(d, ast.Dict) and any(A.const_value(k) == "sigmas" for k in d.keys if k is not None))
        vals = {A.const_value(k): rit.eval(v) for k, v in zip(pdict.keys, pdict.values) if A.const_value(k) in ("auxdata", "sigmas", "inits")}
        got_s, got_l = to_poly(vals["sigmas"][0]), to_poly(vals["auxdata"][0])
        if got_l == L:
            ctx.holds(r2, "lumi central value", "reader(writer(L)) == L")
        else:
            ctx.violated(r2, bmeas, "Lumi", "the luminosity central value does not survive the round trip", expected="LUMI", found=str(got_l))
        if got_s == S:
            ctx.holds(r2, "lumi uncertainty", f"writer emits LumiRelErr = {w_rel}; reader multiplies by Lumi -> SIGMA")
        else:
            ctx.violated(r2, bmeas, "LumiRelErr", f"the luminosity uncertainty does not survive the round trip: the writer stores {w_rel} in the *relative* attribute LumiRelErr and the reader multiplies it by Lumi", expected="SIGMA", found=str(got_s))
    except (Undecided, StopIteration, KeyError, IndexError, TypeError) as e:
        ctx.unrecognised(r2, bmeas, "lumi round trip", f"not interpretable: {type(e).__name__}: {e}")

    # ------------------------------------------------------------ R2 per-modifier conversions
    _unit_modifiers(ctx, r2, bm, ps)
    r5 = ctx.rule("C18.R5", "ROUNDTRIP: writer and reader COMPOSED by interpretation (XML elements and the ROOT histogram store are modelled; numbers travel as text and back): a channel with two samples carrying all seven modifier types, its observation and two measurements (one with a fixed luminosity, a configured normalisation factor and a fixed constrained parameter; one in which nothing is constant) are written by build_channel / build_measurement and read by process_channel / process_measurements; channel name, observation, sample names and yields, every modifier with its data, the POI, the luminosity value and width, the normfactor settings and the constant flags must come back (positive and negative yields)", "ROUNDTRIP", floor=2)
    _roundtrip(ctx, r5, repo)
    _whole_files(ctx, r5, repo)

    # ------------------------------------------------------------ R3
    prefixes = None
    bm_nodes = list(repo.walk_with_tables(bmeas))
    for h_ in repo.helpers_of(bmeas, depth=2):  # ... or of a helper the function hands the naming to
        bm_nodes.extend(repo.walk_with_tables(h_))
    for n in bm_nodes:  # the table may be a local of the function or a (possibly imported) module-level constant it reads
        if isinstance(n, ast.Dict) and n.values and all(k is not None for k in n.keys) and all(A.const_value(v) in ("alpha_", "gamma_", "") for v in n.values):
            prefixes = {A.const_value(k): A.const_value(v) for k, v in zip(n.keys, n.values)}
    want = {"normsys": "alpha_", "histosys": "alpha_", "shapesys": "gamma_", "staterror": "gamma_"}
    if prefixes == want:
        ctx.holds(r3, f"{W}::build_measurement prefixes", str(prefixes))
    else:
        ctx.violated(r3, bmeas, "prefixes", "constant-parameter names are not written with the HistFactory prefixes compat.paramset_to_rootnames uses", expected=str(want), found=str(prefixes))
    lumi_name = any(isinstance(n, ast.If) and "'lumi'" in A.unparse(n.test) and "'Lumi'" in A.unparse(ast.Module(body=n.body, type_ignores=[])) for n in bm_nodes)
    if lumi_name:
        ctx.holds(r3, f"{W}::build_measurement", "lumi -> 'Lumi'")
    else:
        ctx.violated(r3, bmeas, "Lumi name", "a constant luminosity is not written as 'Lumi'")
    ptr = repo.func(C, "paramset_to_rootnames")
    irn = repo.func(C, "interpret_rootname")
    ctx.touch(ptr)
    ctx.touch(irn)
    for spec, wantv in ((Obj("p", {"name": "lumi", "is_scalar": True, "constrained": True, "n_parameters": Poly.const(1)}), "Lumi"),
                        (Obj("p", {"name": "x", "is_scalar": True, "constrained": True, "n_parameters": Poly.const(1)}), "alpha_"),
                        (Obj("p", {"name": "x", "is_scalar": True, "constrained": False, "n_parameters": Poly.const(1)}), "plain")):
        try:
            v = Interp({"paramset": spec}, {}, {}).run(A.strip_docstring(ptr.node.body))
            txt = A.unparse(next(r.value for r in ast.walk(ptr.node) if isinstance(r, ast.Return)))
            ok = (v == "Lumi") if wantv == "Lumi" else (v == ("alpha_x" if wantv == "alpha_" else "x"))
            if ok:
                ctx.holds(r3, f"{C}::paramset_to_rootnames [{wantv}]")
            else:
                ctx.violated(r3, ptr, f"paramset_to_rootnames [{wantv}]", "compat name for this kind of parameter changed", found=str(v))
        except Undecided as e:
            ctx.unrecognised(r3, ptr, "paramset_to_rootnames", str(e))
    fstrs = [A.unparse(n) for n in ast.walk(ptr.node) if isinstance(n, ast.JoinedStr)]
    if any(s.startswith("f'alpha_{") for s in fstrs) and any(s.startswith("f'gamma_{") and "}_{" in s for s in fstrs):
        ctx.holds(r3, f"{C}::paramset_to_rootnames", "alpha_<name>, gamma_<name>_<i>")
    else:
        ctx.violated(r3, ptr, "rootname formats", "compat no longer produces alpha_<name> / gamma_<name>_<index>", found=str(fstrs))
    # round trip through both compat functions, by interpretation (regular expressions are evaluated on the concrete
    # names): the parameter-set name is chosen so that prefix-character stripping, greedy matching and digit
    # handling all show ("amp_lag_2x" starts with characters of both prefixes and carries digits and underscores)

    rx = rxmodel.externals()
    rx_env = rxmodel.compiled_globals(repo.module(C))
    kinds = [("luminosity", {"name": "lumi", "is_scalar": True, "constrained": True, "n_parameters": Poly.const(1)}, {"name": "lumi", "is_scalar": True})]
    # "amp_lag_2x": starts with characters of both prefixes, digits and underscores inside; "JES_1", "stat_ch_7_12": the name
    # itself ends in _<digits>, which is what the per-bin suffix looks like
    # "pdf_alpha_s", "tt_gamma_norm_3": the name itself CONTAINS a prefix string further inside
    for NAME in ("amp_lag_2x", "JES_1", "stat_ch_7_12", "pdf_alpha_s", "tt_gamma_norm_3"):
        kinds += [(f"scalar constrained {NAME}", {"name": NAME, "is_scalar": True, "constrained": True, "n_parameters": Poly.const(1)}, {"name": NAME, "is_scalar": True, "constrained": True}),
                  (f"scalar unconstrained {NAME}", {"name": NAME, "is_scalar": True, "constrained": False, "n_parameters": Poly.const(1)}, {"name": NAME, "is_scalar": True, "constrained": False}),
                  (f"per-bin (2 components) {NAME}", {"name": NAME, "is_scalar": False, "constrained": True, "n_parameters": Poly.const(2)}, {"name": NAME, "is_scalar": False})]
    for lab, attrs, want in kinds:
        try:
            names = Interp({"paramset": Obj("p", attrs)}, {}, {}).run(A.strip_docstring(ptr.node.body))
            lst = names if isinstance(names, list) else [names]
            bad = None
            for idx, rn in enumerate(lst):
                if not isinstance(rn, str):
                    raise Undecided(f"root name is not a string: {rn}")
                got = Interp({"rootname": rn, "re": Obj("re"), **rx_env}, {}, {}, externals=rx).run(A.strip_docstring(irn.node.body))
                exp = dict(want)
                if isinstance(names, list):
                    exp["element"] = idx
                for k_, v_ in exp.items():
                    g_ = got.get(k_)
                    if k_ == "element":
                        g_ = int(to_poly(g_).const_value()) if not isinstance(g_, str) else g_
                    if g_ != v_:
                        bad = (rn, k_, v_, g_)
            if bad:
                ctx.violated(r3, irn, f"interpret_rootname [{lab}]", "a parameter name written in ROOT convention is not read back as the same parameter set / component", expected=f"{bad[0]!r} -> {bad[1]} = {bad[2]!r}", found=f"{bad[1]} = {bad[3]!r}")
            else:
                ctx.holds(r3, f"{C}::interpret_rootname(paramset_to_rootnames(.)) [{lab}]", f"{lst} -> {want}")
        except (Undecided, KeyError, TypeError, AttributeError, IndexError) as e:
            ctx.unrecognised(r3, irn, f"interpret_rootname [{lab}]", f"not interpretable: {type(e).__name__}: {e}")

    # ------------------------------------------------------------ R4
    rmod = repo.module(R)
    cache_name = None
    for nm in rmod.assigns:
        if "CACHE" in nm.upper():
            cache_name = nm
    if cache_name is None:
        ctx.unrecognised(r4, (R, "<module>"), "file cache", "no module-level cache found")
    else:
        writers = []
        for f in rmod.funcs.values():
            if any(isinstance(n, ast.Global) and cache_name in n.names for n in ast.walk(f.node)):
                writers.append(f.qualname)
        if set(writers) <= {"import_root_histogram", "clear_filecache"}:
            ctx.holds(r4, f"{R}::{cache_name}", f"written only by {sorted(writers)}")
        else:
            ctx.violated(r4, (R, "<module>"), cache_name, f"the module cache is rebound by {sorted(writers)}", expected="import_root_histogram, clear_filecache")
        # key
        irh_nodes = list(repo.walk_deep(irh, depth=2))  # the function and the helpers of its module it hands the cache work to
        keyed = [n for n in irh_nodes if isinstance(n, ast.Assign) and isinstance(n.targets[0], ast.Subscript) and (A.dotted(n.targets[0].value) or "") in ("filecache", cache_name)]
        key_txt = A.unparse(keyed[0].targets[0].slice) if keyed else ""
        key_def = next((A.unparse(n.value) for n in irh_nodes if isinstance(n, ast.Assign) and any(A.dotted(t) == key_txt for t in n.targets)), "")
        identity = any(w in key_def for w in ("st_mtime", "getmtime", "st_ctime", "digest", "sha", "md5"))  # evidence of MODIFICATION: a file rewritten in place keeps its path, device and inode
        pm = A.parent_map(parse.node)
        clears = [c for c in A.calls_in(parse.node) if A.call_attr(c) == "clear_filecache" or (A.call_attr(c) == "clear" and cache_name in A.unparse(c))]
        first_import = min([c.lineno for c in A.calls_in(parse.node) if A.call_attr(c) in ("process_channel", "import_root_histogram")] or [10 ** 9])
        cleared_first = any(c.lineno < first_import and A.enclosing(c, pm, (ast.If, ast.For, ast.While, ast.Try)) is None for c in clears)
        if identity:
            ctx.holds(r4, f"{R}::import_root_histogram", f"cache key carries file identity ({key_def})")
        elif cleared_first:
            ctx.holds(r4, f"{R}::parse", "clears the file cache before importing")
        else:
            ctx.violated(r4, parse, f"{cache_name}[{key_txt}]", f"the ROOT file cache key ({key_def}) does not change when the file at that path is rewritten in place (path, device and inode stay the same) and parse() never empties the cache: re-importing after the file at that path was rewritten (export to the same directory) returns the histograms of the previous file",
                         expected="clear_filecache() at the start of parse(), or a key that includes file identity", found="no invalidation", node=parse.node)
    # writer handle
    wmod = repo.module(W)
    hname = "_ROOT_DATA_FILE"
    binders = [f.qualname for f in wmod.funcs.values() if any(isinstance(n, ast.Global) and hname in n.names for n in ast.walk(f.node))]
    withs = [n for n in ast.walk(wx.node) if isinstance(n, ast.With) and any(it.optional_vars is not None and A.dotted(it.optional_vars) == hname for it in n.items)]
    if binders == ["writexml"] and withs:
        ctx.holds(r4, f"{W}::{hname}", "bound only by `with uproot.recreate(...) as _ROOT_DATA_FILE` in writexml")
    else:
        ctx.violated(r4, wx, hname, "the global ROOT output handle is bound somewhere else than writexml's with-block", found=str(binders))
    readers = set()
    changed = True
    users = {f.qualname for f in wmod.funcs.values() if f.qualname != "writexml" and any(isinstance(n, ast.Name) and n.id == hname for n in ast.walk(f.node))}
    while changed:
        changed = False
        for f in wmod.funcs.values():
            if f.qualname in users or f.qualname == "writexml":
                continue
            if any(isinstance(c.func, ast.Name) and c.func.id in users for c in A.calls_in(f.node)):
                users.add(f.qualname)
                changed = True
    if withs:
        inside = {id(n) for n in ast.walk(withs[0])}
        bad = [c for c in A.calls_in(wx.node) if isinstance(c.func, ast.Name) and c.func.id in users and id(c) not in inside]
        if bad:
            ctx.violated(r4, wx, bad[0], f"`{A.short(bad[0], 50)}` uses the ROOT output handle after the with-block closed it", node=bad[0])
        else:
            ctx.holds(r4, f"{W}::writexml", f"functions using the handle ({sorted(users)}) are called only inside the with-block")


def _tag_of(test):
    for n in ast.walk(test):
        if isinstance(n, ast.Compare) and A.dotted(n.left) == f"{MODVAR}.tag" and isinstance(A.const_value(n.comparators[0]), str):
            return A.const_value(n.comparators[0])
    return None


def _attrs_var(bm):
    for n in ast.walk(bm.node):
        if isinstance(n, ast.Assign) and isinstance(n.value, ast.Dict) and any(A.const_value(k) == "Name" for k in n.value.keys if k is not None):
            return A.unparse(n.targets[0])
    return "attrs"


def _writer_attrs(bm):
    """type -> attribute names emitted (Name + attrs[...] stores in that type's branch, minus deletions)."""
    out = {}
    base = {"Name"}
    AV = _attrs_var(bm)
    for n in ast.walk(bm.node):
        if isinstance(n, ast.If) and isinstance(n.test, ast.Compare) and "modifierspec['type']" in A.unparse(n.test.left):
            typ = A.const_value(n.test.comparators[0])
            em = set(base)
            for st in n.body:
                for x in ast.walk(st):
                    if isinstance(x, ast.Assign) and isinstance(x.targets[0], ast.Subscript) and A.dotted(x.targets[0].value) == AV:
                        em.add(A.const_value(x.targets[0].slice))
                    if isinstance(x, ast.Delete):
                        for t in x.targets:
                            if isinstance(t, ast.Subscript) and A.dotted(t.value) == AV:
                                em.discard(A.const_value(t.slice))
            out[typ] = em
    return out


def _branch(fn_node, var, key, value):
    for n in ast.walk(fn_node):
        if isinstance(n, ast.If) and isinstance(n.test, (ast.Compare, ast.BoolOp)):
            t = A.unparse(n.test)
            if var in t and repr(value) in t:
                return n
    return None


def _unit_modifiers(ctx, rid, bm, ps):
    U, N = Poly.atom("UNC"), Poly.atom("NOM")
    AV = _attrs_var(bm)
    # ---- StatError
    wb = _branch(bm.node, "modifierspec['type']", None, "staterror")
    rb = _branch(ps.node, f"{MODVAR}.tag", None, "StatError")
    try:
        rmul = next(c for c in A.calls_in(ast.Module(body=rb.body, type_ignores=[])) if A.call_attr(c) == "multiply")
        from ..dep import Deps as _D0
        from fractions import Fraction as _Fr
        _rd0 = _D0(ps.node)
        # the relative/absolute conversion is guarded by a test on the nominal: a positive and a negative yield are tried
        for nomrep, lab in ((_Fr(5), "nominal > 0"), (_Fr(-3), "nominal < 0")):
            region = {"NOM": nomrep, "UNC": _Fr(2)}
            cap = {}
            wext = {"_export_root_histogram": lambda a, k: cap.__setitem__("v", a[1]), "_make_hist_name": lambda a, k: "h", "asarray": lambda a, k: a[0], "array": lambda a, k: a[0], "zeros_like": lambda a, k: Poly(), "zeros": lambda a, k: Poly()}
            env = {"modifierspec": {"data": U, "name": "m", "type": "staterror"}, "sampledata": N, "np": Obj("np"), AV: {"HistoName": "h", "Name": "m"}, "channelname": "c", "samplename": "s"}
            Interp(env, {}, region, externals=wext).run(wb.body)
            if "v" not in cap:
                raise Undecided("the staterror branch exports no histogram")
            wv = to_poly(cap["v"])
            renv = {"np": Obj("np")}
            for arg in rmul.args:
                for dn in A.names_loaded(arg):
                    from_modifier = any(f"{MODVAR}.attrib" in A.unparse(dv) for dv in _rd0.defs.get(dn, []))
                    renv[dn] = wv if from_modifier else N
            rv = to_poly(Interp(renv, {}, region).eval(rmul))
            if rv == U:
                ctx.holds(rid, f"StatError histogram [{lab}]", f"writer {wv}, reader x nominal -> UNC")
            else:
                ctx.violated(rid, bm, f"StatError relative/absolute [{lab}]", "the MC-statistical uncertainty does not survive export+import (relative in the file, absolute in pyhf)", expected="UNC", found=str(rv))
    except StopIteration:
        pass  # other code shape: decided by the round trip (R5)
    except (Undecided, AttributeError) as e:
        ctx.unrecognised(rid, bm, "StatError conversion", f"{type(e).__name__}: {e}")
    # ---- ShapeSys
    wb = _branch(bm.node, "modifierspec['type']", None, "shapesys")
    rb = _branch(ps.node, f"{MODVAR}.tag", None, "ShapeSys")
    try:
        comp = next(n for n in ast.walk(ast.Module(body=wb.body, type_ignores=[])) if isinstance(n, ast.ListComp))
        div = next(c for c in A.calls_in(comp.elt) if A.call_attr(c) == "divide")
        tgt = [t.id for t in comp.generators[0].target.elts]
        src_tuple = next(t for t in ast.walk(comp.generators[0].iter) if isinstance(t, ast.Tuple) and len(t.elts) == 2)
        bind = {}
        for nm, e in zip(tgt, src_tuple.elts):
            bind[nm] = U if "modifierspec" in A.unparse(e) else (N if "sampledata" in A.unparse(e) else Poly.atom("?"))
        rcomp = next(n for n in ast.walk(ast.Module(body=rb.body, type_ignores=[])) if isinstance(n, ast.ListComp))
        rt = [t.id for t in rcomp.generators[0].target.elts]
        zargs = rcomp.generators[0].iter.args
        from ..dep import Deps as _D
        from fractions import Fraction as _Fr2
        _rd = _D(ps.node)
        for nomrep, lab in ((_Fr2(5), "nominal > 0"), (_Fr2(-3), "nominal < 0")):
            region = {"NOM": nomrep, "UNC": _Fr2(2)}
            wv = to_poly(Interp({**bind, "np": Obj("np")}, {}, region, externals={"asarray": lambda a, k: a[0], "zeros_like": lambda a, k: Poly()}).eval(div))
            rbind = {}
            for nm, e in zip(rt, zargs):
                from_modifier = any(f"{MODVAR}.attrib" in A.unparse(dv) for dn in A.names_loaded(e) for dv in _rd.defs.get(dn, []))
                rbind[nm] = wv if from_modifier else N
            rv = to_poly(Interp(rbind, {}, region).eval(rcomp.elt))
            if rv == U:
                ctx.holds(rid, f"ShapeSys histogram [{lab}]", f"writer {wv}, reader x nominal -> UNC")
            else:
                ctx.violated(rid, bm, f"ShapeSys relative/absolute [{lab}]", "the uncorrelated shape uncertainty does not survive export+import", expected="UNC", found=str(rv))
    except StopIteration:
        pass  # the conversion is not written as divide-in-a-comprehension: the round trip (R5) decides it on its own
    except (Undecided, AttributeError, IndexError) as e:
        ctx.unrecognised(rid, bm, "ShapeSys conversion", f"{type(e).__name__}: {e}")
    # ---- OverallSys / NormFactor / HistoSys attribute pairing
    pairs = {
        "normsys": ("OverallSys", {"High": "hi", "Low": "lo"}),
        "histosys": ("HistoSys", {"HistoNameHigh": "hi_data", "HistoNameLow": "lo_data"}),
    }
    for typ, (tag, amap) in pairs.items():
        wb = _branch(bm.node, "modifierspec['type']", None, typ)
        rb = _branch(ps.node, f"{MODVAR}.tag", None, tag)
        if wb is None or rb is None:
            ctx.unrecognised(rid, bm, typ, "branch not found")
            continue
        wsrc = A.unparse(ast.Module(body=wb.body, type_ignores=[]))
        rsrc = A.unparse(ast.Module(body=rb.body, type_ignores=[]))
        ok = True
        why = ""
        for attr, field in amap.items():
            # writer: attrs[attr] derives from data[field] (directly or via the exported histogram of that name)
            w_ok = False
            for st in wb.body:
                for x in ast.walk(st):
                    if isinstance(x, ast.Assign) and isinstance(x.targets[0], ast.Subscript) and A.const_value(x.targets[0].slice) == attr:
                        if f"['{field}']" in A.unparse(x.value):
                            w_ok = True
                    if isinstance(x, ast.Call) and A.call_attr(x) == "_export_root_histogram" and f"{AV}['{attr}']" in A.unparse(x.args[0]) and f"['{field}']" in A.unparse(x.args[1]):
                        w_ok = True
            r_ok = False
            # reader: dict entry field <- value depending on attrib[attr]
            for d in ast.walk(ast.Module(body=rb.body, type_ignores=[])):
                if isinstance(d, ast.Dict):
                    for k, v in zip(d.keys, d.values):
                        if A.const_value(k) == field:
                            txt = A.unparse(v)
                            if f"'{attr}'" in txt:
                                r_ok = True
                            else:
                                # via a variable assigned from import_root_histogram(... attrib[attr])
                                for st in ast.walk(ast.Module(body=rb.body, type_ignores=[])):
                                    if isinstance(st, ast.Assign) and any(nm in A.names_loaded(v) for nm in A.assigned_names(st.targets[0])) and f"'{attr}'" in A.unparse(st.value):
                                        r_ok = True
            if not (w_ok and r_ok):
                ok = False
                why = f"{attr} <-> {field}: writer {'ok' if w_ok else 'MISMATCH'}, reader {'ok' if r_ok else 'MISMATCH'}"
        if ok:
            ctx.holds(rid, f"<{tag}> value pairing", str(amap))
        else:
            ctx.violated(rid, bm, f"<{tag}> High/Low pairing", f"up and down variations are not written and read back under the same attribute: {why}", expected=str(amap))
    # NormFactor Val/Low/High: decided by the interpreted round trip (R5: inits / bounds of `mu`, twice), whatever the code shape


def _roundtrip(ctx, rid, repo):
    import re as _re
    from fractions import Fraction as _F
    from .. import xmlmodel
    from ..alg import AutoRegion, NotHandled, same_value
    from ..objmodel import World
    at = Poly.atom
    wfuncs = ("build_measurement", "build_modifier", "build_sample", "build_data", "build_channel", "_make_hist_name")
    rfuncs = ("process_channel", "process_sample", "process_data", "process_measurements")
    for n in wfuncs:
        ctx.touch(repo.func(W, n))
    for n in rfuncs:
        ctx.touch(repo.func(R, n))

    def mk_world(store, region):
        ext = xmlmodel.externals(store)

        ext.update(rxmodel.externals())
        w = World(ext, region=region, module_env={"ET": Obj("ET"), "np": Obj("np"), "log": Obj("log"), "_ROOT_DATA_FILE": Obj("rootfile", {"file_path": "data.root"}), "compat": Obj("compat"), "re": Obj("re"), "tqdm": Obj("tqdm"), **rxmodel.compiled_globals(repo.module(C)), **rxmodel.compiled_globals(repo.module(W)), **rxmodel.compiled_globals(repo.module(R))})
        for n in wfuncs:
            w.add_func(repo.func(W, n))
        for n in rfuncs:
            w.add_func(repo.func(R, n))
        w.add_func(repo.func(C, "interpret_rootname"))
        # helpers the writer / reader may be split into (anything the file model does not stand in for)
        for rel_ in (W, R):
            for q, f_ in repo.module(rel_).funcs.items():
                if "." not in q and q not in ext and q not in w.funcs and q not in ("writexml", "parse", "clear_filecache", "dedupe_parameters", "extract_error"):
                    w.add_func(f_)
        return w

    def spec(empty_bin=False):
        sp_ = _spec()
        if empty_bin:
            sp_["channels"][0]["samples"][1]["data"][1] = Poly.const(0)
        return sp_

    def _spec():
        return {"channels": [{"name": "ch", "samples": [
            {"name": "s1", "data": [at("n0"), at("n1")], "modifiers": [
                {"name": "mu", "type": "normfactor", "data": None},
                {"name": "pileup_a", "type": "normsys", "data": {"lo": at("NLO"), "hi": at("NHI")}},
                {"name": "hs", "type": "histosys", "data": {"lo_data": [at("l0"), at("l1")], "hi_data": [at("h0"), at("h1")]}},
                {"name": "lumi", "type": "lumi", "data": None}]},
            {"name": "s2", "data": [at("m0"), at("m1")], "modifiers": [
                {"name": "staterror_ch", "type": "staterror", "data": [at("e0"), at("e1")]},
                {"name": "ss", "type": "shapesys", "data": [at("u0"), at("u1")]},
                {"name": "sf", "type": "shapefactor", "data": None}]}]}],
            "observations": [{"name": "ch", "data": [at("o0"), at("o1")]}],
            "measurements": [{"name": "meas", "config": {"poi": "mu", "parameters": [
                {"name": "lumi", "auxdata": [at("L")], "sigmas": [at("S")], "bounds": [[at("LB"), at("UB")]], "inits": [at("L")], "fixed": True},
                {"name": "mu", "inits": [at("V")], "bounds": [[at("MLO"), at("MHI")]], "fixed": True},
                {"name": "pileup_a", "fixed": True}]}},
                {"name": "meas_all_free", "config": {"poi": "mu", "parameters": [
                    {"name": "lumi", "auxdata": [at("L")], "sigmas": [at("S")], "bounds": [[at("LB"), at("UB")]], "inits": [at("L")]},
                    {"name": "mu", "inits": [at("V")], "bounds": [[at("MLO"), at("MHI")]]}]}}],
            "version": "1.0.0"}

    def same(a, b):
        if isinstance(a, (list, tuple)) and isinstance(b, (list, tuple)):
            return len(a) == len(b) and all(same(x, y) for x, y in zip(a, b))
        if isinstance(a, dict) and isinstance(b, dict):
            return sorted(a) == sorted(b) and all(same(a[k], b[k]) for k in a)
        if a is None or b is None or isinstance(a, (str, bool)) or isinstance(b, (str, bool)):
            return a == b
        return same_value(a, b) is True

    def show(v):
        if isinstance(v, (list, tuple)):
            return [show(x) for x in v]
        if isinstance(v, dict):
            return {k: show(x) for k, x in v.items()}
        if v is None or isinstance(v, (str, bool)):
            return v
        return str(to_poly(v))

    for lab, reps in (("all yields positive", {}), ("one yield negative", {"m1": _F(-3), "n0": _F(-2)}), ("one empty bin in the sample carrying staterror and shapesys", {})):
        site = f"{W} -> {R} [{lab}]"
        region = AutoRegion()
        region.update(reps)
        empty_bin = lab.startswith("one empty bin")
        sp = spec(empty_bin)
        store = {}
        w = mk_world(store, region)
        try:
            ch = w.call_func(repo.func(W, "build_channel"), [sp, sp["channels"][0], sp["observations"]])
            name, obs, samples, pconfigs = w.call_func(repo.func(R, "process_channel"), [ch, Obj("resolver")])
            mtypes = {m["name"]: m["type"] for c_ in sp["channels"] for s_ in c_["samples"] for m in s_["modifiers"]}
            top = xmlmodel.Elem("Combination")
            for ms_ in sp["measurements"]:
                top.children.append(w.call_func(repo.func(W, "build_measurement"), [ms_, mtypes]))
            meas = w.call_func(repo.func(R, "process_measurements"), [top], {"other_parameter_configs": pconfigs})
        except (Undecided, KeyError, TypeError, ValueError, IndexError, AttributeError) as e:
            ctx.unrecognised(rid, repo.func(W, "build_channel"), f"round trip [{lab}]", f"not interpretable: {type(e).__name__}: {e}")
            continue
        orig = spec(empty_bin)
        problems = []
        if name != "ch":
            problems.append(("channel name", "ch", name))
        if not same(obs, orig["observations"][0]["data"]):
            problems.append(("observation", show(orig["observations"][0]["data"]), show(obs)))
        got_s = {s_["name"]: s_ for s_ in samples}
        for os_ in orig["channels"][0]["samples"]:
            gs = got_s.get(os_["name"])
            if gs is None:
                problems.append((f"sample {os_['name']}", "present", "missing"))
                continue
            if not same(gs["data"], os_["data"]):
                problems.append((f"yields of {os_['name']}", show(os_["data"]), show(gs["data"])))
            gm = {(m["name"], m["type"]): m["data"] for m in gs["modifiers"]}
            om = {(m["name"], m["type"]): m["data"] for m in os_["modifiers"]}
            if sorted(gm) != sorted(om):
                problems.append((f"modifiers of {os_['name']}", sorted(om), sorted(gm)))
            for key_ in om:
                if empty_bin and key_[1] in ("staterror", "shapesys") and key_ in gm and isinstance(gm[key_], (list, tuple)) and len(gm[key_]) == 2:
                    # a relative uncertainty on an empty bin has no representation in the format: only the filled bin is compared
                    if not same(gm[key_][0], om[key_][0]):
                        problems.append((f"data of {key_[1]} {key_[0]} on {os_['name']} (filled bin)", show(om[key_][0]), show(gm[key_][0])))
                    continue
                if key_ in gm and not same(gm[key_], om[key_]):
                    problems.append((f"data of {key_[1]} {key_[0]} on {os_['name']}", show(om[key_]), show(gm[key_])))
        if len(meas) != 2:
            problems.append(("measurements", 2, len(meas)))
        else:
            cfg2 = meas[1]["config"]
            pars2 = {p_["name"]: p_ for p_ in cfg2["parameters"]}
            fixed2 = sorted(n for n, p_ in pars2.items() if p_.get("fixed") is True)
            if meas[1]["name"] != "meas_all_free" or fixed2 != []:
                problems.append(("constant parameters of the second measurement (none: a flag of the first measurement must not leak into it)", [], fixed2))
            cfgm = meas[0]["config"]
            if meas[0]["name"] != "meas" or cfgm["poi"] != "mu":
                problems.append(("measurement name / POI", "meas / mu", f"{meas[0]['name']} / {cfgm['poi']}"))
            pars = {p_["name"]: p_ for p_ in cfgm["parameters"]}
            lum = pars.get("lumi", {})
            if not (same(lum.get("auxdata"), [at("L")]) and same(lum.get("sigmas"), [at("S")]) and same(lum.get("inits"), [at("L")])):
                problems.append(("luminosity value / width", "auxdata [L], sigmas [S], inits [L]", show({k: lum.get(k) for k in ("auxdata", "sigmas", "inits")})))
            fixed_got = sorted(n for n, p_ in pars.items() if p_.get("fixed") is True)
            if fixed_got != ["lumi", "mu", "pileup_a"]:
                problems.append(("constant parameters", ["lumi", "mu", "pileup_a"], fixed_got))
            mu = pars.get("mu", {})
            if not (same(mu.get("inits"), [at("V")]) and same(mu.get("bounds"), [[at("MLO"), at("MHI")]])):
                problems.append(("normfactor settings", "inits [V], bounds [[MLO, MHI]]", show({k: mu.get(k) for k in ("inits", "bounds")})))
        if not problems and lab == "all yields positive":
            # HISTORY: the same specification OBJECT is exported a second time after its normfactor settings were edited in place
            try:
                sp["measurements"][0]["config"]["parameters"][1]["inits"] = [at("V_second")]
                sp["measurements"][0]["config"]["parameters"][1]["bounds"] = [[at("MLO_second"), at("MHI_second")]]
                store.clear()
                ch2 = w.call_func(repo.func(W, "build_channel"), [sp, sp["channels"][0], sp["observations"]])
                _, _, _, pconfigs2 = w.call_func(repo.func(R, "process_channel"), [ch2, Obj("resolver")])
                top2 = xmlmodel.Elem("Combination")
                for ms_ in sp["measurements"]:
                    top2.children.append(w.call_func(repo.func(W, "build_measurement"), [ms_, mtypes]))
                meas2 = w.call_func(repo.func(R, "process_measurements"), [top2], {"other_parameter_configs": pconfigs2})
                mu2 = {p_["name"]: p_ for p_ in meas2[0]["config"]["parameters"]}.get("mu", {})
                if not (same(mu2.get("inits"), [at("V_second")]) and same(mu2.get("bounds"), [[at("MLO_second"), at("MHI_second")]])):
                    problems.append(("normfactor settings of a SECOND export of the same specification object after they were edited in place (the first export's values are written again)", "inits [V_second], bounds [[MLO_second, MHI_second]]", show({k: mu2.get(k) for k in ("inits", "bounds")})))
            except (Undecided, KeyError, TypeError, ValueError, IndexError, AttributeError) as e:
                ctx.unrecognised(rid, repo.func(W, "build_channel"), f"round trip, second export [{lab}]", f"not interpretable: {type(e).__name__}: {e}")
                continue
        if problems:
            what, exp, got = problems[0]
            ctx.violated(rid, repo.func(W, "build_channel") if "measurement" not in what and "luminosity" not in what and "constant" not in what else repo.func(W, "build_measurement"), f"round trip: {what} [{lab}]", f"export followed by import does not give back the {what}" + (f" (and {len(problems) - 1} more difference(s))" if len(problems) > 1 else ""), expected=str(exp), found=str(got))
        else:
            ctx.holds(rid, site, "channel, observation, 2 samples, 7 modifiers with data, POI, luminosity, normfactor settings, constant flags all recovered")


def _whole_files(ctx, rid, repo):
    """writexml(spec, ...) and readxml.parse(config, rootdir) interpreted as WHOLE functions over a dict file system: two
    channels listed out of name order, one name shared by a normsys and a histosys, two measurements; the document parse
    returns is compared with the specification that was written."""
    from .. import xmlmodel
    from ..alg import AutoRegion, NotHandled, RaisedInFragment, same_value
    from ..objmodel import World
    at = Poly.atom
    wx, rp = repo.func(W, "writexml"), repo.func(R, "parse")
    ctx.touch(wx)
    ctx.touch(rp)
    errs = (Undecided, KeyError, TypeError, ValueError, IndexError, AttributeError)

    # eight more normalisation factors with long names, all held constant in the first measurement: the list of constant
    # parameters written into the measurement is a long text (more than 200 characters)
    LONG = [f"norm_background_process_number_{j:02d}" for j in range(8)]

    def spec(gen=""):
        def at(n_):
            return Poly.atom(n_ + gen)

        bkg = "bkg" + gen

        def ch(name, tag, n):
            return {"name": name, "samples": [
                {"name": "sig", "data": [at(f"{tag}s{j}") for j in range(n)], "modifiers": [{"name": "mu", "type": "normfactor", "data": None}, {"name": "lumi", "type": "lumi", "data": None}] + [{"name": n_, "type": "normfactor", "data": None} for n_ in LONG]},
                {"name": bkg, "data": [at(f"{tag}b{j}") for j in range(n)], "modifiers": [
                    {"name": "jes", "type": "normsys", "data": {"lo": at(f"{tag}NLO"), "hi": at(f"{tag}NHI")}},
                    {"name": "jes", "type": "histosys", "data": {"lo_data": [at(f"{tag}l{j}") for j in range(n)], "hi_data": [at(f"{tag}h{j}") for j in range(n)]}},
                    {"name": f"staterror_{name}", "type": "staterror", "data": [at(f"{tag}e{j}") for j in range(n)]}]}]}
        return {"channels": [ch("SR", "S", 2), ch("CR", "C", 3)],
                "observations": [{"name": "CR", "data": [at(f"Co{j}") for j in range(3)]}, {"name": "SR", "data": [at(f"So{j}") for j in range(2)]}],
                "measurements": [{"name": "meas", "config": {"poi": "mu", "parameters": [
                    {"name": "lumi", "auxdata": [at("L")], "sigmas": [at("S")], "bounds": [[at("LB"), at("UB")]], "inits": [at("L")], "fixed": True},
                    {"name": "mu", "inits": [at("V")], "bounds": [[at("MLO"), at("MHI")]]}, {"name": "jes", "fixed": True}] + [{"name": n_, "fixed": True} for n_ in LONG]}},
                    {"name": "other", "config": {"poi": "mu", "parameters": [{"name": "lumi", "auxdata": [at("L")], "sigmas": [at("S")], "bounds": [[at("LB"), at("UB")]], "inits": [at("L")]}]}}],
                "version": "1.0.0"}

    def same(a, b):
        if isinstance(a, (list, tuple)) and isinstance(b, (list, tuple)):
            return len(a) == len(b) and all(same(x, y) for x, y in zip(a, b))
        if isinstance(a, dict) and isinstance(b, dict):
            return sorted(a) == sorted(b) and all(same(a[k], b[k]) for k in a)
        if a is None or b is None or isinstance(a, (str, bool)) or isinstance(b, (str, bool)):
            return a == b
        return same_value(a, b) is True

    def show(v):
        if isinstance(v, (list, tuple)):
            return [show(x) for x in v]
        if isinstance(v, dict):
            return {k: show(x) for k, x in v.items()}
        return v if v is None or isinstance(v, (str, bool)) else str(to_poly(v))

    fs, store = {}, {}
    try:
        ext = xmlmodel.externals(store)
        ext.update(rxmodel.externals())
        ext.update(xmlmodel.file_externals(fs, store))
        ext.update({"validate": lambda a, k: None})
        menv = {"ET": Obj("ET"), "np": Obj("np"), "log": Obj("log"), "compat": Obj("compat"), "re": Obj("re"), "tqdm": Obj("tqdm"), "shutil": Obj("shutil"), "uproot": Obj("uproot"),
                "schema_path": xmlmodel.mkpath("SCHEMAS"), "schema": Obj("schema", {"version": "1.0.0"}), "exceptions": Obj("exceptions"), "_ROOT_DATA_FILE": None, "textwrap": Obj("textwrap"),
                **rxmodel.compiled_globals(repo.module(C)), **rxmodel.compiled_globals(repo.module(W)), **rxmodel.compiled_globals(repo.module(R))}
        w = World(ext, region=AutoRegion(), module_env=menv)
        for rel_ in (W, R):
            for q, f_ in repo.module(rel_).funcs.items():
                if "." not in q and q not in ext and q not in ("writexml", "parse", "clear_filecache", "extract_error", "import_root_histogram", "_export_root_histogram", "__dir__"):
                    w.add_func(f_)
        w.add_func(repo.func(C, "interpret_rootname"))
        w.add_class(repo.cls("src/pyhf/mixins.py", "_ChannelSummaryMixin"))
        base_iter = w.externals()["__iter__"]
        w.externals()["__iter__"] = lambda v: list(v.children) if isinstance(v, xmlmodel.Elem) else base_iter(v)
    except errs as e:
        ctx.unrecognised(rid, wx, "writexml -> parse (whole functions)", f"not interpretable: {type(e).__name__}: {e}")
        return
    # two export / import cycles in ONE process into the SAME directory: the second workspace has the same channel names (the
    # same file names) but other samples, yields, modifier data and parameter settings
    for gen, cyc in (("", "first cycle"), ("B", "second cycle: another workspace exported into the same directory and imported in the same process")):
        _whole_cycle(ctx, rid, w, wx, rp, fs, store, spec, gen, cyc, same, show, errs)


def _whole_cycle(ctx, rid, w, wx, rp, fs, store, spec, gen, cyc, same, show, errs):
    from .. import xmlmodel
    from ..alg import RaisedInFragment

    def at(n_):
        return Poly.atom(n_ + gen)

    try:
        sp = spec(gen)
        top = w.call_func(wx, [sp, "out/xml", "out/data", "config"])
        if not (isinstance(top, Obj) and top.name == "xmltext" and isinstance(top.attrs.get("elem"), xmlmodel.Elem)):
            raise Undecided("writexml does not return the serialised top-level document")
        fs["out/config.xml"] = top.attrs["elem"]
        got = w.call_func(rp, ["out/config.xml", "."], {})
    except RaisedInFragment as e:
        ctx.violated(rid, wx, f"writexml -> parse (whole functions) [{cyc}]", f"export followed by import of a two-channel workspace raises {e.exc_name}")
        return
    except errs as e:
        ctx.unrecognised(rid, wx, f"writexml -> parse (whole functions) [{cyc}]", f"not interpretable: {type(e).__name__}: {e}")
        return
    orig = spec(gen)
    problems = []
    if not isinstance(got, dict):
        problems.append(("result", "a workspace document", type(got).__name__))
    else:
        gch = {c_["name"]: c_ for c_ in got.get("channels", [])}
        if sorted(c_["name"] for c_ in got.get("channels", [])) != sorted(c_["name"] for c_ in orig["channels"]):
            problems.append(("channels", sorted(c_["name"] for c_ in orig["channels"]), sorted(c_.get("name") for c_ in got.get("channels", []))))
        gobs = {o_["name"]: o_["data"] for o_ in got.get("observations", [])}
        for o_ in orig["observations"]:
            if not same(gobs.get(o_["name"]), o_["data"]):
                problems.append((f"observation of {o_['name']}", show(o_["data"]), show(gobs.get(o_["name"]))))
        for oc in orig["channels"]:
            gs = {s_["name"]: s_ for s_ in gch.get(oc["name"], {}).get("samples", [])}
            for os_ in oc["samples"]:
                g_ = gs.get(os_["name"])
                if g_ is None:
                    problems.append((f"sample {os_['name']} of {oc['name']}", "present", "missing"))
                    continue
                if not same(g_["data"], os_["data"]):
                    problems.append((f"yields of {os_['name']} in {oc['name']}", show(os_["data"]), show(g_["data"])))
                gm = {(m["name"], m["type"]): m["data"] for m in g_["modifiers"]}
                om = {(m["name"], m["type"]): m["data"] for m in os_["modifiers"]}
                if sorted(gm) != sorted(om):
                    problems.append((f"modifiers of {os_['name']} in {oc['name']}", sorted(om), sorted(gm)))
                for key_ in om:
                    if key_ in gm and not same(gm[key_], om[key_]):
                        problems.append((f"data of {key_[1]} {key_[0]} on {os_['name']} in {oc['name']}", show(om[key_]), show(gm[key_])))
        gmz = got.get("measurements", [])
        if [m_["name"] for m_ in gmz] != ["meas", "other"]:
            problems.append(("measurements", ["meas", "other"], [m_.get("name") for m_ in gmz]))
        else:
            pars = {p_["name"]: p_ for p_ in gmz[0]["config"]["parameters"]}
            fixed_got = sorted(n for n, p_ in pars.items() if p_.get("fixed") is True)
            want_fixed = sorted(["jes", "lumi"] + [p_["name"] for p_ in orig["measurements"][0]["config"]["parameters"] if p_["name"].startswith("norm_background_process")])
            if gmz[0]["config"]["poi"] != "mu" or fixed_got != want_fixed:
                problems.append(("POI / constant parameters of the first measurement", f"mu / {want_fixed}", f"{gmz[0]['config']['poi']} / {fixed_got}"))
            lum = pars.get("lumi", {})
            if not (same(lum.get("auxdata"), [at("L")]) and same(lum.get("sigmas"), [at("S")])):
                problems.append(("luminosity value / width", "auxdata [L], sigmas [S]", show({k: lum.get(k) for k in ("auxdata", "sigmas")})))
            mu = pars.get("mu", {})
            if not (same(mu.get("inits"), [at("V")]) and same(mu.get("bounds"), [[at("MLO"), at("MHI")]])):
                problems.append(("normfactor settings", "inits [V], bounds [[MLO, MHI]]", show({k: mu.get(k) for k in ("inits", "bounds")})))
            fixed2 = sorted(p_["name"] for p_ in gmz[1]["config"]["parameters"] if p_.get("fixed") is True)
            if fixed2:
                problems.append(("constant parameters of the second measurement", [], fixed2))
    if problems:
        what, exp, gotv = problems[0]
        ctx.violated(rid, wx, f"writexml -> parse: {what} [{cyc}]", f"writing a two-channel workspace with writexml and reading the files back with readxml.parse does not give back the {what}" + (f" (and {len(problems) - 1} more difference(s))" if len(problems) > 1 else ""), expected=str(exp), found=str(gotv))
    else:
        ctx.holds(rid, f"{W}::writexml -> {R}::parse [whole functions over a file model; {cyc.split(':')[0]}]", f"{len(fs)} XML documents, {len(store)} histograms: 2 channels, observations by channel name, samples, yields, 5 modifiers each with data, 2 measurements, POI, luminosity, constant flags")
