"""C19 -- command functions interpreted END TO END over a model of the process state they act on.

The click command bodies of `pyhf fit` and `pyhf cls` are walked by the interpreter with
  * files as symbolic documents (`doc(path)`),
  * the backend manager as a two-slot state (tensor library, optimiser) that `set_backend` / `get_backend`
    act on exactly as tensor/manager.py documents it (no optimiser argument = back to the default optimiser),
  * the library calls (`Workspace`, `.model`, `.data`, `mle.fit`, `hypotest`) as recorders that also snapshot
    the state they are called under,
  * the output channel (`click.echo(json.dumps(..))` / `json.dump(.., open(output_file))`) as a recorder.
Option domains and defaults are read from the click decorators.  For every combination and for several states
left behind by an earlier invocation the recorded library call must be the one the options name, issued under the
backend and the optimiser (with exactly the merged --optconf settings) the options name, and the emitted JSON must
be made of what that call returned.  Nothing of /repo is executed."""

from __future__ import annotations

import ast
import itertools

from .. import astutil as A
from ..alg import NotHandled, Obj, Poly, PyFunc, RaisedInFragment, Undecided, to_poly
from ..objmodel import World

CLI = "src/pyhf/cli/"
BACKEND_CANON = {"numpy": "numpy", "np": "numpy", "pytorch": "pytorch", "torch": "pytorch", "tensorflow": "tensorflow", "tf": "tensorflow", "jax": "jax"}


def option_table(fnode):
    """python parameter -> {'choices': [...]|None, 'default': value, 'multiple': bool, 'flag': bool, 'strings': [...]}"""
    from .c19 import _pyname
    out = {}
    for d in fnode.decorator_list:
        if not isinstance(d, ast.Call):
            continue
        nm = A.dotted(d.func) or ""
        if nm not in ("click.option", "click.argument"):
            continue
        strs = [A.const_value(a) for a in d.args if isinstance(A.const_value(a), str)]
        kws = {k.arg: k.value for k in d.keywords}
        ent = {"choices": None, "default": None, "multiple": False, "flag": False, "strings": strs, "has_default": "default" in kws}
        if "default" in kws:
            ent["default"] = A.const_value(kws["default"])
        if "multiple" in kws:
            ent["multiple"] = A.const_value(kws["multiple"]) is True
        if "is_flag" in kws:
            ent["flag"] = A.const_value(kws["is_flag"]) is True
        t = kws.get("type")
        if isinstance(t, ast.Call) and (A.dotted(t.func) or "").endswith("Choice") and t.args:
            ch = A.const_value(t.args[0])
            if isinstance(ch, (list, tuple)):
                ent["choices"] = list(ch)
        out[_pyname(nm, strs)] = ent
    return out


class _State:
    def __init__(self, tensorlib, optimizer):
        self.tensorlib, self.optimizer = tensorlib, optimizer


def _opt(name, conf):
    return Obj("optimizer", {"name": name, "conf": dict(conf)}, closed=True)


def _tl(name, precision="64b"):
    return Obj("tensorlib", {"name": name, "precision": precision}, closed=True)


def _describe_opt(o):
    if not isinstance(o, Obj) or "conf" not in o.attrs:
        return repr(o)
    return f"{o.attrs['name']}({', '.join(f'{k}={v}' for k, v in sorted(o.attrs['conf'].items()))})"


def _canon(v):
    if isinstance(v, dict):
        return "{" + ", ".join(f"{k!r}: {_canon(x)}" for k, x in sorted(v.items(), key=lambda kv: str(kv[0]))) + "}"
    if isinstance(v, (list, tuple)):
        return "[" + ", ".join(_canon(x) for x in v) + "]"
    if isinstance(v, Obj):
        return f"<{v.name}>"
    if isinstance(v, (str, bool)) or v is None:
        return repr(v)
    return str(to_poly(v))


def make_world(state, rec):
    """externals for the command bodies of cli/infer.py"""

    def doc(path):
        return {"__document__": path}

    def open_file(a, k):
        return Obj("stream", {"path": a[0], "mode": a[1] if len(a) > 1 else k.get("mode", "r")}, closed=True)

    def py_open(a, k):
        f = Obj("outfile", {"path": a[0], "mode": a[1] if len(a) > 1 else k.get("mode", "r")}, closed=True)
        rec["opened"].append(f)
        return f

    def read(recv, a, k):
        if isinstance(recv, Obj) and recv.name == "stream":
            return Obj("text", {"path": recv.attrs["path"]}, closed=True)
        raise NotHandled()

    def load(a, k):
        s = a[0]
        if isinstance(s, Obj) and s.name == "stream":
            return doc(s.attrs["path"])
        raise Undecided("json.load of something that is not an opened file")

    def loads(a, k):
        s = a[0]
        if isinstance(s, Obj) and s.name == "text":
            return doc(s.attrs["path"])
        raise Undecided("json.loads of something that is not file content")

    def workspace(a, k):
        spec = a[0] if a else k.get("spec")
        ws = Obj("workspace", {"spec": spec}, closed=True)
        rec["workspace"].append(spec)
        return ws

    par_map = {
        "mu": {"slice": Obj("slice", {"start": Poly.const(0), "stop": Poly.const(1), "step": None}), "paramset": Obj("paramset_mu")},
        "gammas": {"slice": Obj("slice", {"start": Poly.const(1), "stop": Poly.const(3), "step": None}), "paramset": Obj("paramset_gammas")},
    }

    def model(recv, a, k):
        if not (isinstance(recv, Obj) and recv.name == "workspace"):
            raise NotHandled()
        kk = dict(k)
        for nm, v in zip(("measurement_name", "patches"), a):
            kk[nm] = v
        rec["model"].append(kk)
        return Obj("model", {"of": recv, "config": Obj("config", {"par_map": par_map}, closed=True)}, closed=True)

    def data(recv, a, k):
        if not (isinstance(recv, Obj) and recv.name == "workspace"):
            raise NotHandled()
        return Obj("data", {"of": a[0] if a else k.get("model")}, closed=True)

    def set_backend(a, k):
        b = a[0] if a else k.get("backend")
        custom = a[1] if len(a) > 1 else k.get("custom_optimizer")
        precision = a[2] if len(a) > 2 else k.get("precision")
        if isinstance(b, str):
            if b not in BACKEND_CANON:
                raise RaisedInFragment("InvalidBackend")
            b = _tl(BACKEND_CANON[b], precision or "64b")
        elif isinstance(b, Obj) and b.name == "tensorlib":
            if precision is not None and precision != b.attrs["precision"]:
                b = _tl(b.attrs["name"], precision)
        else:
            raise Undecided("set_backend with an unmodelled backend argument")
        if custom is None:
            custom = _opt("scipy", {})
        elif isinstance(custom, str):
            custom = _opt(custom, {})
        elif not (isinstance(custom, Obj) and custom.name == "optimizer"):
            raise Undecided("set_backend with an unmodelled optimizer argument")
        state.tensorlib, state.optimizer = b, custom
        rec["set_backend"].append((b.attrs["name"], _describe_opt(custom)))
        return None

    def get_backend(a, k):
        return (state.tensorlib, state.optimizer)

    def snapshot():
        return (state.tensorlib.attrs["name"], state.tensorlib.attrs["precision"], state.optimizer.attrs["name"], dict(state.optimizer.attrs["conf"]))

    pars = [Poly.atom("p_mu"), Poly.atom("p_g0"), Poly.atom("p_g1")]

    def mle_fit(a, k):
        kk = dict(k)
        for nm, v in zip(("data", "pdf", "init_pars", "par_bounds", "fixed_params"), a):
            kk[nm] = v
        rec["library"].append(("fit", kk, snapshot()))
        rv = kk.get("return_fitted_val", False)
        return (list(pars), Poly.atom("twice_nll")) if rv is True else list(pars)

    band = [Poly.atom(f"CLs_exp_{i}") for i in range(5)]

    def hypotest(a, k):
        kk = dict(k)
        for nm, v in zip(("poi_test", "data", "pdf", "init_pars", "par_bounds", "fixed_params", "calctype"), a):
            kk[nm] = v
        rec["library"].append(("hypotest", kk, snapshot()))
        out = [Poly.atom("CLs_obs")]
        if kk.get("return_tail_probs") is True:
            out.append([Poly.atom("CLsb"), Poly.atom("CLb")])
        if kk.get("return_expected") is True:
            out.append(Poly.atom("CLs_exp_median"))
        if kk.get("return_expected_set") is True:
            out.append(list(band))
        return tuple(out) if len(out) > 1 else out[0]

    def tolist(recv, a, k):
        if isinstance(recv, Obj) and recv.name == "tensorlib":
            return a[0]
        raise NotHandled()

    def dumps(a, k):
        return Obj("json_text", {"of": _canon(a[0]), "options": _canon({kk: v for kk, v in k.items()})}, closed=True)

    def dump(a, k):
        rec["dumped"].append((_canon(a[0]), a[1] if len(a) > 1 else None, _canon({kk: v for kk, v in k.items()})))
        return None

    def echo(a, k):
        rec["echo"].append(a[0] if a else None)
        return None

    def items(recv, a, k):
        raise NotHandled()

    ext = {
        "__strict__": True, "open_file": open_file, "open": py_open, ".read": read, "load": load, "loads": loads, "Workspace": workspace,
        ".model": model, ".data": data, "set_backend": set_backend, "get_backend": get_backend, "fit": mle_fit, "hypotest": hypotest,
        ".tolist": tolist, "dumps": dumps, "dump": dump, "echo": echo,
    }
    optimize = Obj("optimize", {
        "scipy": None, "minuit": None,
        "scipy_optimizer": PyFunc(lambda a, k: _opt("scipy", k), "scipy_optimizer"),
        "minuit_optimizer": PyFunc(lambda a, k: _opt("minuit", k), "minuit_optimizer"),
    }, closed=True)
    w = World(ext, module_env={"optimize": optimize, "click": Obj("click"), "json": Obj("json"), "log": Obj("log"), "mle": Obj("mle")})
    return w, doc, pars, band, par_map


def _fresh_rec():
    return {"workspace": [], "model": [], "library": [], "set_backend": [], "echo": [], "dumped": [], "opened": []}


LEFTOVERS = (
    ("a fresh process", lambda: _opt("scipy", {})),
    ("an earlier invocation left scipy(maxiter=1) installed", lambda: _opt("scipy", {"maxiter": Poly.const(1)})),
    ("an earlier invocation left minuit(tolerance=50) installed", lambda: _opt("minuit", {"tolerance": Poly.const(50)})),
)
OPTCONFS = (
    ("no --optconf", []),
    ("--optconf maxiter=7", [{"maxiter": Poly.const(7)}]),
    ("--optconf maxiter=7 --optconf tolerance=3", [{"maxiter": Poly.const(7)}, {"tolerance": Poly.const(3)}]),
)


def check_infer(ctx, rid, repo):
    m = repo.module(CLI + "infer.py")
    n_ok = 0
    for cname, libname in (("fit", "fit"), ("cls", "hypotest")):
        f = m.funcs.get(cname)
        if f is None:
            ctx.unrecognised(rid, m, cname, "command function not found")
            continue
        ctx.touch(f)
        table = option_table(f.node)
        params = A.params_of(f.node)
        need = {"workspace", "output_file", "measurement", "patch", "backend", "optimizer", "optconf"}
        if not need <= set(params) or not need <= set(table):
            ctx.unrecognised(rid, f, cname, f"expected options {sorted(need)} not all declared")
            continue
        backends = table["backend"]["choices"] or []
        unknown = [b for b in backends if b not in BACKEND_CANON]
        if unknown or not backends:
            ctx.unrecognised(rid, f, cname, f"--backend choices {unknown or backends} not in the table of documented backend names")
            continue
        optimizers = list(table["optimizer"]["choices"] or [])
        opt_domain = [("default", table["optimizer"]["default"])] + [(o, o) for o in optimizers]
        bk_domain = [("default", table["backend"]["default"])] + [(b, b) for b in backends]
        problems = {}
        n_run = 0
        for (bk_lab, bk), (op_lab, op), (oc_lab, oc), (lf_lab, lf), out_file, flag in itertools.product(bk_domain, opt_domain, OPTCONFS, LEFTOVERS, (None, "out.json"), (False, True)):
            # keep the product small: the output arm and the flag only vary on the default backend
            if (out_file is not None or flag) and bk_lab != "default":
                continue
            state = _State(_tl("numpy"), lf())
            rec = _fresh_rec()
            w, doc, pars, band, par_map = make_world(state, rec)
            env = {p: table[p]["default"] if p in table else None for p in params}
            for p in params:
                if p in table and table[p]["multiple"]:
                    env[p] = ()
                if isinstance(env[p], (int, float)) and not isinstance(env[p], bool):
                    env[p] = Poly.const(env[p]) if float(env[p]).is_integer() else to_poly(env[p])
            env.update({"workspace": "ws.json", "output_file": out_file, "measurement": "meas_B", "patch": ("p1.json", "p2.json"), "backend": bk, "optimizer": op, "optconf": tuple(dict(d) for d in oc)})
            if cname == "fit":
                env["value"] = flag
            else:
                env.update({"test_poi": Poly.atom("mu_test"), "test_stat": "q" if flag else "qtilde", "calctype": "toybased" if flag else "asymptotics"})
            label = f"pyhf {cname} --backend {bk_lab} --optimizer {op_lab}, {oc_lab}, {lf_lab}" + (", --output-file" if out_file else "") + ((" --value" if cname == "fit" else " --test-stat q --calctype toybased") if flag else "")
            n_run += 1
            try:
                w.call_func(f, [], env)
            except RaisedInFragment as e:
                problems.setdefault(f"the command raises {e.exc_name}", []).append(label)
                continue
            except (Undecided, KeyError, TypeError, ValueError, IndexError, AttributeError) as e:
                ctx.unrecognised(rid, f, cname, f"not interpretable [{label}]: {type(e).__name__}: {e}")
                problems = None
                break
            why = _judge(cname, libname, rec, env, doc, pars, band, par_map, bk, op, oc)
            if why:
                problems.setdefault(why, []).append(label)
        if problems is None:
            continue
        if not problems:
            n_ok += 1
            ctx.holds(rid, f"{f.relpath}::{cname} interpreted end to end", f"{n_run} option combinations x process states: library call, backend, optimiser and output as the options say")
        for why, labels in problems.items():
            ctx.violated(rid, f, f"pyhf {cname}: {why.split(':')[0]}", f"{why} -- e.g. `{labels[0]}` ({len(labels)} of {n_run} combinations)", expected="the library call the options name, under the backend and optimiser they name", found=why, node=f.node)
    return n_ok


def _judge(cname, libname, rec, env, doc, pars, band, par_map, bk, op, oc):
    lib = [x for x in rec["library"] if x[0] == libname]
    if len(lib) != 1:
        return f"the library function {libname} is called {len(lib)} times"
    _, kk, snap = lib[0]
    if rec["workspace"] != [doc("ws.json")]:
        return "the workspace is not built from the document in the WORKSPACE file"
    if len(rec["model"]) != 1:
        return "Workspace.model is not called exactly once"
    mk = rec["model"][0]
    if mk.get("measurement_name") != env["measurement"]:
        return f"--measurement does not arrive at Workspace.model (measurement_name={mk.get('measurement_name')!r})"
    if list(mk.get("patches") or []) != [doc("p1.json"), doc("p2.json")]:
        return "the -p/--patch documents do not arrive at Workspace.model in the order given"
    d, mdl = kk.get("data"), kk.get("pdf")
    if not (isinstance(mdl, Obj) and mdl.name == "model" and isinstance(d, Obj) and d.name == "data" and d.attrs.get("of") is mdl):
        return f"{libname} is not called with (the workspace's data for the model, the model)"
    want_tl = BACKEND_CANON[bk if bk is not None else "numpy"]
    if snap[0] != want_tl:
        return f"backend: the library call runs under the {snap[0]} backend, the option asks for {want_tl}"
    if snap[1] != "64b":
        return f"backend precision: the library call runs at {snap[1]}"
    want_opt = op if op is not None else "scipy"
    want_conf = {}
    for dct in oc:
        want_conf.update(dct)
    if snap[2] != want_opt or {k: str(v) for k, v in snap[3].items()} != {k: str(v) for k, v in want_conf.items()}:
        got = f"{snap[2]}({', '.join(f'{k}={v}' for k, v in sorted(snap[3].items()))})"
        want = f"{want_opt}({', '.join(f'{k}={v}' for k, v in sorted(want_conf.items()))})"
        return f"optimiser: the library call runs with {got} installed, the options ask for {want}"
    if cname == "fit":
        if kk.get("return_fitted_val", False) is not env["value"]:
            return "--value does not arrive at fit(return_fitted_val=...)"
        want_res = {"mle_parameters": {"mu": [pars[0]], "gammas": [pars[1], pars[2]]}}
        if env["value"]:
            want_res["twice_nll"] = Poly.atom("twice_nll")
    else:
        if str(kk.get("poi_test")) != "mu_test":
            return "the tested POI value does not arrive at hypotest"
        if kk.get("test_stat") != env["test_stat"]:
            return f"--test-stat does not arrive at hypotest (test_stat={kk.get('test_stat')!r})"
        if kk.get("calctype") != env["calctype"]:
            return f"--calctype does not arrive at hypotest (calctype={kk.get('calctype')!r})"
        want_res = {"CLs_obs": Poly.atom("CLs_obs"), "CLs_exp": list(band)}
    wtxt = _canon(want_res)
    if env["output_file"] is None:
        texts = [e.attrs["of"] for e in rec["echo"] if isinstance(e, Obj) and e.name == "json_text"]
        if texts != [wtxt] or rec["dumped"]:
            return f"standard output: the JSON written is {texts or rec['dumped']}, the library returned {wtxt}"
    else:
        ok = len(rec["dumped"]) == 1 and rec["dumped"][0][0] == wtxt and isinstance(rec["dumped"][0][1], Obj) and rec["dumped"][0][1].attrs.get("path") == env["output_file"] and str(rec["dumped"][0][1].attrs.get("mode", "")).startswith("w")
        if not ok:
            return f"--output-file: what is written to the file is {[x[0] for x in rec['dumped']]}, the library returned {wtxt}"
        if any(isinstance(e, Obj) and e.name == "json_text" for e in rec["echo"]):
            return "--output-file: the JSON is also written to standard output"
    return None


# ----------------------------------------------------------------------------------------------------------------
def check_inspect(ctx, rid, repo):
    """`pyhf inspect` interpreted on a workspace model with concrete names: a parameter whose name is carried by modifiers of
    TWO types, two measurements, channels of different bin counts.  Every table row printed and every entry of the JSON
    written with --output-file must be what the workspace / model report."""
    m = repo.module(CLI + "spec.py")
    f = m.funcs.get("inspect")
    if f is None:
        ctx.unrecognised(rid, m, "inspect", "command function not found")
        return 0
    ctx.touch(f)
    U, N, P = Obj("unconstrained"), Obj("constrained_by_normal"), Obj("constrained_by_poisson")
    descr = {id(U): "unconstrained", id(N): "constrained_by_normal", id(P): "constrained_by_poisson"}
    modifiers = [("jes", "histosys"), ("jes", "normsys"), ("lumi", "lumi"), ("mu", "normfactor"), ("stat_SR", "staterror"), ("shape_CR", "shapesys"), ("theory_long_name", "normsys")]
    par_types = {"jes": N, "lumi": N, "mu": U, "stat_SR": N, "shape_CR": P, "theory_long_name": N}
    measurements = [
        {"name": "meas_A", "config": {"poi": "mu", "parameters": []}},
        {"name": "meas_B", "config": {"poi": "mu", "parameters": [{"name": "lumi"}, {"name": "jes"}]}},
    ]
    channels, nbins, samples = ["SR", "CR_wide"], {"SR": 2, "CR_wide": 11}, ["background", "signal", "fakes"]
    n_ok = 0
    for meas, out_file in ((None, None), ("meas_B", None), ("meas_B", "inspect.json"), (None, "inspect.json")):
        rec = {"echo": [], "dumped": [], "asked": []}

        def workspace(a, k):
            return Obj("workspace", {"spec": a[0], "samples": list(samples), "channels": list(channels), "channel_nbins": {c: Poly.const(n) for c, n in nbins.items()},
                                     "modifiers": [tuple(x) for x in modifiers], "parameters": sorted(par_types)}, closed=True)

        def get_measurement(recv, a, k):
            nm = k.get("measurement_name", a[0] if a else None)
            rec["asked"].append(("get_measurement", nm))
            if nm is None:
                return measurements[0]
            for mm in measurements:
                if mm["name"] == nm:
                    return mm
            raise RaisedInFragment("InvalidMeasurement")

        def model(recv, a, k):
            if not (isinstance(recv, Obj) and recv.name == "workspace"):
                raise NotHandled()
            nm = k.get("measurement_name", a[0] if a else None)
            rec["asked"].append(("model", nm))
            pm = {p: {"paramset": Obj("paramset", {"__class__": t}), "slice": Obj("slice_" + p)} for p, t in par_types.items()}
            return Obj("model", {"config": Obj("config", {"par_map": pm}, closed=True)}, closed=True)

        def get(recv, a, k):
            if isinstance(recv, Obj) and recv.name == "workspace":
                if a and a[0] == "measurements":
                    return measurements
                raise Undecided(f"workspace.get({a[0] if a else ''!r}) not modelled")
            raise NotHandled()

        def fmt(recv, a, k):
            if not isinstance(recv, str):
                raise NotHandled()
            conv = []
            for x in a:
                if isinstance(x, Poly) and x.is_const() and x.const_value().denominator == 1:
                    x = int(x.const_value())
                if not isinstance(x, (str, int)):
                    raise Undecided("format() of a symbolic value")
                conv.append(x)
            try:
                return recv.format(*conv)
            except (ValueError, IndexError, KeyError, TypeError) as e:
                raise RaisedInFragment(type(e).__name__)

        def dump(a, k):
            rec["dumped"].append((a[0], a[1] if len(a) > 1 else None))

        def py_open(a, k):
            return Obj("outfile", {"path": a[0], "mode": a[1] if len(a) > 1 else "r"}, closed=True)

        ext = {"__strict__": True, "open_file": lambda a, k: Obj("stream", {"path": a[0]}, closed=True), "load": lambda a, k: {"__document__": a[0].attrs["path"]},
               "Workspace": workspace, ".get_measurement": get_measurement, ".model": model, ".get": get, ".format": fmt, "dump": dump, "open": py_open,
               "echo": lambda a, k: rec["echo"].append(a[0] if a else "")}
        psets = Obj("paramsets", {"unconstrained": U, "constrained_by_normal": N, "constrained_by_poisson": P}, closed=True)
        w = World(ext, module_env={"parameters": Obj("parameters", {"paramsets": psets}, closed=True), "click": Obj("click"), "json": Obj("json"), "log": Obj("log"), "modifiers": Obj("modifiers"), "utils": Obj("utils", {"__strict_calls__": True})})
        label = f"pyhf inspect{' --measurement ' + meas if meas else ''}{' --output-file' if out_file else ''}"
        try:
            w.call_func(f, [], {"workspace": "ws.json", "output_file": out_file, "measurement": meas})
        except RaisedInFragment as e:
            ctx.violated(rid, f, label, f"the command raises {e.exc_name} on a workspace the library handles", expected="tables of what the workspace and model report", node=f.node)
            continue
        except (Undecided, KeyError, TypeError, ValueError, IndexError, AttributeError) as e:
            import os
            if os.environ.get("PYHFSA_DEBUG"):
                raise
            ctx.unrecognised(rid, f, label, f"not interpretable: {type(e).__name__}: {e}")
            continue
        rows = [ln.split() for ln in rec["echo"] if isinstance(ln, str)]
        if any(not isinstance(ln, str) for ln in rec["echo"]):
            ctx.unrecognised(rid, f, label, "a printed line is not a concrete string")
            continue
        probs = []
        for nm_, want in [(a_, b_) for a_, b_ in rec["asked"]]:
            if want != meas:
                probs.append(f"--measurement does not arrive at Workspace.{nm_} (got {want!r})")
        for c in channels:
            if [c, str(nbins[c])] not in rows:
                probs.append(f"no table row for channel {c} with {nbins[c]} bins")
        for s_ in samples:
            if [s_] not in rows:
                probs.append(f"no table row for sample {s_}")
        for p, t in sorted(par_types.items()):
            types = sorted({ty for n_, ty in modifiers if n_ == p})
            if [p, descr[id(t)], ",".join(types)] not in rows:
                got = [r_ for r_ in rows if r_ and r_[0] == p]
                probs.append(f"parameter {p}: the table must list constraint {descr[id(t)]} and modifier types {','.join(types)} (the workspace has {len(types)} for this name), printed: {got}")
        chosen = meas or measurements[0]["name"]
        for mm in measurements:
            pl = ",".join(x["name"] for x in mm["config"]["parameters"]) or "(none)"
            want = (["(*)"] if mm["name"] == chosen else []) + [mm["name"], mm["config"]["poi"], pl]
            if want not in rows:
                probs.append(f"measurement row {' '.join(want)} not printed")
        if out_file:
            if len(rec["dumped"]) != 1 or not isinstance(rec["dumped"][0][0], dict):
                probs.append("--output-file: no JSON document written")
            else:
                res, fobj = rec["dumped"][0]
                if not (isinstance(fobj, Obj) and fobj.attrs.get("path") == out_file):
                    probs.append("--output-file: written somewhere else")
                want_sys = {p: sorted({ty for n_, ty in modifiers if n_ == p}) for p in par_types}
                got_sys = {}
                for ent in res.get("systematics", []) or []:
                    if isinstance(ent, (list, tuple)) and len(ent) == 3 and isinstance(ent[2], (list, tuple)):
                        got_sys[ent[0]] = sorted(set(ent[2]))
                if got_sys != want_sys:
                    bad = sorted(p for p in want_sys if got_sys.get(p) != want_sys[p])
                    probs.append(f"--output-file: 'systematics' of {bad} differ from the workspace's modifiers: {[got_sys.get(p) for p in bad]} instead of {[want_sys[p] for p in bad]}")
                if [tuple(x) if isinstance(x, (list, tuple)) else x for x in res.get("channels", [])] != [(c, Poly.const(nbins[c])) for c in channels]:
                    probs.append("--output-file: 'channels' differ from the workspace's")
                if list(res.get("samples", [])) != samples:
                    probs.append("--output-file: 'samples' differ from the workspace's")
                if [tuple(x) for x in res.get("parameters", [])] != sorted((p, descr[id(t)]) for p, t in par_types.items()):
                    probs.append("--output-file: 'parameters' differ from the model's")
                if [(x[0], x[1], list(x[2])) for x in res.get("measurements", []) if isinstance(x, (list, tuple)) and len(x) == 3] != [(mm["name"], mm["config"]["poi"], [q["name"] for q in mm["config"]["parameters"]]) for mm in measurements]:
                    probs.append("--output-file: 'measurements' differ from the workspace's")
        elif rec["dumped"]:
            probs.append("a JSON document is written although --output-file was not given")
        if probs:
            ctx.violated(rid, f, f"{label}: {probs[0].split(':')[0]}", f"{probs[0]}" + (f" (+{len(probs) - 1} more)" if len(probs) > 1 else ""), expected="what the workspace and the model report", found=probs[0], node=f.node)
        else:
            n_ok += 1
            ctx.holds(rid, f"{f.relpath}::{label}", f"{len(rows)} printed rows" + (" and the JSON document" if out_file else "") + " carry the workspace's channels, samples, parameters with all their modifier types, measurements")
    return n_ok


# ----------------------------------------------------------------------------------------------------------------
def check_workspace_commands(ctx, rid, repo):
    """prune, rename, combine, sort, digest (cli/spec.py) and extract, apply, verify (cli/patchset.py) walked end to end with
    files as symbolic documents and recording Workspace / PatchSet objects: the library operation the command is named
    after is called once, on the workspace(s) built from the file(s) given, with every option value in the parameter the
    library documents for it, and what is printed / written is that call's result."""
    n_ok = 0
    errs = (Undecided, KeyError, TypeError, ValueError, IndexError, AttributeError)

    def doc(path):
        return {"__document__": path}

    def run(fn_rel, cname, options, out_key="output_file"):
        f = repo.module(CLI + fn_rel).funcs.get(cname)
        if f is None:
            return None, None, f"command function {cname} not found"
        ctx.touch(f)
        rec = {"calls": [], "echo": [], "dumped": [], "workspaces": []}

        def workspace(a, k):
            o = Obj("workspace", {"spec": a[0] if a else k.get("spec")}, closed=True)
            rec["workspaces"].append(o)
            return o

        def method(name):
            def m(recv, a, k):
                if isinstance(recv, Obj) and recv.name in ("workspace", "patchset"):
                    rec["calls"].append((name, recv, list(a), dict(k)))
                    return Obj(f"RESULT_OF_{name}", {}, closed=True)
                raise NotHandled()
            return m

        def classcall(name):
            def m(a, k):
                if a and isinstance(a[0], Obj) and a[0].name == "workspace":
                    rec["calls"].append((name, None, list(a), dict(k)))
                    return Obj(f"RESULT_OF_{name}", {}, closed=True)
                raise NotHandled()
            return m

        def digest(a, k):
            alg = k.get("algorithm", a[1] if len(a) > 1 else "sha256")
            rec["calls"].append(("digest", None, list(a[:1]), {"algorithm": alg}))
            return f"DIGEST<{alg}>"

        def patchset(a, k):
            return Obj("patchset", {"spec": a[0], "metadata": {"description": "PSET_DESCRIPTION", "labels": ["x"]}, "patches": [Obj("patch", {"name": "p_one"}), Obj("patch", {"name": "p_two"})]}, closed=True)

        def getitem(base, idx):
            if isinstance(base, Obj) and base.name == "patchset":
                rec["calls"].append(("getitem", base, [idx], {}))
                return Obj("patch", {"name": idx, "metadata": {"name": idx, "values": ["V"]}, "patch": [{"op": "add", "path": f"/of/{idx}"}]}, closed=True)
            raise NotHandled()

        def dumps(a, k):
            return Obj("json_text", {"of": _canon(a[0]), "options": _canon(dict(k))}, closed=True)

        ext = {"__strict__": True, "open_file": lambda a, k: Obj("stream", {"path": a[0]}, closed=True), "load": lambda a, k: doc(a[0].attrs["path"]),
               "open": lambda a, k: Obj("outfile", {"path": a[0], "mode": a[1] if len(a) > 1 else "r"}, closed=True),
               "Workspace": workspace, "PatchSet": patchset, ".prune": method("prune"), ".rename": method("rename"), ".apply": method("apply"), ".verify": method("verify"),
               "combine": classcall("combine"), "sorted": classcall("sorted"), "digest": digest, "__getitem__": getitem,
               "dumps": dumps, "dump": lambda a, k: rec["dumped"].append((_canon(a[0]), a[1] if len(a) > 1 else None)), "echo": lambda a, k: rec["echo"].append(a[0] if a else ""), "secho": lambda a, k: rec["echo"].append(a[0] if a else "")}
        w = World(ext, module_env={"click": Obj("click"), "json": Obj("json"), "log": Obj("log"), "utils": Obj("utils", {"__strict_calls__": True})})
        world_getitem = w.externals()["__getitem__"]

        def any_getitem(base, idx):
            try:
                return getitem(base, idx)
            except NotHandled:
                return world_getitem(base, idx)

        w.externals()["__getitem__"] = any_getitem
        params = A.params_of(f.node)
        table = option_table(f.node)
        env = {p: (() if table.get(p, {}).get("multiple") else table.get(p, {}).get("default")) for p in params}
        env.update(options)
        try:
            w.call_func(f, [], env)
        except RaisedInFragment as e:
            return f, rec, f"the command raises {e.exc_name}"
        except errs as e:
            return f, None, f"not interpretable: {type(e).__name__}: {e}"
        return f, rec, None

    def output_ok(rec, out_file, want):
        wtxt = _canon(want)
        if out_file is None:
            texts = [e.attrs["of"] for e in rec["echo"] if isinstance(e, Obj) and e.name == "json_text"]
            return (texts == [wtxt] and not rec["dumped"]), f"printed {texts or [x[0] for x in rec['dumped']]}"
        ok = len(rec["dumped"]) == 1 and rec["dumped"][0][0] == wtxt and isinstance(rec["dumped"][0][1], Obj) and rec["dumped"][0][1].attrs.get("path") == out_file
        return ok, f"written {[x[0] for x in rec['dumped']]}"

    def ws_of(o):
        return o.attrs.get("spec") if isinstance(o, Obj) and o.name == "workspace" else None

    plans = []
    pairs = (("a", "A2"), ("b", "B2"))
    for out_file in (None, "out.json"):
        plans.append(("spec.py", "prune", {"workspace": "ws.json", "output_file": out_file, "channel": ("c1", "c2"), "sample": ("s1",), "modifier": ("m1", "m2"), "modifier_type": ("histosys",), "measurement": ("meas1",)},
                      lambda rec: [c for c in rec["calls"] if c[0] == "prune"],
                      lambda c: ws_of(c[1]) == doc("ws.json") and not c[2] and {k_: tuple(v_) if isinstance(v_, (list, tuple)) else v_ for k_, v_ in c[3].items()} == {"channels": ("c1", "c2"), "samples": ("s1",), "modifiers": ("m1", "m2"), "modifier_types": ("histosys",), "measurements": ("meas1",)},
                      "RESULT_OF_prune", out_file, "Workspace(<WORKSPACE file>).prune(channels=-c, samples=-s, modifiers=-m, modifier_types=-t, measurements=--measurement)"))
        plans.append(("spec.py", "rename", {"workspace": "ws.json", "output_file": out_file, "channel": pairs, "sample": (("s", "S2"),), "modifier": (("m", "M2"),), "measurement": (("x", "X2"),)},
                      lambda rec: [c for c in rec["calls"] if c[0] == "rename"],
                      lambda c: ws_of(c[1]) == doc("ws.json") and not c[2] and {k_: dict(v_) for k_, v_ in c[3].items()} == {"channels": dict(pairs), "samples": {"s": "S2"}, "modifiers": {"m": "M2"}, "measurements": {"x": "X2"}},
                      "RESULT_OF_rename", out_file, "Workspace(<WORKSPACE file>).rename(channels=dict(-c), samples=dict(-s), modifiers=dict(-m), measurements=dict(--measurement))"))
        for join, merge in (("left outer", True), ("none", False)):
            plans.append(("spec.py", "combine", {"workspace_one": "one.json", "workspace_two": "two.json", "output_file": out_file, "join": join, "merge_channels": merge},
                          lambda rec: [c for c in rec["calls"] if c[0] == "combine"],
                          lambda c, join=join, merge=merge: [ws_of(x) for x in c[2][:2]] == [doc("one.json"), doc("two.json")] and (c[3].get("join", c[2][2] if len(c[2]) > 2 else "none") == join) and (c[3].get("merge_channels", c[2][3] if len(c[2]) > 3 else False) is merge),
                          "RESULT_OF_combine", out_file, "Workspace.combine(Workspace(<first file>), Workspace(<second file>), join=--join, merge_channels=--merge-channels)"))
        plans.append(("spec.py", "sort", {"workspace": "ws.json", "output_file": out_file},
                      lambda rec: [c for c in rec["calls"] if c[0] == "sorted"], lambda c: [ws_of(x) for x in c[2]] == [doc("ws.json")], "RESULT_OF_sorted", out_file, "Workspace.sorted(Workspace(<WORKSPACE file>))"))
        plans.append(("patchset.py", "apply", {"background_only": "bkg.json", "patchset": "pset.json", "name": "p_two", "output_file": out_file},
                      lambda rec: [c for c in rec["calls"] if c[0] == "apply"],
                      lambda c: isinstance(c[1], Obj) and c[1].attrs.get("spec") == doc("pset.json") and ws_of(c[2][0] if c[2] else c[3].get("spec")) == doc("bkg.json") and (c[2][1] if len(c[2]) > 1 else c[3].get("key")) == "p_two",
                      "RESULT_OF_apply", out_file, "PatchSet(<PATCHSET file>).apply(Workspace(<BACKGROUND-ONLY file>), --name)"))
    for fn_rel, cname, options, pick, good, result_name, out_file, want_txt in plans:
        label = f"pyhf {'patchset ' if fn_rel == 'patchset.py' else ''}{cname}" + (" --output-file" if out_file else "") + (f" --join '{options['join']}'" + (" --merge-channels" if options["merge_channels"] else "") if cname == "combine" else "")
        f, rec, err = run(fn_rel, cname, options)
        if f is None:
            ctx.unrecognised(rid, repo.module(CLI + fn_rel), cname, err)
            continue
        if rec is None:
            ctx.unrecognised(rid, f, label, err)
            continue
        if err:
            ctx.violated(rid, f, label, err, expected=want_txt, node=f.node)
            continue
        calls = pick(rec)
        if len(calls) != 1 or not good(calls[0]):
            ctx.violated(rid, f, f"{label}: library call", f"`{label}` does not make the library call its options describe", expected=want_txt, found=str([(c[0], [_canon(ws_of(x)) if ws_of(x) is not None else _canon(x) for x in c[2]], {k_: _canon(v_) for k_, v_ in c[3].items()}) for c in calls])[:300], node=f.node)
            continue
        ok, found = output_ok(rec, out_file, Obj(result_name))
        if not ok:
            ctx.violated(rid, f, f"{label}: output", f"`{label}` does not emit the result of the library call as JSON on the requested channel", expected=f"<{result_name}>", found=found[:200], node=f.node)
            continue
        n_ok += 1
        ctx.holds(rid, f"{CLI}{fn_rel}::{label}", want_txt)
    # ---- digest: one library call per algorithm, in order; both output forms
    for as_json in (True, False):
        label = f"pyhf digest -a md5 -a sha256 {'--json' if as_json else '--plaintext'}"
        f, rec, err = run("spec.py", "digest", {"workspace": "ws.json", "algorithm": ("md5", "sha256"), "output_json": as_json})
        if f is None or rec is None:
            ctx.unrecognised(rid, f or repo.module(CLI + "spec.py"), label, err or "?")
            continue
        calls = [c for c in rec["calls"] if c[0] == "digest"]
        algs = [c[3]["algorithm"] for c in calls]
        if err or algs != ["md5", "sha256"] or any(ws_of(c[2][0]) != doc("ws.json") for c in calls):
            ctx.violated(rid, f, label, err or f"the digest is computed for algorithms {algs} (asked: md5, sha256) or not of the workspace in the file", expected="utils.digest(Workspace(<file>), algorithm=a) for each -a", node=f.node)
            continue
        if as_json:
            texts = [e.attrs["of"] for e in rec["echo"] if isinstance(e, Obj) and e.name == "json_text"]
            good_out = texts == [_canon({"md5": "DIGEST<md5>", "sha256": "DIGEST<sha256>"})]
        else:
            lines = [ln for e in rec["echo"] if isinstance(e, str) for ln in e.split("\n")]
            good_out = lines == ["md5:DIGEST<md5>", "sha256:DIGEST<sha256>"]
        if good_out:
            n_ok += 1
            ctx.holds(rid, f"{CLI}spec.py::{label}", "one digest per algorithm, emitted under its own name")
        else:
            ctx.violated(rid, f, f"{label}: output", "the digests printed are not the library's, each under the algorithm it was computed with", found=str(rec["echo"])[:200], node=f.node)
    # ---- patchset extract / verify
    for with_md in (False, True):
        for out_file in (None, "p.json"):
            label = f"pyhf patchset extract --name p_two{' --with-metadata' if with_md else ''}{' --output-file' if out_file else ''}"
            f, rec, err = run("patchset.py", "extract", {"patchset": "pset.json", "name": "p_two", "with_metadata": with_md, "output_file": out_file})
            if f is None or rec is None:
                ctx.unrecognised(rid, f or repo.module(CLI + "patchset.py"), label, err or "?")
                continue
            gets = [c for c in rec["calls"] if c[0] == "getitem"]
            patch_ops = [{"op": "add", "path": "/of/p_two"}]
            want = {"metadata": {"name": "p_two", "values": ["V"], "description": "PSET_DESCRIPTION", "labels": ["x"]}, "patch": patch_ops} if with_md else patch_ops
            ok, found = output_ok(rec, out_file, want)
            if err or len(gets) != 1 or gets[0][2] != ["p_two"] or gets[0][1].attrs.get("spec") != doc("pset.json"):
                ctx.violated(rid, f, label, err or "the patch looked up is not the one --name asks for, in the patch set of the file given", expected="PatchSet(<PATCHSET file>)[--name]", node=f.node)
            elif not ok:
                ctx.violated(rid, f, f"{label}: output", "what is emitted is not the patch's operations" + (" together with its metadata completed by the patch set's" if with_md else ""), expected=_canon(want)[:200], found=found[:200], node=f.node)
            else:
                n_ok += 1
                ctx.holds(rid, f"{CLI}patchset.py::{label}", "the patch --name names; operations" + (" + metadata" if with_md else ""))
    f, rec, err = run("patchset.py", "verify", {"background_only": "bkg.json", "patchset": "pset.json"})
    if f is not None and rec is not None:
        calls = [c for c in rec["calls"] if c[0] == "verify"]
        if err or len(calls) != 1 or calls[0][1].attrs.get("spec") != doc("pset.json") or ws_of(calls[0][2][0] if calls[0][2] else calls[0][3].get("spec")) != doc("bkg.json"):
            ctx.violated(rid, f, "pyhf patchset verify", err or "verification is not run on (the patch set of the second file, the workspace of the first)", expected="PatchSet(<PATCHSET file>).verify(Workspace(<BACKGROUND-ONLY file>))", node=f.node)
        else:
            n_ok += 1
            ctx.holds(rid, f"{CLI}patchset.py::pyhf patchset verify", "PatchSet(<PATCHSET file>).verify(Workspace(<BACKGROUND-ONLY file>))")
    return n_ok


# ----------------------------------------------------------------------------------------------------------------
def check_rootio(ctx, rid, repo):
    """json2xml and xml2json walked end to end over recording writexml.writexml / readxml.parse and a path model."""
    from .. import xmlmodel
    m = repo.module(CLI + "rootio.py")
    errs = (Undecided, KeyError, TypeError, ValueError, IndexError, AttributeError)
    n_ok = 0

    def doc(path):
        return {"__document__": path}

    def pstr(x):
        return x.attrs["p"] if isinstance(x, Obj) and x.name == "path" else x

    # ---- json2xml
    f = m.funcs.get("json2xml")
    if f is not None:
        ctx.touch(f)
        for patches in ((), ("p1.json",), ("p1.json", "p2.json")):
            label = "pyhf json2xml --output-dir OUT --specroot cfg --dataroot dat --resultprefix Fit" + "".join(f" -p {p}" for p in patches)
            rec = {"writexml": [], "written": []}

            def open_file(a, k):
                return Obj("stream", {"path": pstr(a[0]), "mode": a[1] if len(a) > 1 else k.get("mode", "r")}, closed=True)

            def write(recv, a, k, rec=rec):
                if isinstance(recv, Obj) and recv.name == "stream":
                    rec["written"].append((recv.attrs["path"], recv.attrs["mode"], a[0]))
                    return None
                raise NotHandled()

            def read(recv, a, k):
                if isinstance(recv, Obj) and recv.name == "stream":
                    return Obj("text", {"path": recv.attrs["path"]}, closed=True)
                raise NotHandled()

            def jsonpatch_ctor(a, k):
                return Obj("JsonPatch", {"ops": a[0]}, closed=True)

            def apply(recv, a, k):
                if isinstance(recv, Obj) and recv.name == "JsonPatch":
                    return {"__patched__": [a[0], recv.attrs["ops"]]}
                raise NotHandled()

            def writexml(a, k, rec=rec):
                kk = dict(k)
                for nm, v in zip(("spec", "specdir", "data_rootdir", "resultprefix"), a):
                    kk[nm] = v
                rec["writexml"].append(kk)
                return Obj("XMLBYTES", {}, closed=True)

            ext = {"__strict__": True, "open_file": open_file, ".write": write, ".read": read, "load": lambda a, k: doc(a[0].attrs["path"]), "loads": lambda a, k: doc(a[0].attrs["path"]),
                   "JsonPatch": jsonpatch_ctor, ".apply": apply, "writexml": writexml, "makedirs": lambda a, k: None,
                   ".decode": lambda recv, a, k: recv if isinstance(recv, Obj) and recv.name == "XMLBYTES" else (_ for _ in ()).throw(NotHandled())}
            fe = xmlmodel.file_externals({}, {})
            ext.update({"Path": fe["Path"], ".joinpath": fe[".joinpath"]})
            w = World(ext, module_env={"click": Obj("click"), "json": Obj("json"), "log": Obj("log"), "os": Obj("os"), "jsonpatch": Obj("jsonpatch")})
            try:
                w.call_func(f, [], {"workspace": "ws.json", "output_dir": "OUT", "specroot": "cfg", "dataroot": "dat", "resultprefix": "Fit", "patch": tuple(patches)})
            except RaisedInFragment as e:
                ctx.violated(rid, f, label, f"the command raises {e.exc_name}", node=f.node)
                continue
            except errs as e:
                ctx.unrecognised(rid, f, label, f"not interpretable: {type(e).__name__}: {e}")
                continue
            want_spec = doc("ws.json")
            for p_ in patches:
                want_spec = {"__patched__": [want_spec, doc(p_)]}
            calls = rec["writexml"]
            why = None
            if len(calls) != 1:
                why = f"writexml is called {len(calls)} times"
            elif _canon(calls[0].get("spec")) != _canon(want_spec):
                why = f"the workspace handed to writexml is {_canon(calls[0].get('spec'))[:160]}; the -p/--patch documents must be applied to the WORKSPACE document one after the other, in the order given"
            elif (pstr(calls[0].get("specdir")), pstr(calls[0].get("data_rootdir")), calls[0].get("resultprefix")) != ("OUT/cfg", "OUT/dat", "Fit"):
                why = f"writexml gets (specdir, data_rootdir, resultprefix) = {(pstr(calls[0].get('specdir')), pstr(calls[0].get('data_rootdir')), calls[0].get('resultprefix'))}; the options say ('OUT/cfg', 'OUT/dat', 'Fit')"
            elif [(p_, getattr(c_, "name", None)) for p_, md_, c_ in rec["written"] if str(md_).startswith("w")] != [("OUT/Fit.xml", "XMLBYTES")]:
                why = f"the top-level XML is written to {[(p_, getattr(c_, 'name', c_)) for p_, md_, c_ in rec['written']]}; it belongs in OUT/Fit.xml"
            if why:
                ctx.violated(rid, f, f"{label}: {why.split(' is ')[0].split(' gets ')[0]}", f"`{label}`: {why}", expected="writexml(<patched workspace>, OUT/cfg, OUT/dat, 'Fit') written to OUT/Fit.xml", node=f.node)
            else:
                n_ok += 1
                ctx.holds(rid, f"{CLI}rootio.py::{label}", "writexml(<workspace with the patches applied in order>, OUT/cfg, OUT/dat, Fit) -> OUT/Fit.xml")
    # ---- xml2json
    f = m.funcs.get("xml2json")
    if f is not None:
        ctx.touch(f)
        for out_file, flags in ((None, (True, True)), ("ws_out.json", (False, False))):
            label = f"pyhf xml2json top.xml --basedir BASE -v MOUNT{' --output-file' if out_file else ''}{'' if flags[0] else ' --hide-progress --validation-as-warning'}"
            rec = {"parse": [], "echo": [], "dumped": []}

            def parse(a, k, rec=rec):
                kk = dict(k)
                for nm, v in zip(("configfile", "rootdir", "mounts", "track_progress", "validation_as_error"), a):
                    kk[nm] = v
                rec["parse"].append(kk)
                return Obj("PARSED_WORKSPACE", {}, closed=True)

            ext = {"__strict__": True, "parse": parse, "dumps": lambda a, k: Obj("json_text", {"of": _canon(a[0])}, closed=True), "dump": lambda a, k, rec=rec: rec["dumped"].append((_canon(a[0]), a[1] if len(a) > 1 else None)),
                   "echo": lambda a, k, rec=rec: rec["echo"].append(a[0] if a else ""), "open": lambda a, k: Obj("outfile", {"path": a[0]}, closed=True)}
            w = World(ext, module_env={"click": Obj("click"), "json": Obj("json"), "log": Obj("log")})
            # several -v options, nested mount points, NOT in sorted order, one given twice: the resolver applies the first match in
            # the order the user gave, so the order (and multiplicity) must arrive as given
            mounts = (("z_relocated", "/archive/data"), ("a_archive", "/archive"), ("z_relocated", "/archive/data"))
            try:
                w.call_func(f, [], {"entrypoint_xml": "top.xml", "basedir": "BASE", "mount": mounts, "output_file": out_file, "track_progress": flags[0], "validation_as_error": flags[1]})
            except RaisedInFragment as e:
                ctx.violated(rid, f, label, f"the command raises {e.exc_name}", node=f.node)
                continue
            except errs as e:
                ctx.unrecognised(rid, f, label, f"not interpretable: {type(e).__name__}: {e}")
                continue
            calls = rec["parse"]
            ok_call = len(calls) == 1 and calls[0].get("configfile") == "top.xml" and calls[0].get("rootdir") == "BASE" and tuple(calls[0].get("mounts") or ()) == mounts and calls[0].get("track_progress") is flags[0] and calls[0].get("validation_as_error") is flags[1]
            texts = [e.attrs["of"] for e in rec["echo"] if isinstance(e, Obj) and e.name == "json_text"]
            ok_out = (texts == ["<PARSED_WORKSPACE>"] and not rec["dumped"]) if out_file is None else (len(rec["dumped"]) == 1 and rec["dumped"][0][0] == "<PARSED_WORKSPACE>" and getattr(rec["dumped"][0][1], "attrs", {}).get("path") == out_file and not texts)
            if not ok_call:
                ctx.violated(rid, f, f"{label}: library call", "readxml.parse does not receive (the entry-point file, --basedir, mounts=-v, track_progress, validation_as_error) as given", expected="parse('top.xml', 'BASE', mounts=<the -v pairs in the order given>, track_progress=..., validation_as_error=...)", found=str([{k_: _canon(v_) for k_, v_ in c_.items()} for c_ in calls])[:300], node=f.node)
            elif not ok_out:
                ctx.violated(rid, f, f"{label}: output", "the parsed workspace is not emitted as JSON on the requested channel", found=str(texts or rec["dumped"])[:200], node=f.node)
            else:
                n_ok += 1
                ctx.holds(rid, f"{CLI}rootio.py::{label}", "parse(entry point, basedir, mounts, flags) -> JSON")
    return n_ok
